/-
  Bridge: the TRANSLATED `PoseidonGoldilocks::linear_hash_seq` and `linear_hash` (Gen/LinearHashGen.lean, regenerated from
  poseidon_goldilocks.cpp on every run; the `while (remaining)` loop is a fuel-bounded fold over the lifted loop body)
  compute the hand model `Model.linearHash` of Model/Sponge.lean, hence (Lemmas/SpongeL.lean) the rate-8 capacity-4 sponge.

  Shape of the argument
    * `lh_seq_generic`, `lh_avx_generic`, `lh512_generic`: the generated functions EQUAL the reference texts `lhGenG`,
      `lh512GenG` (kept here, not regenerated) instantiated with the translated permutation they call
      (`Pos_hash_full_result_seq_al_state_input` resp. `Pos_hash_full_result_al_state_input`: the call pattern
      `hash_full_result*(state, state)`, output aliased with input).  The equality is proved EXTENSIONALLY
      (Lemmas/BridgeEquiv.lean, `gen_equiv`: parallel walk through the two programs, words compared in Z/2^64, regions
      compared word by word, conditions compared over Nat), not by `rfl`: renamed locals, hoisted sub-expressions,
      reordered independent copies / fills, dead branches, `a < b` vs `b > a` do not break it.  A loop that counts the
      absorbed elements UP instead of the remaining ones DOWN is accepted too (`lh_countup`: the two loops are related by
      `absorbed = size - remaining` under the invariant `remaining ≤ size`, `GenEquiv.whileM_map`), and so is a loop whose
      first-iteration action (clearing the capacity) was hoisted in front of it (`lh_first`: the bodies are compared on the
      states satisfying `lhInv` — "nothing absorbed yet ⇒ the state is still zero" —, `GenEquiv.whileM_congr_inv`).  A change
      of what a C++ function computes breaks these lemmas.
    * `lhGenG_spec`: for every region function `P` that acts on the first twelve words as a list function `perm`
      (`hP : ∀ s, toList (P s) 12 = perm (toList s 12)`), every input region, every 64-bit size and every fuel > size:
      the generated function returns, its four output words are `linearHash perm (the first size words of the input)`, and
      it writes nothing beyond word 3 of the output.
  Fuel: `size < fuel` is assumed (one unit per iteration and one for the final test would need only size/8 + 2; the simple
  bound is the one `lhLoop_spec` is stated with).
  What is NOT proved here: that the translated permutations satisfy `hP` for some `perm` (that their first twelve output
  words depend only on the first twelve input words); C06 proves what they compute in the field view.
-/
import GoldilocksVerif.Gen.LinearHashGen
import GoldilocksVerif.Lemmas.SpongeL
import GoldilocksVerif.Lemmas.BridgeBlocks
import GoldilocksVerif.Lemmas.BridgeEquiv
import Mathlib.Tactic.SplitIfs

set_option linter.unusedSimpArgs false
set_option linter.unusedTactic false

namespace GoldilocksVerif
open Model Gen.LinearHashGen


/-! ### the generated text, generic in the permutation call -/

/-- loop body of `linear_hash_seq` / `linear_hash` -/
def lhStepG (P : Region → Region) (input : Region) (size : BitVec 64) (st__ : Region × BitVec 64) :
    Option (Bool × (Region × BitVec 64)) :=
  let state := st__.1
  let remaining := st__.2
  if (remaining != 0#64) then
    let state := if (remaining == size) then
        (Region.unshift state 8 (Region.zeroN (Region.shift state 8) 4))
      else
        (Region.unshift state 8 (Region.copyN (Region.shift state 8) state 4))
    let n : BitVec 64 := (if (decide (remaining < 8#64)) then remaining else 8#64)
    let state := (Region.unshift state (n).toNat (Region.zeroN (Region.shift state (n).toNat) ((((8#64 - n) * 8#64)).toNat / 8)))
    let state := (Region.copyN state (Region.shift input ((size - remaining)).toNat) (((n * 8#64)).toNat / 8))
    let state := P state
    let remaining := (remaining - n)
    some (true, (state, remaining))
  else
    some (false, (state, remaining))

/-- `linear_hash_seq` / `linear_hash` -/
def lhGenG (P : Region → Region) (fuel : Nat) (output input : Region) (size : BitVec 64) : Option Region :=
  if (decide (size ≤ 4#64)) then
    let output := (Region.copyN output input (((size * 8#64)).toNat / 8))
    let output := (Region.unshift output (size).toNat (Region.zeroN (Region.shift output (size).toNat) ((((4#64 - size) * 8#64)).toNat / 8)))
    some output
  else
    (Loop.whileM (lhStepG P input size) fuel (Region.zero, size)).bind fun st_2 =>
    let state := st_2.1
    let output := if (decide (size > 0#64)) then (Region.copyN output state 4) else (Region.zeroN output 4)
    some output

/-! ### generated function = reference text -/

/-- the count-down loop never has more left than `size` -/
theorem lhStepG_inv (P : Region → Region) (input : Region) (size : BitVec 64) (t : Region × BitVec 64) (b : Bool)
    (t' : Region × BitVec 64) (ht : t.2.toNat ≤ size.toNat) (h : lhStepG P input size t = some (b, t')) :
    t'.2.toNat ≤ size.toNat := by
  unfold lhStepG at h
  dsimp only at h
  split_ifs at h <;> cases h <;> dsimp only <;> ge_cond_norm <;> bv_omega

/-- a loop `F` whose state is `(state, absorbed)` with `absorbed` counted UP from 0, against a reference loop `G` whose state
    is `(state, remaining)` with `remaining` counted DOWN from `size` and never above `size` (`hG`): if one step of `F` from
    `(s, size - r)` is the image of one step of `G` from `(s, r)`, the two loops (and what follows them) agree -/
theorem bind_whileM_countup {size : BitVec 64}
    {F G : Region × BitVec 64 → Option (Bool × (Region × BitVec 64))} {K K' : Region × BitVec 64 → Option Region} {fuel : Nat}
    (hG : ∀ (t : Region × BitVec 64) (b : Bool) (t' : Region × BitVec 64), t.2.toNat ≤ size.toNat → G t = some (b, t') →
      t'.2.toNat ≤ size.toNat)
    (hstep : ∀ t : Region × BitVec 64, t.2.toNat ≤ size.toNat →
      F (t.1, size - t.2) = (G t).map (fun p => (p.1, (p.2.1, size - p.2.2))))
    (hK : ∀ t : Region × BitVec 64, K (t.1, size - t.2) = K' t) :
    (Loop.whileM F fuel (Region.zero, 0#64)).bind K = (Loop.whileM G fuel (Region.zero, size)).bind K' := by
  have h0 : ((Region.zero, 0#64) : Region × BitVec 64) =
      (fun t : Region × BitVec 64 => (t.1, size - t.2)) (Region.zero, size) := by
    show (Region.zero, 0#64) = (Region.zero, size - size)
    rw [BitVec.sub_self]
  rw [h0, GenEquiv.whileM_map F G (fun t => (t.1, size - t.2)) (fun t => t.2.toNat ≤ size.toNat)
    hstep hG fuel (Region.zero, size) (Nat.le_refl _), GenEquiv.optBind_map]
  exact GenEquiv.optBind_congr rfl hK

/-- the count-up form: the pass-through branch as usual, the loop through `bind_whileM_countup` (`inv` = the invariant lemma
    of the reference loop, `stepG` = the reference loop body, still folded on the right-hand side) -/
macro "lh_countup " inv:term ", " stepG:ident : tactic =>
  `(tactic| focus
      (dsimp only
       split_ifs <;> first
         | ge_contra
         | (refine bind_whileM_countup (fun t b t' ht h => $inv t b t' ht h) (fun t ht => ?_) (fun t => ?_)
            · delta $stepG
              gen_equiv
            · gen_equiv)
         | gen_equiv))

/-- invariant of the reference loop: never more left than `size`, and as long as nothing has been absorbed
    (`remaining = size`) the state is still the initial all-zero one -/
def lhInv (size : BitVec 64) (t : Region × BitVec 64) : Prop :=
  t.2.toNat ≤ size.toNat ∧ (t.2 = size → t.1 = Region.zero)

theorem lhStepG_inv0 (P : Region → Region) (input : Region) (size : BitVec 64) (t : Region × BitVec 64) (b : Bool)
    (t' : Region × BitVec 64) (ht : lhInv size t) (h : lhStepG P input size t = some (b, t')) : lhInv size t' := by
  obtain ⟨h1, h2⟩ := ht
  unfold lhStepG at h
  dsimp only at h
  split_ifs at h <;> cases h <;> first
    | exact ⟨h1, h2⟩
    | (refine ⟨?_, fun he => ?_⟩
       · clear h2; dsimp only; ge_cond_norm; bv_omega
       · clear h2; dsimp only at he; ge_contra)

/-- a loop `F` from an initial state `s0` that IS the all-zero state (e.g. written as the zero state with its capacity part
    cleared once more, before the loop) against the reference loop `G`: the bodies only have to agree on the states
    satisfying `lhInv` (so a body that relies on "first iteration ⇒ the state is still zero" is accepted) -/
theorem bind_whileM_first {size : BitVec 64}
    {F G : Region × BitVec 64 → Option (Bool × (Region × BitVec 64))} {K K' : Region × BitVec 64 → Option Region} {fuel : Nat}
    {s0 : Region} (h0 : s0 = Region.zero)
    (hG : ∀ (t : Region × BitVec 64) (b : Bool) (t' : Region × BitVec 64), lhInv size t → G t = some (b, t') → lhInv size t')
    (hfirst : F (Region.zero, size) = G (Region.zero, size))
    (hstep : ∀ t : Region × BitVec 64, t.2.toNat ≤ size.toNat → ¬ t.2 = size → F t = G t)
    (hK : ∀ t : Region × BitVec 64, K t = K' t) :
    (Loop.whileM F fuel (s0, size)).bind K = (Loop.whileM G fuel (Region.zero, size)).bind K' := by
  subst h0
  have hs : ∀ t : Region × BitVec 64, lhInv size t → F t = G t := by
    intro t ht
    obtain ⟨s, r⟩ := t
    obtain ⟨h1, h2⟩ := ht
    by_cases he : r = size
    · have hz : s = Region.zero := h2 he
      rw [hz, he]
      exact hfirst
    · exact hstep (s, r) h1 he
  rw [GenEquiv.whileM_congr_inv F G (lhInv size) hs hG fuel (Region.zero, size) ⟨Nat.le_refl _, fun _ => rfl⟩]
  exact GenEquiv.optBind_congr rfl hK

/-- the form with the first-iteration action hoisted out of the loop: the loop through `bind_whileM_first`; the step is
    compared separately for the first iteration (state = zero, remaining = size) and for the later ones -/
macro "lh_first " inv:term ", " stepG:ident : tactic =>
  `(tactic| focus
      (dsimp only
       split_ifs <;> first
         | ge_contra
         | (refine bind_whileM_first ?_ (fun t b t' ht h => $inv t b t' ht h) ?_ (fun t h1 he => ?_) (fun t => ?_)
            · gen_equiv
            · delta $stepG
              gen_equiv
            · try dsimp only at h1 he
              delta $stepG
              gen_equiv
            · gen_equiv)
         | gen_equiv))

theorem lh_seq_generic (fuel : Nat) (output input : Region) (size : BitVec 64) :
    Pos_linear_hash_seq fuel output input size = lhGenG Pos_hash_full_result_seq_al_state_input fuel output input size := by
  delta lhGenG
  delta_prefix "Gen.LinearHashGen.Pos_linear_hash_seq"
  first
  | (delta lhStepG; gen_equiv)
  | lh_countup (lhStepG_inv Pos_hash_full_result_seq_al_state_input input size), lhStepG
  | lh_first (lhStepG_inv0 Pos_hash_full_result_seq_al_state_input input size), lhStepG

theorem lh_avx_generic (fuel : Nat) (output input : Region) (size : BitVec 64) :
    Pos_linear_hash fuel output input size = lhGenG Pos_hash_full_result_al_state_input fuel output input size := by
  delta lhGenG
  delta_prefix "Gen.LinearHashGen.Pos_linear_hash"
  delta_prefix "Gen.Avx2Mat.load_avx"
  delta_prefix "Gen.Avx2Mat.store_avx"
  first
  | (delta lhStepG; gen_equiv)
  | lh_countup (lhStepG_inv Pos_hash_full_result_al_state_input input size), lhStepG
  | lh_first (lhStepG_inv0 Pos_hash_full_result_al_state_input input size), lhStepG

/-! ### one block -/

theorem lhStepG_stop (P : Region → Region) (input state : Region) (size : BitVec 64) :
    lhStepG P input size (state, 0#64) = some (false, (state, 0#64)) := rfl

/-- one iteration of the generated loop = one iteration of the hand model's loop -/
theorem lhStepG_next (P : Region → Region) (perm : List Wd → List Wd)
    (hP : ∀ s, Region.toList (P s) 12 = perm (Region.toList s 12))
    (input state : Region) (size remaining : BitVec 64) (h0 : remaining ≠ 0#64) (hle : remaining.toNat ≤ size.toNat) :
    ∃ state' remaining', lhStepG P input size (state, remaining) = some (true, (state', remaining')) ∧
      remaining'.toNat = remaining.toNat - min remaining.toNat 8 ∧
      Region.toList state' 12 =
        perm ((((Region.toList input size.toNat).drop (size.toNat - remaining.toNat)).take (min remaining.toNat 8) ++
                zeros (8 - min remaining.toNat 8)) ++
              (if remaining.toNat = size.toNat then zeros 4 else (Region.toList state 12).take 4)) := by
  have hb : (remaining != 0#64) = true := by simpa using h0
  have h8 : (8#64 : BitVec 64).toNat = 8 := rfl
  -- the block length
  have hn : (if (decide (remaining < 8#64)) then remaining else 8#64).toNat = min remaining.toNat 8 := by
    by_cases h : remaining < 8#64
    · have h' : remaining.toNat < 8 := by rw [BitVec.lt_def, h8] at h; exact h
      simp only [h, decide_true, if_true]; omega
    · have h' : ¬ remaining.toNat < 8 := by rw [BitVec.lt_def, h8] at h; exact h
      simp only [h, decide_false, Bool.false_eq_true, if_false, h8]; omega
  generalize hnd : (if (decide (remaining < 8#64)) then remaining else 8#64) = nBV at hn
  have hn8 : nBV.toNat ≤ 8 := by omega
  have hnr : nBV.toNat ≤ remaining.toNat := by omega
  have e1 : ((8#64 - nBV) * 8#64).toNat / 8 = 8 - nBV.toNat := by
    rw [BitVec.toNat_mul, BitVec.toNat_sub, h8]; omega
  have e2 : (nBV * 8#64).toNat / 8 = nBV.toNat := by
    rw [BitVec.toNat_mul, h8]; omega
  have e3 : (size - remaining).toNat = size.toNat - remaining.toNat := by
    rw [BitVec.toNat_sub]; omega
  have e4 : (remaining - nBV).toNat = remaining.toNat - min remaining.toNat 8 := by
    rw [BitVec.toNat_sub]; omega
  have hc : (remaining == size) = true ↔ remaining.toNat = size.toNat := by
    rw [beq_iff_eq]; exact ⟨fun h => by rw [h], fun h => BitVec.eq_of_toNat_eq h⟩
  refine ⟨?st, remaining - nBV, ?h1, e4, ?h2⟩
  case h1 =>
    unfold lhStepG
    simp only [hb, if_true, hnd]
    rfl
  case h2 =>
    rw [hP, e1, e2, e3, ← hn]
    exact congrArg perm (block_list state input size.toNat remaining.toNat nBV.toNat hn hle (remaining == size) hc)

/-- the generated loop runs in step with `Model.lhLoop` -/
theorem lh_loop_sync (P : Region → Region) (perm : List Wd → List Wd)
    (hP : ∀ s, Region.toList (P s) 12 = perm (Region.toList s 12)) (input : Region) (size : BitVec 64) :
    ∀ (f : Nat) (state : Region) (remaining : BitVec 64), remaining.toNat ≤ size.toNat → remaining.toNat ≤ f →
      ∃ state', Loop.whileM (lhStepG P input size) (f + 1) (state, remaining) = some (state', 0#64) ∧
        Region.toList state' 12 =
          lhLoop perm (Region.toList input size.toNat) size.toNat f remaining.toNat (Region.toList state 12) := by
  intro f
  induction f with
  | zero =>
    intro state remaining _ hf
    have h0 : remaining = 0#64 := BitVec.eq_of_toNat_eq (by show remaining.toNat = 0; omega)
    subst h0
    exact ⟨state, Loop.whileM_stop _ _ _ _ (lhStepG_stop ..), rfl⟩
  | succ f ih =>
    intro state remaining hle hf
    by_cases h0 : remaining = 0#64
    · subst h0
      refine ⟨state, Loop.whileM_stop _ _ _ _ (lhStepG_stop ..), ?_⟩
      unfold lhLoop
      simp
    · have hpos : 0 < remaining.toNat := by
        have : remaining.toNat ≠ 0 := fun h => h0 (BitVec.eq_of_toNat_eq (by simpa using h))
        omega
      obtain ⟨state1, rem1, hs, hr1, hl1⟩ := lhStepG_next P perm hP input state size remaining h0 hle
      obtain ⟨state', hw, hl⟩ := ih state1 rem1 (by omega) (by omega)
      refine ⟨state', by rw [Loop.whileM_next _ _ _ _ hs, hw], ?_⟩
      rw [hl, hl1, hr1]
      conv => rhs; unfold lhLoop
      have hr0 : remaining.toNat ≠ 0 := by omega
      simp only [hr0, if_false]

/-- the generated `linear_hash*` returns for every fuel > size; its four output words are the hand model's digest of the
    first `size` input words; nothing beyond word 3 of the output is written -/
theorem lhGenG_spec (P : Region → Region) (perm : List Wd → List Wd)
    (hP : ∀ s, Region.toList (P s) 12 = perm (Region.toList s 12))
    (fuel : Nat) (output input : Region) (size : BitVec 64) (hf : size.toNat < fuel) :
    ∃ out', lhGenG P fuel output input size = some out' ∧
      Region.toList out' 4 = linearHash perm (Region.toList input size.toNat) ∧
      ∀ k, 4 ≤ k → out' k = output k := by
  have h4 : (4#64 : BitVec 64).toNat = 4 := rfl
  have h8 : (8#64 : BitVec 64).toNat = 8 := rfl
  unfold lhGenG linearHash
  rw [Region.length_toList]
  by_cases hs : size ≤ 4#64
  · have hs' : size.toNat ≤ 4 := by rw [BitVec.le_def, h4] at hs; exact hs
    have e1 : (size * 8#64).toNat / 8 = size.toNat := by rw [BitVec.toNat_mul, h8]; omega
    have e2 : ((4#64 - size) * 8#64).toNat / 8 = 4 - size.toNat := by
      rw [BitVec.toNat_mul, BitVec.toNat_sub, h8, h4]; omega
    simp only [hs, decide_true, if_true, hs', e1, e2]
    refine ⟨_, rfl, ?_, ?_⟩
    · apply List.ext_getElem?
      intro j
      simp only [Region.getElem?_toList, List.getElem?_append, List.getElem?_replicate, Region.length_toList, zeros,
        Region.copyN_apply, Region.unshift_apply, Region.zeroN_apply, Region.shift_apply]
      split_ifs <;> first | rfl | omega
    · intro k hk
      simp only [Region.copyN_apply, Region.unshift_apply, Region.zeroN_apply, Region.shift_apply]
      split_ifs <;> first | rfl | omega | (congr 1; omega)
  · have hs' : ¬ size.toNat ≤ 4 := by rw [BitVec.le_def, h4] at hs; exact hs
    have hpos : size > 0#64 := by rw [gt_iff_lt, BitVec.lt_def]; show 0 < size.toNat; omega
    obtain ⟨f, rfl⟩ : ∃ f, fuel = f + 1 := ⟨fuel - 1, by omega⟩
    obtain ⟨state', hw, hl⟩ := lh_loop_sync P perm hP input size f Region.zero size (Nat.le_refl _) (by omega)
    simp only [hs, decide_false, Bool.false_eq_true, if_false, hs', hw, Option.bind_some, hpos, decide_true, if_true]
    refine ⟨_, rfl, ?_, ?_⟩
    · have e : Region.toList (Region.copyN output state' 4) 4 = (Region.toList state' 12).take 4 := by
        apply List.ext_getElem?
        intro j
        simp only [Region.getElem?_toList, List.getElem?_take, Region.copyN_apply]
        split_ifs <;> first | rfl | omega
      rw [e, hl, Region.toList_zero]
      have hlen : (Region.toList input size.toNat).length = size.toNat := Region.length_toList _ _
      rw [lhLoop_spec perm _ size.toNat hlen size.toNat f size.toNat (zeros 12) (by omega) (Nat.le_refl _) (Nat.le_refl _)
            (by omega),
          lhLoop_spec perm _ size.toNat hlen size.toNat size.toNat size.toNat (zeros 12) (Nat.le_refl _) (Nat.le_refl _)
            (Nat.le_refl _) (by omega)]
    · intro k hk
      simp only [Region.copyN_apply]
      split_ifs <;> first | rfl | omega


/-! ### linear_hash_avx512: two inputs side by side, 24-word interleaved state -/

/-- loop body of `linear_hash_avx512`, generic in the two-state permutation call `P2` -/
def lh512StepG (P2 : Region → Region) (input : Region) (size : BitVec 64) (st__ : Region × BitVec 64) :
    Option (Bool × (Region × BitVec 64)) :=
  let state := st__.1
  let remaining := st__.2
  if (remaining != 0#64) then
    let state := if (remaining == size) then
        (Region.unshift state 16 (Region.zeroN (Region.shift state 16) 8))
      else
        (Region.unshift state 16 (Region.copyN (Region.shift state 16) state 8))
    let n : BitVec 64 := (if (decide (remaining < 8#64)) then remaining else 8#64)
    let state := (Region.zeroN state 16)
    let state := if (decide (n ≤ 4#64)) then
        let state := (Region.copyN state (Region.shift input ((size - remaining)).toNat) (((n * 8#64)).toNat / 8))
        let state := (Region.unshift state 4 (Region.copyN (Region.shift state 4) (Region.shift (Region.shift input (size).toNat) ((size - remaining)).toNat) (((n * 8#64)).toNat / 8)))
        state
      else
        let state := (Region.copyN state (Region.shift input ((size - remaining)).toNat) 4)
        let state := (Region.unshift state 4 (Region.copyN (Region.shift state 4) (Region.shift (Region.shift input (size).toNat) ((size - remaining)).toNat) 4))
        let state := (Region.unshift state 8 (Region.copyN (Region.shift state 8) (Region.shift (Region.shift input ((size - remaining)).toNat) 4) ((((n - 4#64) * 8#64)).toNat / 8)))
        let state := (Region.unshift state 12 (Region.copyN (Region.shift state 12) (Region.shift (Region.shift (Region.shift input (size).toNat) ((size - remaining)).toNat) 4) ((((n - 4#64) * 8#64)).toNat / 8)))
        state
    let state := P2 state
    let remaining := (remaining - n)
    some (true, (state, remaining))
  else
    some (false, (state, remaining))

/-- `linear_hash_avx512` -/
def lh512GenG (P2 : Region → Region) (fuel : Nat) (output input : Region) (size : BitVec 64) : Option Region :=
  if (decide (size ≤ 4#64)) then
    let output := (Region.copyN output input (((size * 8#64)).toNat / 8))
    let output := (Region.unshift output (size).toNat (Region.zeroN (Region.shift output (size).toNat) ((((4#64 - size) * 8#64)).toNat / 8)))
    let output := (Region.unshift output 4 (Region.copyN (Region.shift output 4) (Region.shift input (size).toNat) (((size * 8#64)).toNat / 8)))
    let output := (Region.unshift output 4 (Region.unshift (Region.shift output 4) (size).toNat (Region.zeroN (Region.shift (Region.shift output 4) (size).toNat) ((((4#64 - size) * 8#64)).toNat / 8))))
    some output
  else
    (Loop.whileM (lh512StepG P2 input size) fuel (Region.zero, size)).bind fun st_2 =>
    let state := st_2.1
    let output := if (decide (size > 0#64)) then (Region.copyN output state 8) else (Region.zeroN output 8)
    some output

theorem lh512StepG_inv (P2 : Region → Region) (input : Region) (size : BitVec 64) (t : Region × BitVec 64) (b : Bool)
    (t' : Region × BitVec 64) (ht : t.2.toNat ≤ size.toNat) (h : lh512StepG P2 input size t = some (b, t')) :
    t'.2.toNat ≤ size.toNat := by
  unfold lh512StepG at h
  dsimp only at h
  split_ifs at h <;> cases h <;> dsimp only <;> ge_cond_norm <;> bv_omega

set_option maxHeartbeats 1000000 in
theorem lh512_generic (fuel : Nat) (output input : Region) (size : BitVec 64) :
    Pos_linear_hash_avx512 fuel output input size =
      lh512GenG Pos_hash_full_result_avx512_al_state_input fuel output input size := by
  delta lh512GenG
  delta_prefix "Gen.LinearHashGen.Pos_linear_hash_avx512"
  first
  | (delta lh512StepG; gen_equiv)
  | lh_countup (lh512StepG_inv Pos_hash_full_result_avx512_al_state_input input size), lh512StepG

theorem lh512StepG_stop (P2 : Region → Region) (input state : Region) (size : BitVec 64) :
    lh512StepG P2 input size (state, 0#64) = some (false, (state, 0#64)) := rfl

/-- one iteration of the generated loop = one iteration of `Model.lh512Loop` -/
theorem lh512StepG_next (P2 : Region → Region) (perm2 : List Wd → List Wd)
    (hP : ∀ s, Region.toList (P2 s) 24 = perm2 (Region.toList s 24))
    (input state : Region) (size remaining : BitVec 64) (h0 : remaining ≠ 0#64) (hle : remaining.toNat ≤ size.toNat) :
    ∃ state' remaining', lh512StepG P2 input size (state, remaining) = some (true, (state', remaining')) ∧
      remaining'.toNat = remaining.toNat - min remaining.toNat 8 ∧
      Region.toList state' 24 =
        perm2
          ((((((Region.toList input (2 * size.toNat)).drop (size.toNat - remaining.toNat)).take (min remaining.toNat 8)).take 4 ++
              zeros (4 - min (min remaining.toNat 8) 4)) ++
            ((((Region.toList input (2 * size.toNat)).drop (size.toNat + (size.toNat - remaining.toNat))).take
                (min remaining.toNat 8)).take 4 ++ zeros (4 - min (min remaining.toNat 8) 4))) ++
          ((((((Region.toList input (2 * size.toNat)).drop (size.toNat - remaining.toNat)).take (min remaining.toNat 8)).drop 4) ++
              zeros (4 - (min remaining.toNat 8 - 4))) ++
            (((((Region.toList input (2 * size.toNat)).drop (size.toNat + (size.toNat - remaining.toNat))).take
                (min remaining.toNat 8)).drop 4) ++ zeros (4 - (min remaining.toNat 8 - 4)))) ++
          (if remaining.toNat = size.toNat then zeros 8 else (Region.toList state 24).take 8)) := by
  have hb : (remaining != 0#64) = true := by simpa using h0
  have h8 : (8#64 : BitVec 64).toNat = 8 := rfl
  have h4 : (4#64 : BitVec 64).toNat = 4 := rfl
  have hn : (if (decide (remaining < 8#64)) then remaining else 8#64).toNat = min remaining.toNat 8 := by
    by_cases h : remaining < 8#64
    · have h' : remaining.toNat < 8 := by rw [BitVec.lt_def, h8] at h; exact h
      simp only [h, decide_true, if_true]; omega
    · have h' : ¬ remaining.toNat < 8 := by rw [BitVec.lt_def, h8] at h; exact h
      simp only [h, decide_false, Bool.false_eq_true, if_false, h8]; omega
  generalize hnd : (if (decide (remaining < 8#64)) then remaining else 8#64) = nBV at hn
  have hn8 : nBV.toNat ≤ 8 := by omega
  have hnr : nBV.toNat ≤ remaining.toNat := by omega
  have e2 : (nBV * 8#64).toNat / 8 = nBV.toNat := by
    rw [BitVec.toNat_mul, h8]; omega
  have e3 : (size - remaining).toNat = size.toNat - remaining.toNat := by
    rw [BitVec.toNat_sub]; omega
  have e4 : (remaining - nBV).toNat = remaining.toNat - min remaining.toNat 8 := by
    rw [BitVec.toNat_sub]; omega
  have hc : (remaining == size) = true ↔ remaining.toNat = size.toNat := by
    rw [beq_iff_eq]; exact ⟨fun h => by rw [h], fun h => BitVec.eq_of_toNat_eq h⟩
  have hcap := cap512 state remaining.toNat size.toNat (remaining == size) hc
  by_cases hs4 : nBV ≤ 4#64
  · have hs4' : nBV.toNat ≤ 4 := by rw [BitVec.le_def, h4] at hs4; exact hs4
    refine ⟨?st, remaining - nBV, ?h1, e4, ?h2⟩
    case h1 =>
      unfold lh512StepG
      simp only [hb, if_true, hnd, hs4, decide_true]
      rfl
    case h2 =>
      rw [hP, e2, e3, ← hn, ← hcap]
      exact congrArg perm2 (block512_small _ input size.toNat remaining.toNat nBV.toNat hn hle hs4')
  · have hs4' : 4 < nBV.toNat := by rw [BitVec.le_def, h4] at hs4; omega
    have e5 : ((nBV - 4#64) * 8#64).toNat / 8 = nBV.toNat - 4 := by
      rw [BitVec.toNat_mul, BitVec.toNat_sub, h8, h4]; omega
    refine ⟨?stb, remaining - nBV, ?h1b, e4, ?h2b⟩
    case h1b =>
      unfold lh512StepG
      simp only [hb, if_true, hnd, hs4, decide_false, Bool.false_eq_true, if_false]
      rfl
    case h2b =>
      rw [hP, e5, e3, ← hn, ← hcap]
      exact congrArg perm2 (block512_big _ input size.toNat remaining.toNat nBV.toNat hn hle hs4')

/-- the generated loop runs in step with `Model.lh512Loop` -/
theorem lh512_loop_sync (P2 : Region → Region) (perm2 : List Wd → List Wd)
    (hP : ∀ s, Region.toList (P2 s) 24 = perm2 (Region.toList s 24)) (input : Region) (size : BitVec 64) :
    ∀ (f : Nat) (state : Region) (remaining : BitVec 64), remaining.toNat ≤ size.toNat → remaining.toNat ≤ f →
      ∃ state', Loop.whileM (lh512StepG P2 input size) (f + 1) (state, remaining) = some (state', 0#64) ∧
        Region.toList state' 24 =
          lh512Loop perm2 (Region.toList input (2 * size.toNat)) size.toNat f remaining.toNat (Region.toList state 24) := by
  intro f
  induction f with
  | zero =>
    intro state remaining _ hf
    have h0 : remaining = 0#64 := BitVec.eq_of_toNat_eq (by show remaining.toNat = 0; omega)
    subst h0
    exact ⟨state, Loop.whileM_stop _ _ _ _ (lh512StepG_stop ..), rfl⟩
  | succ f ih =>
    intro state remaining hle hf
    by_cases h0 : remaining = 0#64
    · subst h0
      refine ⟨state, Loop.whileM_stop _ _ _ _ (lh512StepG_stop ..), ?_⟩
      unfold lh512Loop
      simp
    · have hpos : 0 < remaining.toNat := by
        have : remaining.toNat ≠ 0 := fun h => h0 (BitVec.eq_of_toNat_eq (by simpa using h))
        omega
      obtain ⟨state1, rem1, hs, hr1, hl1⟩ := lh512StepG_next P2 perm2 hP input state size remaining h0 hle
      obtain ⟨state', hw, hl⟩ := ih state1 rem1 (by omega) (by omega)
      refine ⟨state', by rw [Loop.whileM_next _ _ _ _ hs, hw], ?_⟩
      rw [hl, hl1, hr1]
      conv => rhs; unfold lh512Loop
      have hr0 : remaining.toNat ≠ 0 := by omega
      simp only [hr0, if_false]

theorem unshift_zeroN_apply (s : Region) (k m j : Nat) :
    (Region.unshift s k (Region.zeroN (Region.shift s k) m)) j = if k ≤ j ∧ j < k + m then 0#64 else s j := by
  simp only [Region.unshift_apply, Region.zeroN_apply, Region.shift_apply]
  split_ifs <;> first | rfl | omega | (congr 1; omega)

theorem unshift_unshift_zeroN_apply (s : Region) (k l m j : Nat) :
    (Region.unshift s k (Region.unshift (Region.shift s k) l (Region.zeroN (Region.shift (Region.shift s k) l) m))) j =
      if k + l ≤ j ∧ j < k + l + m then 0#64 else s j := by
  simp only [Region.unshift_apply, Region.zeroN_apply, Region.shift_apply]
  split_ifs <;> first | rfl | omega | (congr 1; omega)

/-- the generated `linear_hash_avx512` returns for every fuel > size; its eight output words are the hand model's two
    digests; nothing beyond word 7 of the output is written -/
theorem lh512GenG_spec (P2 : Region → Region) (perm2 : List Wd → List Wd)
    (hP : ∀ s, Region.toList (P2 s) 24 = perm2 (Region.toList s 24))
    (fuel : Nat) (output input : Region) (size : BitVec 64) (hf : size.toNat < fuel) :
    ∃ out', lh512GenG P2 fuel output input size = some out' ∧
      Region.toList out' 8 = linearHash512 perm2 (Region.toList input (2 * size.toNat)) size.toNat ∧
      ∀ k, 8 ≤ k → out' k = output k := by
  have h4 : (4#64 : BitVec 64).toNat = 4 := rfl
  have h8 : (8#64 : BitVec 64).toNat = 8 := rfl
  unfold lh512GenG linearHash512
  by_cases hs : size ≤ 4#64
  · have hs' : size.toNat ≤ 4 := by rw [BitVec.le_def, h4] at hs; exact hs
    have e1 : (size * 8#64).toNat / 8 = size.toNat := by rw [BitVec.toNat_mul, h8]; omega
    have e2 : ((4#64 - size) * 8#64).toNat / 8 = 4 - size.toNat := by
      rw [BitVec.toNat_mul, BitVec.toNat_sub, h8, h4]; omega
    simp only [hs, decide_true, if_true, hs', e1, e2]
    refine ⟨_, rfl, ?_, ?_⟩
    · apply List.ext_getElem?
      intro j
      simp only [Region.getElem?_toList, List.getElem?_append, List.getElem?_replicate, List.getElem?_take,
        List.getElem?_drop, List.length_append, List.length_take, List.length_drop, List.length_replicate,
        Region.length_toList, zeros, unshift_unshift_zeroN_apply, unshift_copyN_apply, unshift_zeroN_apply,
        Region.copyN_apply, Region.shift_apply]
      split_ifs <;> first | rfl | omega | (congr 2; omega)
    · intro k hk
      simp only [unshift_unshift_zeroN_apply, unshift_copyN_apply, unshift_zeroN_apply, Region.copyN_apply,
        Region.shift_apply]
      split_ifs <;> first | rfl | omega
  · have hs' : ¬ size.toNat ≤ 4 := by rw [BitVec.le_def, h4] at hs; exact hs
    have hpos : size > 0#64 := by rw [gt_iff_lt, BitVec.lt_def]; show 0 < size.toNat; omega
    have hw0 : ∃ state', Loop.whileM (lh512StepG P2 input size) fuel (Region.zero, size) = some (state', 0#64) ∧
        Region.toList state' 24 =
          lh512Loop perm2 (Region.toList input (2 * size.toNat)) size.toNat size.toNat size.toNat (zeros 24) := by
      obtain ⟨state', hw, hl⟩ := lh512_loop_sync P2 perm2 hP input size size.toNat Region.zero size (Nat.le_refl _)
        (Nat.le_refl _)
      exact ⟨state', Loop.whileM_mono _ _ _ _ fuel hw (by omega), by rw [hl, Region.toList_zero]⟩
    obtain ⟨state', hw, hl⟩ := hw0
    simp only [hs, decide_false, Bool.false_eq_true, if_false, hs', hw, Option.bind_some, hpos, decide_true, if_true]
    refine ⟨_, rfl, ?_, ?_⟩
    · have e : Region.toList (Region.copyN output state' 8) 8 = (Region.toList state' 24).take 8 := by
        apply List.ext_getElem?
        intro j
        simp only [Region.getElem?_toList, List.getElem?_take, Region.copyN_apply]
        split_ifs <;> first | rfl | omega
      rw [e, hl]
    · intro k hk
      simp only [Region.copyN_apply]
      split_ifs <;> first | rfl | omega

/-- the 2·size input words of `linear_hash_avx512` are the two inputs back to back -/
theorem toList_two_inputs (input : Region) (n : Nat) :
    Region.toList input (2 * n) = Region.toList input n ++ Region.toList (Region.shift input n) n := by
  apply List.ext_getElem?
  intro j
  simp only [Region.getElem?_toList, List.getElem?_append, Region.length_toList, Region.shift_apply]
  split_ifs <;> first | rfl | omega | (congr 2; omega)

end GoldilocksVerif
