/-
  Race freedom of the Merkle builders, on the model (Model/Sponge.lean).  Helper of Props/C12.lean.

  The model is purely functional: the leaf digests are `rows.flatMap leaf`, a level is `nextLevel node k lvl` (list
  recursion), the tree is the concatenation of the levels.  It has no indexed writes, so "any order" cannot be stated about
  the model's own loops.  What is done here:
  * `nextLevel_getD`, `leaves_getD`: word `j` of a level is word `j % 4` of the hash of the children words
    `[8·(j/4), 8·(j/4)+8)` of the previous level (resp. of the leaf hash of row `j/4`) — node `i` depends on its two
    children only, the level on the previous level only.
  * an IMPERATIVE rendering of the C loops on one tree buffer (`writeAt` = `memcpy` into the buffer; `leafStep`,
    `nodeStep`, `levelLoop`, `upperLoops`, `merkleTreeIn`), whose iterations are shown to have the footprints of
    `C12_merkle_leaves` / `C12_merkle_level`, to be executable in any order, and to produce exactly the model's lists.
  The imperative rendering is written here, by hand, from the loops of poseidon_goldilocks.cpp; it is not executed
  against the C++ (the functional model is).
-/
import GoldilocksVerif.Lemmas.NttPar
import GoldilocksVerif.Lemmas.MerkleL

namespace GoldilocksVerif.Model
open GoldilocksVerif.Par

/-! ### lists through `getD` -/

theorem lgetD_append (a b : List Wd) (j : Nat) :
    (a ++ b).getD j 0#64 = if j < a.length then a.getD j 0#64 else b.getD (j - a.length) 0#64 := by
  simp only [List.getD_eq_getElem?_getD, List.getElem?_append]
  by_cases h : j < a.length <;> simp [h]

theorem lgetD_take (a : List Wd) (n j : Nat) : (a.take n).getD j 0#64 = if j < n then a.getD j 0#64 else 0#64 := by
  simp only [List.getD_eq_getElem?_getD, List.getElem?_take]
  by_cases h : j < n <;> simp [h]

theorem lgetD_drop (a : List Wd) (n j : Nat) : (a.drop n).getD j 0#64 = a.getD (n + j) 0#64 := by
  simp only [List.getD_eq_getElem?_getD, List.getElem?_drop]

theorem lgetD_ge (a : List Wd) (j : Nat) (h : a.length ≤ j) : a.getD j 0#64 = 0#64 := by
  simp [List.getD_eq_getElem?_getD, h]

theorem list_ext_getD (a b : List Wd) (hl : a.length = b.length) (h : ∀ j, j < a.length → a.getD j 0#64 = b.getD j 0#64) :
    a = b := by
  apply List.ext_getElem hl
  intro i h1 h2
  have := h i h1
  simpa [List.getD_eq_getElem?_getD, h1, h2] using this

/-! ### the functional model, word by word -/

/-- word `j` of a level: node `j / 4` is the hash of the children words `[8·(j/4), 8·(j/4) + 8)` of the previous level -/
theorem nextLevel_getD (node : List Wd → List Wd) (hn : ∀ x, (node x).length = 4) :
    ∀ (k : Nat) (lvl : List Wd) (j : Nat),
      (nextLevel node k lvl).getD j 0#64
        = if j < 4 * k then (node ((lvl.drop (8 * (j / 4))).take 8)).getD (j % 4) 0#64 else 0#64 := by
  intro k
  induction k with
  | zero => intro lvl j; simp [nextLevel]
  | succ k ih =>
    intro lvl j
    unfold nextLevel
    rw [lgetD_append, hn, ih]
    by_cases h4 : j < 4
    · have e1 : j / 4 = 0 := by omega
      have e2 : j % 4 = j := by omega
      rw [if_pos h4, if_pos (by omega), e1, e2]; rfl
    · rw [if_neg h4]
      by_cases hk : j - 4 < 4 * k
      · have e1 : 8 * (j / 4) = 8 + 8 * ((j - 4) / 4) := by omega
        have e2 : (j - 4) % 4 = j % 4 := by omega
        rw [if_pos hk, if_pos (by omega), List.drop_drop, e1, e2]
      · rw [if_neg hk, if_neg (by omega)]

/-- word `j` of the leaf digests: leaf `j / 4` is the leaf hash of row `j / 4` -/
theorem leaves_getD (leaf : List Wd → List Wd) (hl : ∀ x, (leaf x).length = 4) :
    ∀ (rows : List (List Wd)) (j : Nat),
      (rows.flatMap leaf).getD j 0#64
        = if j < 4 * rows.length then (leaf (rows.getD (j / 4) [])).getD (j % 4) 0#64 else 0#64 := by
  intro rows
  induction rows with
  | nil => intro j; simp
  | cons r rs ih =>
    intro j
    rw [List.flatMap_cons, lgetD_append, hl, ih, List.length_cons]
    by_cases h4 : j < 4
    · have e1 : j / 4 = 0 := by omega
      have e2 : j % 4 = j := by omega
      rw [if_pos h4, if_pos (by omega), e1, e2]; rfl
    · rw [if_neg h4]
      by_cases hk : j - 4 < 4 * rs.length
      · have e1 : j / 4 = (j - 4) / 4 + 1 := by omega
        have e2 : (j - 4) % 4 = j % 4 := by omega
        rw [if_pos hk, if_pos (by omega), e1, e2]; rfl
      · rw [if_neg hk, if_neg (by omega)]

theorem leaves_length (leaf : List Wd → List Wd) (hl : ∀ x, (leaf x).length = 4) (rows : List (List Wd)) :
    (rows.flatMap leaf).length = 4 * rows.length := by
  induction rows with
  | nil => rfl
  | cons r rs ih => rw [List.flatMap_cons, List.length_append, hl, ih, List.length_cons]; omega

/-- a level reads only the first `8·k` words of the previous level -/
theorem nextLevel_prefix (node : List Wd → List Wd) : ∀ (k : Nat) (a b : List Wd), 8 * k ≤ a.length →
    nextLevel node k (a ++ b) = nextLevel node k a := by
  intro k
  induction k with
  | zero => intro a b _; rfl
  | succ k ih =>
    intro a b h
    unfold nextLevel
    rw [List.take_append_of_le_length (by omega), List.drop_append_of_le_length (by omega),
      ih _ _ (by rw [List.length_drop]; omega)]

/-! ### the tree buffer with indexed writes -/

/-- `memcpy(&t[off], v, |v|)` into the buffer `t` (writes beyond the end are dropped; the length never changes) -/
def writeAt (t : List Wd) (off : Nat) (v : List Wd) : List Wd :=
  (List.range t.length).map (fun j => if off ≤ j ∧ j < off + v.length then v.getD (j - off) 0#64 else t.getD j 0#64)

theorem writeAt_length (t : List Wd) (off : Nat) (v : List Wd) : (writeAt t off v).length = t.length := by
  simp [writeAt]

theorem writeAt_getD (t : List Wd) (off : Nat) (v : List Wd) (j : Nat) :
    (writeAt t off v).getD j 0#64
      = if off ≤ j ∧ j < off + v.length ∧ j < t.length then v.getD (j - off) 0#64 else t.getD j 0#64 := by
  unfold writeAt
  by_cases h : j < t.length
  · by_cases c : off ≤ j ∧ j < off + v.length
    · rw [if_pos ⟨c.1, c.2, h⟩]; simp [List.getD_eq_getElem?_getD, h, c]
    · rw [if_neg (fun x => c ⟨x.1, x.2.1⟩)]; simp [List.getD_eq_getElem?_getD, h, c]
  · rw [if_neg (fun x => h x.2.2), lgetD_ge t j (by omega)]
    simp [List.getD_eq_getElem?_getD, h]

/-- the state of the tree loops: one buffer, buffer 0 -/
def viewT : View (List Wd) where
  shape t := [t.length]
  rd t l := if l.1 = 0 then t.getD l.2 0#64 else 0#64
  ext := by
    intro a a' hs h
    have hs' : a.length = a'.length := by simpa using hs
    apply list_ext_getD a a' hs'
    intro j _
    have := h (0, j)
    simpa using this

/-- an iteration that hashes the words `[rd0, rd0 + rn)` of the buffer (and anything outside the state, `g`) and writes
    the 4-word digest at `wr0` -/
def hashIter (g : List Wd → List Wd) (hg : ∀ x, (g x).length = 4) (rd0 rn wr0 : Nat) : PIter viewT where
  run := fun t => writeAt t wr0 (g ((t.drop rd0).take rn))
  R := fun l => l.1 = 0 ∧ rd0 ≤ l.2 ∧ l.2 < rd0 + rn
  W := fun l => l.1 = 0 ∧ wr0 ≤ l.2 ∧ l.2 < wr0 + 4
  shape_eq := fun t => by show [(writeAt _ _ _).length] = [t.length]; rw [writeAt_length]
  frame := by
    intro t l hl
    show (if l.1 = 0 then (writeAt _ _ _).getD l.2 0#64 else 0#64) = (if l.1 = 0 then t.getD l.2 0#64 else 0#64)
    by_cases h0 : l.1 = 0
    · rw [if_pos h0, if_pos h0, writeAt_getD, hg, if_neg (fun c => hl ⟨h0, c.1, c.2.1⟩)]
    · rw [if_neg h0, if_neg h0]
  dep := by
    intro t t' hs hag l hl
    have hs' : t.length = t'.length := by simpa [viewT] using hs
    have hseg : (t.drop rd0).take rn = (t'.drop rd0).take rn := by
      apply list_ext_getD
      · simp only [List.length_take, List.length_drop, hs']
      · intro j hj
        rw [lgetD_take, lgetD_take, lgetD_drop, lgetD_drop]
        by_cases hjn : j < rn
        · rw [if_pos hjn, if_pos hjn]
          have := hag (0, rd0 + j) ⟨rfl, by simp, by simp; omega⟩
          simpa [viewT] using this
        · rw [if_neg hjn, if_neg hjn]
    show (if l.1 = 0 then (writeAt _ _ _).getD l.2 0#64 else 0#64) = (if l.1 = 0 then (writeAt _ _ _).getD l.2 0#64 else 0#64)
    rw [if_pos hl.1, if_pos hl.1, writeAt_getD, writeAt_getD, hg, hg, hseg, hs']
    by_cases hb : l.2 < t'.length
    · rw [if_pos ⟨hl.2.1, hl.2.2, hb⟩, if_pos ⟨hl.2.1, hl.2.2, hb⟩]
    · rw [if_neg (fun c => hb c.2.2), if_neg (fun c => hb c.2.2), lgetD_ge t _ (by omega), lgetD_ge t' _ (by omega)]

/-- iteration `i` of a leaf loop: `linear_hash(&tree[i*4], &input[i*ncols], ncols)` — the input is not part of the state -/
def leafStep (leaf : List Wd → List Wd) (rows : List (List Wd)) (i : Nat) (t : List Wd) : List Wd :=
  writeAt t (4 * i) (leaf (rows.getD i []))

/-- iteration `i` of a level loop: `hash(&tree[nxt + i*4], &tree[off + i*8])`, `nxt = off + 4·p` for a level of `p` nodes -/
def nodeStep (node : List Wd → List Wd) (off p : Nat) (i : Nat) (t : List Wd) : List Wd :=
  writeAt t (off + 4 * p + 4 * i) (node ((t.drop (off + 8 * i)).take 8))

theorem leafStep_run (leaf : List Wd → List Wd) (hl : ∀ x, (leaf x).length = 4) (rows : List (List Wd)) (i : Nat) (t : List Wd) :
    (hashIter (fun _ => leaf (rows.getD i [])) (fun _ => hl _) 0 0 (4 * i)).run t = leafStep leaf rows i t := rfl

theorem nodeStep_run (node : List Wd → List Wd) (hn : ∀ x, (node x).length = 4) (off p i : Nat) (t : List Wd) :
    (hashIter node hn (off + 8 * i) 8 (off + 4 * p + 4 * i)).run t = nodeStep node off p i t := rfl

/-! ### sequential execution gives the model's lists -/

theorem range_foldl_succ {σ : Type} (f : σ → Nat → σ) (s : σ) (n : Nat) :
    (List.range (n + 1)).foldl f s = f ((List.range n).foldl f s) n := by
  rw [List.range_succ, List.foldl_append]; rfl

/-- the leaf loop, sequentially: the first `4·n` words become the leaf digests -/
theorem leafLoop_seq (leaf : List Wd → List Wd) (hl : ∀ x, (leaf x).length = 4) (rows : List (List Wd)) (t : List Wd) :
    ∀ m, m ≤ rows.length → 4 * rows.length ≤ t.length →
      ((List.range m).foldl (fun t i => leafStep leaf rows i t) t).length = t.length ∧
      ∀ j, ((List.range m).foldl (fun t i => leafStep leaf rows i t) t).getD j 0#64
        = if j < 4 * m then (rows.flatMap leaf).getD j 0#64 else t.getD j 0#64 := by
  intro m
  induction m with
  | zero => intro _ _; exact ⟨rfl, fun j => by rw [if_neg (by omega)]; rfl⟩
  | succ m ih =>
    intro hm ht
    obtain ⟨i1, i2⟩ := ih (by omega) ht
    rw [range_foldl_succ]
    generalize (List.range m).foldl (fun t i => leafStep leaf rows i t) t = T at i1 i2
    unfold leafStep
    refine ⟨by rw [writeAt_length, i1], ?_⟩
    intro j
    rw [writeAt_getD, hl, i1, i2 j]
    by_cases c : 4 * m ≤ j ∧ j < 4 * m + 4 ∧ j < t.length
    · have e1 : j / 4 = m := by omega
      have e2 : j % 4 = j - 4 * m := by omega
      rw [if_pos c, if_pos (by omega), leaves_getD leaf hl, if_pos (by omega), e1, e2]
    · rw [if_neg c]
      by_cases h1 : j < 4 * m
      · rw [if_pos h1, if_pos (by omega)]
      · rw [if_neg h1, if_neg (by omega)]

/-- a level loop, sequentially: the `4·n` words after the level become `nextLevel` of the level -/
theorem levelLoop_seq (node : List Wd → List Wd) (hn : ∀ x, (node x).length = 4) (t : List Wd) (off p n : Nat)
    (hnp : 2 * n ≤ p) :
    ∀ m, m ≤ n →
      ((List.range m).foldl (fun t i => nodeStep node off p i t) t).length = t.length ∧
      ∀ j, ((List.range m).foldl (fun t i => nodeStep node off p i t) t).getD j 0#64
        = if off + 4 * p ≤ j ∧ j < off + 4 * p + 4 * m ∧ j < t.length
          then (nextLevel node n (t.drop off)).getD (j - (off + 4 * p)) 0#64 else t.getD j 0#64 := by
  intro m
  induction m with
  | zero => intro _; exact ⟨rfl, fun j => by rw [if_neg (by omega)]; rfl⟩
  | succ m ih =>
    intro hm
    obtain ⟨i1, i2⟩ := ih (by omega)
    rw [range_foldl_succ]
    generalize (List.range m).foldl (fun t i => nodeStep node off p i t) t = T at i1 i2
    -- the children read by iteration `m` have not been written
    have hseg : (T.drop (off + 8 * m)).take 8 = (t.drop (off + 8 * m)).take 8 := by
      apply list_ext_getD
      · simp only [List.length_take, List.length_drop, i1]
      · intro j _
        rw [lgetD_take, lgetD_take, lgetD_drop, lgetD_drop, i2]
        by_cases hj : j < 8
        · rw [if_pos hj, if_pos hj, if_neg (by omega)]
        · rw [if_neg hj, if_neg hj]
    unfold nodeStep
    rw [hseg]
    refine ⟨by rw [writeAt_length, i1], ?_⟩
    intro j
    rw [writeAt_getD, hn, i1, i2 j]
    by_cases c : off + 4 * p + 4 * m ≤ j ∧ j < off + 4 * p + 4 * m + 4 ∧ j < t.length
    · have e1 : (j - (off + 4 * p)) / 4 = m := by omega
      have e2 : (j - (off + 4 * p)) % 4 = j - (off + 4 * p + 4 * m) := by omega
      rw [if_pos c, if_pos (by omega), nextLevel_getD node hn, if_pos (by omega), e1, e2, List.drop_drop]
    · rw [if_neg c]
      by_cases h1 : off + 4 * p ≤ j ∧ j < off + 4 * p + 4 * m ∧ j < t.length
      · rw [if_pos h1, if_pos (by omega)]
      · rw [if_neg h1, if_neg (by omega)]

/-- closed form of the sequential level loop -/
theorem levelLoop_seq_eq (node : List Wd → List Wd) (hn : ∀ x, (node x).length = 4) (t : List Wd) (off p n : Nat)
    (hnp : 2 * n ≤ p) (hfit : off + 4 * p + 4 * n ≤ t.length) :
    (List.range n).foldl (fun t i => nodeStep node off p i t) t
      = t.take (off + 4 * p) ++ nextLevel node n (t.drop off) ++ t.drop (off + 4 * p + 4 * n) := by
  obtain ⟨h1, h2⟩ := levelLoop_seq node hn t off p n hnp n (Nat.le_refl _)
  have hnl := nextLevel_length node hn n (t.drop off)
  apply list_ext_getD
  · rw [h1]; simp only [List.length_append, List.length_take, List.length_drop, hnl]; omega
  · intro j hj
    rw [h1] at hj
    rw [h2 j, lgetD_append, lgetD_append, lgetD_take, lgetD_drop]
    simp only [List.length_append, List.length_take, hnl]
    have hmin : min (off + 4 * p) t.length = off + 4 * p := by omega
    rw [hmin]
    by_cases c1 : j < off + 4 * p
    · rw [if_neg (by omega), if_pos (by omega), if_pos c1, if_pos c1]
    · by_cases c2 : j < off + 4 * p + 4 * n
      · rw [if_pos (by omega), if_pos c2, if_neg c1]
      · rw [if_neg (by omega), if_neg c2]
        congr 1; omega

/-- closed form of the sequential leaf loop -/
theorem leafLoop_seq_eq (leaf : List Wd → List Wd) (hl : ∀ x, (leaf x).length = 4) (rows : List (List Wd)) (t : List Wd)
    (ht : 4 * rows.length ≤ t.length) :
    (List.range rows.length).foldl (fun t i => leafStep leaf rows i t) t = rows.flatMap leaf ++ t.drop (4 * rows.length) := by
  obtain ⟨h1, h2⟩ := leafLoop_seq leaf hl rows t rows.length (Nat.le_refl _) ht
  have hll := leaves_length leaf hl rows
  apply list_ext_getD
  · rw [h1, List.length_append, List.length_drop, hll]; omega
  · intro j _
    rw [h2 j, lgetD_append, lgetD_drop, hll]
    by_cases c : j < 4 * rows.length
    · rw [if_pos c, if_pos c]
    · rw [if_neg c, if_neg c]; congr 1; omega

/-! ### the whole builder on one tree buffer -/

/-- a level loop executed in the order `ord` -/
def levelLoop (node : List Wd → List Wd) (ord : List Nat) (off p : Nat) (t : List Wd) : List Wd :=
  ord.foldl (fun t i => nodeStep node off p i t) t

/-- the `while (pending > 1)` loop on the tree buffer: the current level (`pending` nodes) starts at word `off`, the next
    one is written right behind it; a level loop of `n` iterations is executed in the order `ords n` -/
def upperLoops (node : List Wd → List Wd) (ords : Nat → List Nat) : Nat → Nat → Nat → List Wd → List Wd
  | 0, _, _, t => t
  | fuel + 1, pending, off, t =>
    if pending ≤ 1 then t
    else upperLoops node ords fuel (pending / 2) (off + 4 * pending) (levelLoop node (ords (pending / 2)) off pending t)

/-- the builder: leaf loop in the order `ordLeaf`, then the level loops, on the tree buffer `t0` -/
def merkleTreeIn (leaf node : List Wd → List Wd) (rows : List (List Wd)) (ordLeaf : List Nat) (ords : Nat → List Nat)
    (t0 : List Wd) : List Wd :=
  upperLoops node ords rows.length rows.length 0 (ordLeaf.foldl (fun t i => leafStep leaf rows i t) t0)

/-- if every level loop gives the result of its sequential execution, the level loops build the model's upper levels -/
theorem upperLoops_eq (node : List Wd → List Wd) (hn : ∀ x, (node x).length = 4) (ords : Nat → List Nat)
    (hlev : ∀ off p n t, 2 * n ≤ p → levelLoop node (ords n) off p t = levelLoop node (List.range n) off p t) :
    ∀ (fuel pending off : Nat) (pre lvl rest : List Wd), pre.length = off → lvl.length = 4 * pending →
      rest.length = (upperLevels node fuel pending lvl).length →
      upperLoops node ords fuel pending off (pre ++ lvl ++ rest) = pre ++ lvl ++ upperLevels node fuel pending lvl := by
  intro fuel
  induction fuel with
  | zero =>
    intro pending off pre lvl rest _ _ hr
    have : rest = [] := List.eq_nil_of_length_eq_zero (by simpa [upperLevels] using hr)
    subst this
    rfl
  | succ fuel ih =>
    intro pending off pre lvl rest hpre hlvl hr
    unfold upperLoops upperLevels
    by_cases hp : pending ≤ 1
    · rw [if_pos hp, if_pos hp]
      have : rest = [] := List.eq_nil_of_length_eq_zero (by unfold upperLevels at hr; simpa [hp] using hr)
      subst this
      rfl
    · rw [if_neg hp, if_neg hp]
      simp only
      unfold upperLevels at hr
      rw [if_neg hp] at hr
      simp only [List.length_append] at hr
      have hnl := nextLevel_length node hn (pending / 2) lvl
      have hnp : 2 * (pending / 2) ≤ pending := by omega
      have hlen : (pre ++ lvl ++ rest).length = off + 4 * pending + rest.length := by
        simp only [List.length_append, hpre, hlvl]
      rw [hlev off pending (pending / 2) _ hnp]
      unfold levelLoop
      rw [levelLoop_seq_eq node hn _ off pending (pending / 2) hnp (by rw [hlen]; omega)]
      have e1 : (pre ++ lvl ++ rest).take (off + 4 * pending) = pre ++ lvl := by
        rw [List.take_append_of_le_length (by simp only [List.length_append, hpre, hlvl]; omega)]
        exact List.take_of_length_le (by simp only [List.length_append, hpre, hlvl]; omega)
      have e2 : (pre ++ lvl ++ rest).drop off = lvl ++ rest := by
        rw [List.append_assoc, List.drop_append_of_le_length (by omega), List.drop_of_length_le (by omega)]
        rfl
      have e3 : (pre ++ lvl ++ rest).drop (off + 4 * pending + 4 * (pending / 2)) = rest.drop (4 * (pending / 2)) := by
        have : off + 4 * pending + 4 * (pending / 2) = (pre ++ lvl).length + 4 * (pending / 2) := by
          simp only [List.length_append, hpre, hlvl]
        rw [this, List.drop_append, List.drop_of_length_le (by omega), Nat.add_sub_cancel_left]
        rfl
      rw [e1, e2, e3, nextLevel_prefix node _ _ _ (by omega)]
      rw [ih (pending / 2) (off + 4 * pending) (pre ++ lvl) (nextLevel node (pending / 2) lvl) (rest.drop (4 * (pending / 2)))
        (by simp only [List.length_append, hpre, hlvl]) hnl (by rw [List.length_drop]; omega)]
      simp only [List.append_assoc]

/-- if the leaf loop and every level loop give the result of their sequential execution, the builder fills the tree
    buffer with the model's `merkleTree` -/
theorem merkleTreeIn_eq (leaf node : List Wd → List Wd) (hl : ∀ x, (leaf x).length = 4) (hn : ∀ x, (node x).length = 4)
    (rows : List (List Wd)) (ordLeaf : List Nat) (ords : Nat → List Nat) (t0 : List Wd)
    (hleaf : ordLeaf.foldl (fun t i => leafStep leaf rows i t) t0
      = (List.range rows.length).foldl (fun t i => leafStep leaf rows i t) t0)
    (hlev : ∀ off p n t, 2 * n ≤ p → levelLoop node (ords n) off p t = levelLoop node (List.range n) off p t)
    (ht0 : t0.length = (merkleTree leaf node rows).length) :
    merkleTreeIn leaf node rows ordLeaf ords t0 = merkleTree leaf node rows := by
  have hll := leaves_length leaf hl rows
  unfold merkleTree at ht0 ⊢
  simp only [List.length_append, hll] at ht0
  unfold merkleTreeIn
  rw [hleaf, leafLoop_seq_eq leaf hl rows t0 (by omega)]
  have := upperLoops_eq node hn ords hlev rows.length rows.length 0 [] (rows.flatMap leaf) (t0.drop (4 * rows.length))
    rfl hll (by rw [List.length_drop]; omega)
  simpa using this

end GoldilocksVerif.Model
