/-
  Proof rules for the in-bounds predicates (`f.Safe`, Lemmas/HeapSafeVC.lean / HeapSafeDefs.lean):
  the loops of the generated NTT code keep the SHAPE of the heap (Lemmas/HeapSafeBal.lean), so what has to be shown for
  the state a loop reaches is an arithmetic fact about the extents the heap had before the loop.
-/
import GoldilocksVerif.Lemmas.HeapSafeVC
import GoldilocksVerif.Lemmas.HeapSafeBal

namespace GoldilocksVerif

namespace Heap

theorem InB.same {a b : Heap} (h : Same a b) {p : Ptr} {i : Nat} (x : InB a p i) : InB b p i := by
  unfold InB at *; rw [h.2]; exact x
theorem RangeOK.same {a b : Heap} (h : Same a b) {p : Ptr} {n : Nat} (x : RangeOK a p n) : RangeOK b p n := by
  unfold RangeOK at *; rw [h.2]; exact x
theorem CopyOK.same {a b : Heap} (h : Same a b) {d s : Ptr} {n : Nat} (x : CopyOK a d s n) : CopyOK b d s n :=
  ⟨x.1.same h, x.2.1.same h, x.2.2⟩
theorem FreeOK.same {a b : Heap} (h : Same a b) {p : Ptr} (x : FreeOK a p) : FreeOK b p := by
  unfold FreeOK at *; rw [h.2]; exact x

theorem Same.symm {a b : Heap} (h : Same a b) : Same b a := ⟨h.1.symm, fun x => (h.2 x).symm⟩

end Heap

namespace Loop

/-- a counted loop whose body keeps the shape of the heap: the state of every iteration has the shape of the initial one -/
theorem RangeAll.of_same {lo hi : Nat} {init : Heap} {f : Nat → Heap → Option Heap} {S : Nat → Heap → Prop}
    (hf : ∀ i s, Heap.Same init s → OInv (Heap.Same s) (f i s))
    (hS : ∀ i st, lo ≤ i → i < hi → Heap.Same init st → S i st) : RangeAll lo hi init f S := by
  intro i st h1 h2 hr
  refine hS i st h1 h2 ?_
  exact OInv.rangeM (P := Heap.Same init) lo i 1 init f (Heap.Same.refl _)
    (fun j s hs => OInv.of_same hs (hf j s hs)) st hr

/-- the same for a loop whose state is (heap, scalar) -/
theorem RangeAll.of_same_fst {τ : Type} {lo hi : Nat} {h0 : Heap} {init : Heap × τ} {f : Nat → Heap × τ → Option (Heap × τ)}
    {S : Nat → Heap × τ → Prop} (h0i : Heap.Same h0 init.1)
    (hf : ∀ i s, Heap.Same h0 s.1 → OInv (fun r => Heap.Same h0 r.1) (f i s))
    (hS : ∀ i st, lo ≤ i → i < hi → Heap.Same h0 st.1 → S i st) : RangeAll lo hi init f S := by
  intro i st h1 h2 hr
  refine hS i st h1 h2 ?_
  exact OInv.rangeM (P := fun r => Heap.Same h0 r.1) lo i 1 init f h0i (fun j s hs => hf j s hs) st hr

theorem rangeMAux_succ_right {σ : Type} (f : Nat → σ → Option σ) :
    ∀ (n i : Nat) (s : σ), rangeMAux 1 f (n + 1) i s = (rangeMAux 1 f n i s).bind (f (i + n)) := by
  intro n
  induction n with
  | zero =>
    intro i s
    rw [rangeMAux_succ, rangeMAux_zero]
    simp only [Option.bind_some, Nat.add_zero]
    cases f i s <;> rfl
  | succ n ih =>
    intro i s
    rw [rangeMAux_succ, rangeMAux_succ]
    cases f i s with
    | none => rfl
    | some s1 =>
      simp only [Option.bind_some]
      rw [ih (i + 1) s1]
      have : i + 1 + n = i + (n + 1) := by omega
      rw [this]

theorem rangeM_succ_right {σ : Type} (f : Nat → σ → Option σ) (lo i : Nat) (s : σ) (h : lo ≤ i) :
    rangeM lo (i + 1) 1 s f = (rangeM lo i 1 s f).bind (f i) := by
  unfold rangeM
  have e1 : (i + 1 - lo + 1 - 1) / 1 = (i - lo) + 1 := by simp; omega
  have e2 : (i - lo + 1 - 1) / 1 = i - lo := by simp
  rw [e1, e2, rangeMAux_succ_right]
  have : lo + (i - lo) = i := by omega
  rw [this]

/-- a counted loop with an invariant that depends on the iteration number (scalar state: running offsets) -/
theorem RangeAll.of_inv {σ : Type} {lo hi : Nat} {init : σ} {f : Nat → σ → Option σ} {S : Nat → σ → Prop}
    (Inv : Nat → σ → Prop) (h0 : Inv lo init)
    (hstep : ∀ i s s', lo ≤ i → i < hi → Inv i s → f i s = some s' → Inv (i + 1) s')
    (hS : ∀ i s, lo ≤ i → i < hi → Inv i s → S i s) : RangeAll lo hi init f S := by
  have key : ∀ n st, lo + n ≤ hi → rangeM lo (lo + n) 1 init f = some st → Inv (lo + n) st := by
    intro n
    induction n with
    | zero =>
      intro st _ h
      have : rangeM lo (lo + 0) 1 init f = some init := by
        unfold rangeM; simp [rangeMAux_zero]
      rw [this] at h; cases h; exact h0
    | succ n ih =>
      intro st hle h
      rw [show lo + (n + 1) = (lo + n) + 1 from rfl, rangeM_succ_right f lo (lo + n) init (by omega)] at h
      cases hr : rangeM lo (lo + n) 1 init f with
      | none => rw [hr] at h; cases h
      | some s1 =>
        rw [hr] at h
        exact hstep (lo + n) s1 st (by omega) (by omega) (ih s1 (by omega) hr) h
  intro i st h1 h2 hr
  have : i = lo + (i - lo) := by omega
  rw [this] at hr ⊢
  exact hS _ st (by omega) (by omega) (key (i - lo) st (by omega) hr)

/-- an invariant of the iterations of a `while` loop holds in every state it reaches -/
theorem WhileAll.of_inv {σ : Type} {step : σ → Option (Bool × σ)} {init : σ} {S : σ → Prop} (Inv : σ → Prop)
    (h0 : Inv init) (hstep : ∀ s s', Inv s → step s = some (true, s') → Inv s') (hS : ∀ s, Inv s → S s) :
    WhileAll step init S := by
  intro st hr
  apply hS
  induction hr with
  | init => exact h0
  | next _ hs ih => exact hstep _ _ ih hs

end Loop

open Lean Meta Elab Tactic in
/-- substitute every `let` of the goal, reduce projections of literal tuples / structures -/
elab "zeta_goal" : tactic => withMainContext do
  let g ← getMainGoal
  let t ← instantiateMVars (← g.getType)
  let t' ← reduceProjs (← zetaReduce t)
  let g' ← g.change t' (checkDefEq := false)
  replaceMainGoal [g']

end GoldilocksVerif
