/-
  Order independence for the GENERATED Merkle loops (Gen/MerkleGen.lean, Region mode), per-iteration part: frame and
  dependency of the lifted loop bodies on the ONE tree buffer (a `Region`), derived from the generated text
  (`mtLeafG`, `mtbLeafG`, `mt512LeafG`, `mtb512LeafG`, `mtNodeG` of Lemmas/BridgeMerkle*.lean, which the `*_generic` theorems show
  by unfolding to be the lifted bodies `Pos_merkletree_*_loopK`) and from what the bridge proves of the hashes they call
  (`LeafHash` / `PairHash`: the linear hashes return their 4- / 8-word digest, a function of the input only, and write
  nothing else; `NodeHash`: the capacity hash writes 4 words that are a function of its 12 input words).
  * leaf loops, all in the "fill" form of `fill_spec` (iteration `m` is handed the buffer at `c·m`; `fillIter`): iteration
    `m` writes the words `[c·m, c·m + w m)`, `w m ≤ c`, and reads nothing of the tree (the input is another buffer;
    `buff0`, `buff1`, `buff2` of the batched builders are private to the iteration).  c = 4 (one row per iteration), c = 8
    (AVX512 builders: two rows per iteration, loop step 2);
  * level iteration `i` (level of `p` nodes stored from word `ni`; `nodeIter`): reads `[ni+8i, ni+8i+8)`, writes
    `[ni+4p+4i, +4)`.
  These are the footprints of `C12_merkle_leaves` (k = c/4) / `C12_merkle_level` (k = 1).  Helper of Props/C12.lean.
-/
import GoldilocksVerif.Lemmas.ParGen
import GoldilocksVerif.Lemmas.NttPar
import GoldilocksVerif.Lemmas.BridgeMerkle512

namespace GoldilocksVerif.ParGen
open GoldilocksVerif GoldilocksVerif.Par Model

/-- one `Region` observed as buffer 0 (a region has no size) -/
def viewR : View Region where
  shape _ := []
  rd t l := if l.1 = 0 then t l.2 else 0#64
  ext := by
    intro t t' _ h
    apply Region.ext'
    intro j
    have := h (0, j)
    simpa using this

/-- an iteration on a region from a total step with word footprints -/
def regionIter (g : Region → Region) (Rd Wr : Nat → Prop)
    (hframe : ∀ t j, ¬ Wr j → (g t) j = t j)
    (hdep : ∀ t t', (∀ j, Rd j → t j = t' j) → ∀ j, Wr j → (g t) j = (g t') j) : PIter viewR where
  run := g
  R := fun l => l.1 = 0 ∧ Rd l.2
  W := fun l => l.1 = 0 ∧ Wr l.2
  shape_eq := fun _ => rfl
  frame := by
    intro t l hl
    show (if l.1 = 0 then (g t) l.2 else 0#64) = (if l.1 = 0 then t l.2 else 0#64)
    by_cases h0 : l.1 = 0
    · rw [if_pos h0, if_pos h0]; exact hframe t l.2 (fun hw => hl ⟨h0, hw⟩)
    · rw [if_neg h0, if_neg h0]
  dep := by
    intro t t' _ hag l hl
    show (if l.1 = 0 then (g t) l.2 else 0#64) = (if l.1 = 0 then (g t') l.2 else 0#64)
    rw [if_pos hl.1, if_pos hl.1]
    apply hdep t t' _ l.2 hl.2
    intro j hj
    have := hag (0, j) ⟨rfl, hj⟩
    simpa [viewR] using this

theorem toList_apply (r : Region) (n k : Nat) (hk : k < n) : r k = (Region.toList r n).getD k 0#64 := by
  rw [List.getD_eq_getElem?_getD, Region.getElem?_toList, if_pos hk]
  rfl

/-! ### leaf loops: counted loops that fill the buffer `c` words at a time (the form `fill_spec` of
     Lemmas/BridgeMerkleBatch.lean uses for every leaf loop of the six builders) -/

section fill
variable (c : Nat) (w : Nat → Nat) (f G : Nat → Region → Option Region) (D : Nat → List Wd) (N : Nat)
variable (hf : ∀ m, m < N → ∀ t, f m t = (G m (Region.shift t (c * m))).bind fun r => some (Region.unshift t (c * m) r))
variable (hG : ∀ m, m < N → DigestWriter (w m) (G m) (D m))

/-- the lifted body as a total step (identity outside the index range) -/
def fillStep (m : Nat) (t : Region) : Region := if m < N then (f m t).getD t else t

include hf hG in
/-- iteration `m < N` returns, changes only the words `[c·m, c·m + w m)` and what it writes does not depend on the buffer -/
theorem fill_step_spec (m : Nat) (hm : m < N) (t : Region) :
    f m t = some (fillStep f N m t) ∧
    (∀ j, ¬ (c * m ≤ j ∧ j < c * m + w m) → (fillStep f N m t) j = t j) ∧
    (∀ j, c * m ≤ j ∧ j < c * m + w m → (fillStep f N m t) j = (D m).getD (j - c * m) 0#64) := by
  obtain ⟨out', ho, hd, hofr⟩ := hG m hm (Region.shift t (c * m))
  have hrun : f m t = some (Region.unshift t (c * m) out') := by rw [hf m hm, ho]; rfl
  have hstep : fillStep f N m t = Region.unshift t (c * m) out' := by
    unfold fillStep; rw [if_pos hm, hrun]; rfl
  rw [hstep]
  refine ⟨hrun, ?_, ?_⟩
  · intro j hj
    rw [Region.unshift_apply]
    by_cases h : c * m ≤ j
    · rw [if_pos h, hofr _ (by omega), Region.shift_apply]
      congr 1; omega
    · rw [if_neg h]
  · intro j hj
    rw [Region.unshift_apply, if_pos hj.1, toList_apply out' (w m) (j - c * m) (by omega), hd]

/-- iteration `m` with its footprints on the tree buffer: reads nothing of it, writes `[c·m, c·m + w m)` -/
def fillIter (m : Nat) : PIter viewR :=
  regionIter (fillStep f N m) (fun _ => False) (fun j => m < N ∧ c * m ≤ j ∧ j < c * m + w m)
    (fun t j hj => by
      by_cases hm : m < N
      · exact (fill_step_spec c w f G D N hf hG m hm t).2.1 j (fun h => hj ⟨hm, h⟩)
      · unfold fillStep; rw [if_neg hm])
    (fun t t' _ j hj => by
      rw [(fill_step_spec c w f G D N hf hG m hj.1 t).2.2 j hj.2, (fill_step_spec c w f G D N hf hG m hj.1 t').2.2 j hj.2])

end fill

/-- the leaf body of `merkletree_seq` / `merkletree_avx` in fill form (c = 4) -/
theorem mtLeafG_fill (LH : Nat → Region → Region → BitVec 64 → Option Region) (fuel : Nat) (input : Region)
    (num_cols dim : BitVec 64) (m : Nat) (t : Region) :
    mtLeafG LH fuel input num_cols dim m t =
      ((fun m out => LH fuel out (Region.shift input ((((BitVec.ofNat 64 m) * num_cols) * dim)).toNat) (num_cols * dim)) m
        (Region.shift t (4 * m))).bind fun r => some (Region.unshift t (4 * m) r) := by
  unfold mtLeafG
  rfl

theorem mtLeafG_writer (LH : Nat → Region → Region → BitVec 64 → Option Region) (leaf : List Wd → List Wd)
    (hLH : LeafHash LH leaf) (fuel : Nat) (input : Region) (num_cols dim : BitVec 64) (hfu : (num_cols * dim).toNat < fuel)
    (m : Nat) :
    DigestWriter 4 (fun out => LH fuel out (Region.shift input ((((BitVec.ofNat 64 m) * num_cols) * dim)).toNat) (num_cols * dim))
      (leaf (Region.toList (Region.shift input ((((BitVec.ofNat 64 m) * num_cols) * dim)).toNat) (num_cols * dim).toNat)) := by
  intro out
  exact hLH fuel out _ _ hfu

/-! ### the leaf body of the batched builders `merkletree_batch_seq` / `merkletree_batch_avx` in fill form (c = 4):
     the per-row buffer `buff0` is built by an inner sequential loop from the input only (private to the iteration) -/

theorem mtbLeafG_fill (LH : Nat → Region → Region → BitVec 64 → Option Region) (fuel : Nat) (input : Region)
    (num_cols batch_size dim nbatches nlastb : BitVec 64) (i : Nat) (t : Region) :
    mtbLeafG LH fuel input num_cols batch_size dim nbatches nlastb i t =
      ((fun i out => (Loop.rangeM 0 nbatches.toNat 1 Region.zero
          (mtbInnerG LH fuel input num_cols batch_size dim nbatches nlastb i)).bind fun st_2 =>
        LH fuel out st_2 (nbatches * 4#64)) i (Region.shift t (4 * i))).bind fun r => some (Region.unshift t (4 * i) r) := by
  unfold mtbLeafG
  dsimp only
  cases (Loop.rangeM 0 nbatches.toNat 1 Region.zero
    (mtbInnerG LH fuel input num_cols batch_size dim nbatches nlastb i)) <;> rfl

theorem mtbLeafG_writer (LH : Nat → Region → Region → BitVec 64 → Option Region) (leaf : List Wd → List Wd)
    (hLH : LeafHash LH leaf) (fuel : Nat) (input : Region) (num_cols batch_size dim nbatches nlastb : BitVec 64)
    (c b d R : Nat) (hc : num_cols.toNat = c) (hbv : batch_size.toNat = b) (hd : dim.toNat = d) (hb : 1 ≤ b)
    (hprod : R * (c * d) < 2 ^ 64) (hcb : c + b < 2 ^ 62)
    (hnb : nbatches.toNat = nbOf c b) (hnl : nlastb.toNat = nlastOf c b) (hf1 : c * d < fuel) (hf3 : 4 * (c + 1) < fuel)
    (i : Nat) (hi : i < R) :
    DigestWriter 4 (fun out => (Loop.rangeM 0 nbatches.toNat 1 Region.zero
        (mtbInnerG LH fuel input num_cols batch_size dim nbatches nlastb i)).bind fun st_2 =>
      LH fuel out st_2 (nbatches * 4#64)) (batchLeaf leaf c d b (rowOf input (c * d) i)) := by
  have hnble := nbOf_le c b hb
  have e4 : (nbatches * 4#64).toNat = 4 * nbOf c b := by
    have h4 : (4#64 : BitVec 64).toNat = 4 := rfl
    rw [BitVec.toNat_mul, hnb, h4]
    omega
  intro out
  obtain ⟨b0, hb0, hl0⟩ := mtb_inner LH leaf hLH fuel input num_cols batch_size dim nbatches nlastb c b d R i hc hbv hd hb
    hi hprod hnb hnl hf1
  obtain ⟨out', ho, hdg, hofr⟩ := hLH fuel out b0 (nbatches * 4#64) (by rw [e4]; omega)
  refine ⟨out', by rw [hb0]; exact ho, ?_, hofr⟩
  rw [hdg, e4, hl0, batchLeaf_eq]

/-! ### the leaf body of `merkletree_avx512` in fill form: the loop has step 2, iteration `m` handles the rows `2m`, `2m+1`
     (c = 8): the two-state hash writes 8 words; an odd last row goes through the one-state hash (4 words) -/

section avx512
variable (LH2 LH1 : Nat → Region → Region → BitVec 64 → Option Region) (fuel : Nat) (input : Region)
variable (num_cols num_rows dim : BitVec 64)

/-- the hash call of iteration `m` (rows `2m`, `2m+1`) on the output region it is handed -/
def pairG (m : Nat) (out : Region) : Option Region :=
  if (decide ((BitVec.ofNat 64 (2 * m + 1)) < num_rows)) then
    LH2 fuel out (Region.shift input ((((BitVec.ofNat 64 (2 * m)) * num_cols) * dim)).toNat) (num_cols * dim)
  else
    LH1 fuel out (Region.shift input ((((BitVec.ofNat 64 (2 * m)) * num_cols) * dim)).toNat) (num_cols * dim)

def pairW (m : Nat) : Nat := if (decide ((BitVec.ofNat 64 (2 * m + 1)) < num_rows)) then 8 else 4

theorem pairW_le (m : Nat) : pairW num_rows m ≤ 4 * 2 := by
  unfold pairW; split <;> omega

theorem mt512LeafG_fill (m : Nat) (t : Region) :
    mt512LeafG LH2 LH1 fuel input num_cols num_rows dim (2 * m) t =
      (pairG LH2 LH1 fuel input num_cols num_rows dim m (Region.shift t (4 * 2 * m))).bind fun r =>
        some (Region.unshift t (4 * 2 * m) r) := by
  have e8 : 4 * (2 * m) = 4 * 2 * m := by omega
  unfold mt512LeafG pairG
  dsimp only
  rw [e8]
  by_cases hc : decide ((BitVec.ofNat 64 (2 * m + 1)) < num_rows) = true
  · rw [if_pos hc, if_pos hc]
    cases (LH2 fuel (Region.shift t (4 * 2 * m))
      (Region.shift input ((((BitVec.ofNat 64 (2 * m)) * num_cols) * dim)).toNat) (num_cols * dim)) <;> rfl
  · rw [if_neg hc, if_neg hc]
    cases (LH1 fuel (Region.shift t (4 * 2 * m))
      (Region.shift input ((((BitVec.ofNat 64 (2 * m)) * num_cols) * dim)).toNat) (num_cols * dim)) <;> rfl

theorem mt512LeafG_writer (leaf1 : List Wd → List Wd) (leaf2 : List Wd → Nat → List Wd) (hLH1 : LeafHash LH1 leaf1)
    (hLH2 : PairHash LH2 leaf2) (hfu : (num_cols * dim).toNat < fuel) (m : Nat) :
    DigestWriter (pairW num_rows m) (pairG LH2 LH1 fuel input num_cols num_rows dim m)
      (if (decide ((BitVec.ofNat 64 (2 * m + 1)) < num_rows)) then
        leaf2 (Region.toList (Region.shift input ((((BitVec.ofNat 64 (2 * m)) * num_cols) * dim)).toNat)
          (2 * (num_cols * dim).toNat)) (num_cols * dim).toNat
       else leaf1 (Region.toList (Region.shift input ((((BitVec.ofNat 64 (2 * m)) * num_cols) * dim)).toNat)
          (num_cols * dim).toNat)) := by
  intro out
  unfold pairW pairG
  by_cases hc : decide ((BitVec.ofNat 64 (2 * m + 1)) < num_rows) = true
  · rw [if_pos hc, if_pos hc, if_pos hc]
    exact hLH2 fuel out _ _ hfu
  · rw [if_neg hc, if_neg hc, if_neg hc]
    exact hLH1 fuel out _ _ hfu

end avx512

/-! ### the leaf body of `merkletree_batch_avx512` in fill form (c = 8), for an even number of rows `2^(k+1)`: every
     iteration takes the two-row branch -/

section batch512
variable (LH2 LH1 : Nat → Region → Region → BitVec 64 → Option Region) (fuel : Nat) (input : Region)
variable (num_cols num_rows batch_size dim nbatches nlastb : BitVec 64)

theorem mtb512LeafG_fill (k : Nat) (hR : num_rows.toNat = 2 ^ (k + 1)) (m : Nat) (hm : m < 2 ^ k) (t : Region) :
    mtb512LeafG LH2 LH1 fuel input num_cols num_rows batch_size dim nbatches nlastb (2 * m) t =
      ((fun m out => (Loop.rangeM 0 nbatches.toNat 1 Region.zero
          (mtb512InnerG LH2 fuel input num_cols batch_size dim nbatches nlastb (2 * m))).bind fun st_5 =>
        LH2 fuel out st_5 (nbatches * 4#64)) m (Region.shift t (4 * 2 * m))).bind fun r =>
          some (Region.unshift t (4 * 2 * m) r) := by
  have h2p : (2 : Nat) ^ (k + 1) = 2 * 2 ^ k := by rw [Nat.pow_succ]; omega
  have hcnd : decide ((BitVec.ofNat 64 (2 * m + 1)) ≥ num_rows) = false := by
    rw [pair_cond_ge num_rows (2 ^ (k + 1)) m hR (by have := num_rows.isLt; omega), decide_eq_false_iff_not]
    omega
  have e8 : 4 * (2 * m) = 4 * 2 * m := by omega
  unfold mtb512LeafG
  dsimp only
  rw [hcnd, e8]
  simp only [Bool.false_eq_true, if_false]
  cases (Loop.rangeM 0 nbatches.toNat 1 Region.zero
    (mtb512InnerG LH2 fuel input num_cols batch_size dim nbatches nlastb (2 * m))) <;> rfl

theorem mtb512LeafG_writer (leaf2 : List Wd → Nat → List Wd) (hLH2 : PairHash LH2 leaf2)
    (c b d k : Nat) (hc : num_cols.toNat = c) (hbv : batch_size.toNat = b) (hd : dim.toNat = d) (hb : 1 ≤ b)
    (hprod : 2 ^ (k + 1) * (c * d) < 2 ^ 64) (h61 : c * d < 2 ^ 61) (hcb : c + b < 2 ^ 61)
    (hnb : nbatches.toNat = nbOf c b) (hnl : nlastb.toNat = nlastOf c b) (hf1 : c * d < fuel) (hf3 : 4 * (c + 1) < fuel)
    (m : Nat) (hm : m < 2 ^ k) :
    DigestWriter 8 (fun out => (Loop.rangeM 0 nbatches.toNat 1 Region.zero
        (mtb512InnerG LH2 fuel input num_cols batch_size dim nbatches nlastb (2 * m))).bind fun st_5 =>
      LH2 fuel out st_5 (nbatches * 4#64))
      (batchLeaf512 leaf2 c d b (rowOf input (c * d) (2 * m)) (rowOf input (c * d) (2 * m + 1))) := by
  have h2p : (2 : Nat) ^ (k + 1) = 2 * 2 ^ k := by rw [Nat.pow_succ]; omega
  have hnble := nbOf_le c b hb
  have e4 : (nbatches * 4#64).toNat = 4 * nbOf c b := by
    have h4 : (4#64 : BitVec 64).toNat = 4 := rfl
    rw [BitVec.toNat_mul, hnb, h4]
    omega
  intro out
  obtain ⟨b0, hb0, hl0⟩ := mtb512_inner LH2 leaf2 hLH2 fuel input num_cols batch_size dim nbatches nlastb c b d
    (2 ^ (k + 1)) (2 * m) hc hbv hd hb (by omega) hprod h61 hcb hnb hnl hf1
  obtain ⟨out', ho, hdg, hofr⟩ := hLH2 fuel out b0 (nbatches * 4#64) (by rw [e4]; omega)
  refine ⟨out', by rw [hb0]; exact ho, ?_, hofr⟩
  rw [hdg, e4, hl0]
  rfl

end batch512

/-! ### level loop -/

section level
variable (H : Region → Region → Region) (nodeF : List Wd → List Wd) (hH : NodeHash H nodeF)

/-- the lifted level body with the offsets as natural numbers: node `i` of the level of `p` nodes stored from word `ni` -/
def nodeStepR (ni p i : Nat) (t : Region) : Region :=
  Region.unshift t (ni + 4 * p + 4 * i)
    (H (Region.shift t (ni + 4 * p + 4 * i)) (Region.copyN (Region.zeroN Region.zero 12) (Region.shift t (ni + 8 * i)) 8))

/-- the generated body is `nodeStepR` as long as the 64-bit offsets do not wrap -/
theorem node_some (pending nextIndex : BitVec 64) (ni p m : Nat) (hni : nextIndex.toNat = ni) (hp : pending.toNat = p)
    (hm : 2 * m ≤ p) (hsmall : ni + 8 * p < 2 ^ 60) (i : Nat) (hi : i < m) (t : Region) :
    mtNodeG H pending nextIndex i t = some (nodeStepR H ni p i t) := by
  have e_rd : (nextIndex + (BitVec.ofNat 64 (8 * i))).toNat = ni + 8 * i := by
    rw [BitVec.toNat_add, BitVec.toNat_ofNat, hni]; omega
  have e_wr : (nextIndex + ((pending + (BitVec.ofNat 64 i)) * 4#64)).toNat = ni + 4 * p + 4 * i := by
    rw [BitVec.toNat_add, BitVec.toNat_mul, BitVec.toNat_add, BitVec.toNat_ofNat, hni, hp]
    show (ni + (p + i % 2 ^ 64) % 2 ^ 64 * 4 % 2 ^ 64) % 2 ^ 64 = _
    omega
  unfold mtNodeG nodeStepR
  dsimp only
  rw [e_rd, e_wr]

include hH in
theorem node_frame (ni p i : Nat) (t : Region) (j : Nat) (hj : ¬ (ni + 4 * p + 4 * i ≤ j ∧ j < ni + 4 * p + 4 * i + 4)) :
    (nodeStepR H ni p i t) j = t j := by
  unfold nodeStepR
  rw [Region.unshift_apply]
  by_cases h : ni + 4 * p + 4 * i ≤ j
  · rw [if_pos h, (hH _ _).2 _ (by omega), Region.shift_apply]
    congr 1; omega
  · rw [if_neg h]

include hH in
theorem node_dep (ni p i : Nat) (t t' : Region) (hag : ∀ j, ni + 8 * i ≤ j ∧ j < ni + 8 * i + 8 → t j = t' j) (j : Nat)
    (hj : ni + 4 * p + 4 * i ≤ j ∧ j < ni + 4 * p + 4 * i + 4) : (nodeStepR H ni p i t) j = (nodeStepR H ni p i t') j := by
  unfold nodeStepR
  rw [Region.unshift_apply, Region.unshift_apply, if_pos hj.1, if_pos hj.1,
    toList_apply _ 4 (j - (ni + 4 * p + 4 * i)) (by omega), toList_apply (H _ _) 4 (j - (ni + 4 * p + 4 * i)) (by omega),
    (hH _ _).1, (hH _ _).1]
  congr 2
  apply toList_congr
  intro k hk
  rw [Region.copyN_apply, Region.copyN_apply]
  by_cases h8 : k < 8
  · rw [if_pos h8, if_pos h8, Region.shift_apply, Region.shift_apply]
    exact hag _ (by omega)
  · rw [if_neg h8, if_neg h8]

/-- level iteration `i` with its footprints on the tree buffer -/
def nodeIter (ni p i : Nat) : PIter viewR :=
  regionIter (nodeStepR H ni p i) (fun j => ni + 8 * i ≤ j ∧ j < ni + 8 * i + 8)
    (fun j => ni + 4 * p + 4 * i ≤ j ∧ j < ni + 4 * p + 4 * i + 4)
    (fun t j hj => node_frame H nodeF hH ni p i t j hj)
    (fun t t' hag j hj => node_dep H nodeF hH ni p i t t' hag j hj)

end level

end GoldilocksVerif.ParGen
