/-
  Bernstein's conditions ⇒ order independence of the members / iterations of a parallel region.  Generic: locations
  `L`, values `V`, an iteration is ANY state transformer that reads only `R` and writes only `W`.
  Helper file for Props/C12.lean.
-/
import Mathlib.Data.List.Perm.Basic

namespace GoldilocksVerif.Par

variable {L V : Type}

/-- one iteration (or one team member's whole slice) of a parallel loop, with its read and write footprints -/
structure Iter (L V : Type) where
  run : (L → V) → (L → V)
  R : L → Prop
  W : L → Prop
  /-- nothing outside the write footprint changes -/
  frame : ∀ m l, ¬ W l → run m l = m l
  /-- what is written depends only on the content of the read footprint -/
  dep : ∀ m m', (∀ l, R l → m l = m' l) → ∀ l, W l → run m l = run m' l

/-- Bernstein's conditions on two footprints: no write/write, write/read or read/write overlap -/
def FootIndep (R1 W1 R2 W2 : L → Prop) : Prop :=
  (∀ l, ¬ (W1 l ∧ W2 l)) ∧ (∀ l, ¬ (W1 l ∧ R2 l)) ∧ (∀ l, ¬ (W2 l ∧ R1 l))

def Indep (f g : Iter L V) : Prop := FootIndep f.R f.W g.R g.W

theorem FootIndep.symm {R1 W1 R2 W2 : L → Prop} (h : FootIndep R1 W1 R2 W2) : FootIndep R2 W2 R1 W1 :=
  ⟨fun l hl => h.1 l ⟨hl.2, hl.1⟩, h.2.2, h.2.1⟩

/-- two independent iterations commute -/
theorem commute (f g : Iter L V) (h : Indep f g) (m : L → V) : f.run (g.run m) = g.run (f.run m) := by
  obtain ⟨hww, hwr, hrw⟩ := h
  funext l
  by_cases hf : f.W l
  · have hg : ¬ g.W l := fun hg => hww l ⟨hf, hg⟩
    rw [g.frame _ l hg]
    exact f.dep _ _ (fun l' hr => g.frame m l' (fun hw => hrw l' ⟨hw, hr⟩)) l hf
  · rw [f.frame _ l hf]
    by_cases hg : g.W l
    · exact (g.dep _ _ (fun l' hr => f.frame m l' (fun hw => hwr l' ⟨hw, hr⟩)) l hg).symm
    · rw [g.frame _ l hg, g.frame _ l hg, f.frame _ l hf]

/-- executing a list of iterations one after the other -/
def exec (its : List (Iter L V)) (m : L → V) : L → V := its.foldl (fun m f => f.run m) m

/-- If distinct iterations of a region are pairwise independent, every execution ORDER of the iterations (hence every
    assignment of iterations to team members, every team size and every order of the members) yields the same memory. -/
theorem order_independent (its its' : List (Iter L V)) (hp : its.Perm its')
    (hind : ∀ f ∈ its, ∀ g ∈ its, f ≠ g → Indep f g) (m : L → V) : exec its m = exec its' m := by
  unfold exec
  apply hp.foldl_eq'
  intro f hf g hg z
  by_cases e : f = g
  · subst e; rfl
  · exact (commute g f (hind g hg f hf (fun h => e h.symm)) z)

/-- a location written by nobody keeps its content; a location written by one iteration gets that iteration's value
    computed from the INITIAL memory (no iteration observes another one's writes) -/
theorem exec_frame (its : List (Iter L V)) (m : L → V) (l : L) (h : ∀ f ∈ its, ¬ f.W l) : exec its m l = m l := by
  unfold exec
  induction its generalizing m with
  | nil => rfl
  | cons f rest ih =>
    simp only [List.foldl_cons]
    rw [ih (f.run m) (fun g hg => h g (List.mem_cons_of_mem _ hg))]
    exact f.frame m l (h f List.mem_cons_self)

end GoldilocksVerif.Par
