/-
  Specification of the transforms (C03, C04, C05) over a field, and the code-independent theory:
  `dft`, `idft`, `lde`; orthogonality of the powers of a primitive root, hence `idft ∘ dft = id = dft ∘ idft`;
  the interpolant is well defined (`lde_welldef`).
  Then the library's roots of unity: `omega d = den (W[d])` from the GENERATED table `Gen.Scalar.c_W_list`
  (`decide +kernel` facts: W[0] = 1, W[1] = -1, W[k+1]^2 = W[k]), hence `omega d` is a primitive 2^d-th root of unity
  for every d ≤ 32; `2 * powTwoInv = 1`; `SHIFT = 7`.
-/
import Mathlib.Algebra.BigOperators.Group.Finset.Basic
import Mathlib.Algebra.BigOperators.Ring.Finset
import Mathlib.Algebra.BigOperators.Group.Finset.Sigma
import Mathlib.Algebra.Ring.GeomSum
import Mathlib.Tactic.Ring
import Mathlib.Tactic.FieldSimp
import GoldilocksVerif.Lemmas.InvF

namespace GoldilocksVerif.NttSpec
open Finset

section generic
variable {K : Type} [Field K]

/-- `dft ω n x k = Σ_{j<n} x j · ω^(j·k)` (one column) -/
def dft (ω : K) (n : Nat) (x : Nat → K) (k : Nat) : K := ∑ j ∈ range n, x j * ω ^ (j * k)

/-- `idft ω n y k = n⁻¹ · Σ_{j<n} y j · ω^(-j·k)` -/
def idft (ω : K) (n : Nat) (y : Nat → K) (k : Nat) : K := (n : K)⁻¹ * ∑ j ∈ range n, y j * ω⁻¹ ^ (j * k)

/-- value at `z` of the polynomial with coefficients `c 0 … c (n-1)` -/
def evalPoly (n : Nat) (c : Nat → K) (z : K) : K := ∑ i ∈ range n, c i * z ^ i

/-- low-degree extension: the interpolant of `x` on the powers of `ωN` (its coefficients are `idft ωN N x`),
    evaluated on the coset `g·ωE^k` -/
def lde (g ωN ωE : K) (N : Nat) (x : Nat → K) (k : Nat) : K := evalPoly N (idft ωN N x) (g * ωE ^ k)

/-- `ω` is a primitive `n`-th root of unity -/
structure IsPrimRoot (ω : K) (n : Nat) : Prop where
  pow_n : ω ^ n = 1
  ne_one : ∀ m, 0 < m → m < n → ω ^ m ≠ 1

theorem IsPrimRoot.ne_zero {ω : K} {n : Nat} (h : IsPrimRoot ω n) (hn : 0 < n) : ω ≠ 0 := by
  intro h0
  have := h.pow_n
  rw [h0, zero_pow (by omega)] at this
  exact zero_ne_one this

theorem IsPrimRoot.inv {ω : K} {n : Nat} (h : IsPrimRoot ω n) : IsPrimRoot ω⁻¹ n := by
  constructor
  · rw [inv_pow, h.pow_n, inv_one]
  · intro m h0 h1 hm
    apply h.ne_one m h0 h1
    rw [inv_pow, inv_eq_one] at hm
    exact hm

/-- distinct exponents below `n` give distinct powers -/
theorem IsPrimRoot.pow_inj {ω : K} {n : Nat} (h : IsPrimRoot ω n) {i k : Nat} (hi : i < n) (hk : k < n)
    (e : ω ^ i = ω ^ k) : i = k := by
  have hω : ω ≠ 0 := h.ne_zero (by omega)
  rcases Nat.lt_trichotomy i k with hlt | heq | hgt
  · exfalso
    apply h.ne_one (k - i) (by omega) (by omega)
    have : ω ^ k = ω ^ i * ω ^ (k - i) := by rw [← pow_add]; congr 1; omega
    rw [this] at e
    have h2 : ω ^ i ≠ 0 := pow_ne_zero _ hω
    field_simp at e
    exact e.symm
  · exact heq
  · exfalso
    apply h.ne_one (i - k) (by omega) (by omega)
    have : ω ^ i = ω ^ k * ω ^ (i - k) := by rw [← pow_add]; congr 1; omega
    rw [this] at e
    have h2 : ω ^ k ≠ 0 := pow_ne_zero _ hω
    field_simp at e
    exact e

/-- orthogonality: `Σ_{j<n} ω^(i·j) · ω^(-j·k) = n·[i = k]` -/
theorem orthogonality {ω : K} {n : Nat} (h : IsPrimRoot ω n) {i k : Nat} (hi : i < n) (hk : k < n) :
    ∑ j ∈ range n, ω ^ (i * j) * ω⁻¹ ^ (j * k) = if i = k then (n : K) else 0 := by
  have hω : ω ≠ 0 := h.ne_zero (by omega)
  have e1 : ∀ j, ω ^ (i * j) * ω⁻¹ ^ (j * k) = (ω ^ i * ω⁻¹ ^ k) ^ j := by
    intro j
    rw [mul_pow, ← pow_mul, ← pow_mul, Nat.mul_comm k j]
  simp only [e1]
  by_cases hik : i = k
  · subst hik
    have : ω ^ i * ω⁻¹ ^ i = 1 := by rw [← mul_pow, mul_inv_cancel₀ hω, one_pow]
    rw [this, if_pos rfl]
    simp
  · rw [if_neg hik]
    have hz : ω ^ i * ω⁻¹ ^ k ≠ 1 := by
      intro e
      apply hik
      apply h.pow_inj hi hk
      rw [inv_pow] at e
      have h2 : ω ^ k ≠ 0 := pow_ne_zero _ hω
      field_simp at e
      exact e
    have hzn : (ω ^ i * ω⁻¹ ^ k) ^ n = 1 := by
      rw [mul_pow, ← pow_mul, ← pow_mul, Nat.mul_comm i n, Nat.mul_comm k n, pow_mul, pow_mul, h.pow_n, inv_pow, h.pow_n]
      simp
    have g := geom_sum_mul (ω ^ i * ω⁻¹ ^ k) n
    rw [hzn, sub_self] at g
    rcases mul_eq_zero.mp g with g | g
    · exact g
    · exact absurd (sub_eq_zero.mp g) hz

/-- C04 (code-independent half): the inverse transform undoes the forward transform -/
theorem idft_dft {ω : K} {n : Nat} (h : IsPrimRoot ω n) (hn : (n : K) ≠ 0) (x : Nat → K) {k : Nat} (hk : k < n) :
    idft ω n (dft ω n x) k = x k := by
  unfold idft dft
  have e1 : ∑ j ∈ range n, (∑ i ∈ range n, x i * ω ^ (i * j)) * ω⁻¹ ^ (j * k)
      = ∑ i ∈ range n, x i * ∑ j ∈ range n, ω ^ (i * j) * ω⁻¹ ^ (j * k) := by
    simp only [sum_mul, mul_sum]
    rw [sum_comm]
    apply sum_congr rfl; intro i _
    apply sum_congr rfl; intro j _
    ring
  rw [e1]
  have e2 : ∑ i ∈ range n, x i * ∑ j ∈ range n, ω ^ (i * j) * ω⁻¹ ^ (j * k)
      = ∑ i ∈ range n, if i = k then x k * (n : K) else 0 := by
    apply sum_congr rfl; intro i hi
    rw [orthogonality h (mem_range.mp hi) hk]
    by_cases hik : i = k
    · subst hik; simp
    · simp [hik]
  rw [e2, sum_ite_eq' (range n) k (fun _ => x k * (n : K)), if_pos (mem_range.mpr hk)]
  field_simp

theorem idft_eq_dft_inv (ω : K) (n : Nat) (y : Nat → K) (k : Nat) :
    idft ω n y k = (n : K)⁻¹ * dft ω⁻¹ n y k := rfl

theorem dft_smul (ω c : K) (n : Nat) (y : Nat → K) (k : Nat) :
    dft ω n (fun j => c * y j) k = c * dft ω n y k := by
  unfold dft
  rw [mul_sum]
  apply sum_congr rfl; intro j _; ring

theorem dft_congr (ω : K) (n : Nat) (x y : Nat → K) (k : Nat) (h : ∀ j < n, x j = y j) : dft ω n x k = dft ω n y k := by
  unfold dft
  apply sum_congr rfl; intro j hj; rw [h j (mem_range.mp hj)]

theorem idft_congr (ω : K) (n : Nat) (x y : Nat → K) (k : Nat) (h : ∀ j < n, x j = y j) : idft ω n x k = idft ω n y k := by
  unfold idft
  congr 1
  apply sum_congr rfl; intro j hj; rw [h j (mem_range.mp hj)]

/-- C04 (code-independent half): the forward transform undoes the inverse transform -/
theorem dft_idft {ω : K} {n : Nat} (h : IsPrimRoot ω n) (hn : (n : K) ≠ 0) (y : Nat → K) {k : Nat} (hk : k < n) :
    dft ω n (idft ω n y) k = y k := by
  have e : dft ω n (idft ω n y) k = idft ω⁻¹ n (dft ω⁻¹ n y) k := by
    have : idft ω n y = fun j => (n : K)⁻¹ * dft ω⁻¹ n y j := by funext j; rfl
    rw [this, dft_smul, idft_eq_dft_inv, inv_inv]
  rw [e, idft_dft h.inv hn y hk]

/-- the polynomial with coefficients `c` takes the value `dft ω n c j` at `ω^j` -/
theorem evalPoly_pow (ω : K) (n : Nat) (c : Nat → K) (j : Nat) : evalPoly n c (ω ^ j) = dft ω n c j := by
  unfold evalPoly dft
  apply sum_congr rfl; intro i _
  rw [← pow_mul, Nat.mul_comm j i]

/-- C05 (code-independent half): a coefficient vector `c` (degree < N) interpolates `x` on the powers of `ω`
    iff it is `idft ω N x`: the interpolant exists and is unique, so `lde` is well defined. -/
theorem lde_welldef {ω : K} {N : Nat} (h : IsPrimRoot ω N) (hn : (N : K) ≠ 0) (x c : Nat → K) :
    (∀ j < N, evalPoly N c (ω ^ j) = x j) ↔ (∀ i < N, c i = idft ω N x i) := by
  constructor
  · intro hc i hi
    have : idft ω N x i = idft ω N (dft ω N c) i := by
      apply idft_congr; intro j hj; rw [← evalPoly_pow, hc j hj]
    rw [this, idft_dft h hn c hi]
  · intro hc j hj
    rw [evalPoly_pow, dft_congr ω N c (idft ω N x) j hc, dft_idft h hn x hj]

end generic

/-! ### the library's tables -/

/-- `Goldilocks::W[d]` -/
def wtab (d : Nat) : BitVec 64 := Gen.Scalar.c_W_list.getD d 0#64

/-- the library's primitive 2^d-th root of unity, as a field element -/
def omega (d : Nat) : F := den (wtab d)

def wtabOk : Bool :=
  (wtab 0).toNat % P == 1 && (wtab 1).toNat % P == P - 1 &&
  (List.range 32).all (fun d => ((wtab (d + 1)).toNat * (wtab (d + 1)).toNat) % P == (wtab d).toNat % P)

theorem wtabOk_true : wtabOk = true := by decide +kernel

theorem wtab_facts : (wtab 0).toNat % P = 1 ∧ (wtab 1).toNat % P = P - 1 ∧
    ∀ d < 32, ((wtab (d + 1)).toNat * (wtab (d + 1)).toNat) % P = (wtab d).toNat % P := by
  have h := wtabOk_true
  unfold wtabOk at h
  simp only [Bool.and_eq_true, beq_iff_eq, List.all_eq_true, List.mem_range] at h
  exact ⟨h.1.1, h.1.2, h.2⟩

theorem omega_zero : omega 0 = 1 := by
  unfold omega
  rw [den_of_mod _ 1 (by rw [wtab_facts.1]; decide)]
  simp

theorem omega_one : omega 1 = -1 := by
  unfold omega
  rw [den_of_mod _ (P - 1) (by rw [wtab_facts.2.1]; decide)]
  have : ((P - 1 : Nat) : F) + 1 = 0 := by
    have : ((P - 1 + 1 : Nat) : F) = 0 := by
      have : P - 1 + 1 = P := by decide
      rw [this]; exact ZMod.natCast_self P
    push_cast at this
    exact this
  exact eq_neg_of_add_eq_zero_left this

theorem omega_sq (d : Nat) (h : d < 32) : omega (d + 1) ^ 2 = omega d := by
  unfold omega den
  have := natCast_eq_of_mod _ _ (wtab_facts.2.2 d h)
  push_cast at this
  rw [pow_two]; exact this

theorem omega_pow_two_pow (d e : Nat) (h : d + e ≤ 32) : omega (d + e) ^ (2 ^ e) = omega d := by
  induction e with
  | zero => simp
  | succ e ih =>
    rw [← Nat.add_assoc, pow_succ', pow_mul, omega_sq _ (by omega), ih (by omega)]

theorem omega_pow_n (d : Nat) (h : d ≤ 32) : omega d ^ (2 ^ d) = 1 := by
  have := omega_pow_two_pow 0 d (by omega)
  rw [Nat.zero_add, omega_zero] at this
  exact this

theorem omega_pow_half (d : Nat) (h : d < 32) : omega (d + 1) ^ (2 ^ d) = -1 := by
  have := omega_pow_two_pow 1 d (by omega)
  rw [omega_one, Nat.add_comm] at this
  exact this

theorem neg_one_ne_one : (-1 : F) ≠ 1 := by
  intro h
  have h2 : ((2 : Nat) : F) = 0 := by
    push_cast
    have : (1 : F) + 1 = 0 := by nth_rewrite 1 [← h]; ring
    rw [← this]; ring
  rw [ZMod.natCast_eq_zero_iff] at h2
  have : P ≤ 2 := Nat.le_of_dvd (by decide) h2
  exact absurd this (by decide)

theorem two_ne_zero' : (2 : F) ≠ 0 := by
  intro h
  apply neg_one_ne_one
  have : (1 : F) + 1 = 0 := by rw [← h]; ring
  exact (eq_neg_of_add_eq_zero_left this).symm

theorem two_pow_ne_zero (d : Nat) : ((2 ^ d : Nat) : F) ≠ 0 := by
  push_cast
  exact pow_ne_zero _ two_ne_zero'

theorem omega_ne_one : ∀ (d : Nat), d ≤ 32 → ∀ m, 0 < m → m < 2 ^ d → omega d ^ m ≠ 1 := by
  intro d
  induction d with
  | zero => intro _ m h0 h1; simp at h1; omega
  | succ d ih =>
    intro hd m h0 h1 e
    rcases Nat.even_or_odd' m with ⟨m', hm | hm⟩
    · subst hm
      rw [pow_mul, omega_sq _ (by omega)] at e
      exact ih (by omega) m' (by omega) (by rw [pow_succ] at h1; omega) e
    · have e2 : (omega (d + 1) ^ m) ^ (2 ^ d) = 1 := by rw [e, one_pow]
      rw [← pow_mul, Nat.mul_comm, pow_mul, omega_pow_half _ (by omega), hm, pow_succ, pow_mul] at e2
      simp at e2
      exact neg_one_ne_one e2

/-- `omega d` is a primitive `2^d`-th root of unity, for every `d ≤ 32` -/
theorem omega_prim (d : Nat) (h : d ≤ 32) : IsPrimRoot (omega d) (2 ^ d) :=
  ⟨omega_pow_n d h, omega_ne_one d h⟩

/-- `omega d ^ (2^d / 2) = -1` for `1 ≤ d ≤ 32` -/
theorem omega_pow_half' (d : Nat) (h1 : 1 ≤ d) (h : d ≤ 32) : omega d ^ (2 ^ d / 2) = -1 := by
  obtain ⟨e, rfl⟩ : ∃ e, d = e + 1 := ⟨d - 1, by omega⟩
  have : 2 ^ (e + 1) / 2 = 2 ^ e := by rw [pow_succ]; omega
  rw [this, omega_pow_half e (by omega)]

/-- `2^-1 = (p+1)/2` and the coset shift -/
theorem den_half : den 9223372034707292161#64 * 2 = 1 := by
  unfold den
  have : (9223372034707292161#64).toNat = 9223372034707292161 := by decide
  rw [this]
  have h : ((9223372034707292161 * 2 : Nat) : F) = ((1 : Nat) : F) := natCast_eq_of_mod _ _ (by decide)
  push_cast at h
  exact h

theorem den_shift : den Gen.Scalar.shift__r = 7 := by
  have : Gen.Scalar.shift__r = 7#64 := by decide +kernel
  rw [this]
  unfold den
  have : (7#64).toNat = 7 := by decide
  rw [this]; norm_cast

end GoldilocksVerif.NttSpec
