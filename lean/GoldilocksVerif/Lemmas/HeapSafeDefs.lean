/-
  The in-bounds predicates `f.Safe` of the generated NTT functions, derived from Gen/NttGen.lean by `derive_safe`
  (Lemmas/HeapSafeVC.lean), callees first.  Nothing is written by hand here: the file only says WHICH functions.
-/
import GoldilocksVerif.Lemmas.HeapSafeVC
import GoldilocksVerif.Gen.NttGen

namespace Gen.NttGen
open GoldilocksVerif

derive_safe NTT_root
derive_safe NTT_ctor_loop3
derive_safe NTT_ctor_loop4
derive_safe NTT_ctor
derive_safe NTT_dtor
derive_safe NTT_computeR_loop1
derive_safe NTT_computeR
derive_safe NTT_reversePermutation_loop1
derive_safe NTT_reversePermutation_loop2
derive_safe NTT_reversePermutation_loop3
derive_safe NTT_reversePermutation_loop4
derive_safe NTT_reversePermutation
derive_safe parcpy_loop1
derive_safe parcpy
derive_safe NTT_NTT_iters_loop1
derive_safe NTT_NTT_iters_loop2
derive_safe NTT_NTT_iters_loop3
derive_safe NTT_NTT_iters_loop4
derive_safe NTT_NTT_iters_loop5
derive_safe NTT_NTT_iters_loop6
derive_safe NTT_NTT_iters_loop7
derive_safe NTT_NTT_iters_loop8
derive_safe NTT_NTT_iters_loop9
derive_safe NTT_NTT_iters_loop10
derive_safe NTT_NTT_iters
derive_safe NTT_NTT_loop1
derive_safe NTT_NTT_loop2
derive_safe NTT_NTT
derive_safe NTT_INTT
derive_safe NTT_extendPol

end Gen.NttGen
