/-
  Order independence for the GENERATED `Goldilocks::parcpy` (Gen/NttGen.lean, heap mode; goldilocks_base_field.cpp:72),
  per-iteration part.  The translator renders `#pragma omp parallel for  for (i = 0; i < size; i += components_thread)`
  as a fuel-bounded `Loop.whileM` whose state is `(heap, i)`: the lifted body `parcpy_loop1` tests `i < size`, copies the
  chunk that starts at `i` and steps `i`.
  * `chunkBody … i hp` : that SAME lifted body run for the chunk starting at `i` (the heap it leaves);
  * `chunk_rep`        : on the representation `hp.setBlock D`, it is `cpyChunk` = `memcpy` of `ParCopy.len` words at `i`
                         (the hand model's chunk, Model/ParCopy.lean), for every start of `ParCopy.starts`;
  * `parcpy_seq`       : the generated function is the fold of `cpyChunk` over `ParCopy.starts` (so the chunk starts the
                         generated loop visits ARE the hand model's list).
  `parSetZero` is not translated (not called by the translated modules).  Helper of Props/C12.lean.
-/
import GoldilocksVerif.Lemmas.ParGenNtt
import GoldilocksVerif.Lemmas.ParCopyL
import GoldilocksVerif.Lemmas.BridgeParcpyStep

namespace GoldilocksVerif.ParGen
open GoldilocksVerif Gen.NttGen GoldilocksVerif.BridgeNtt GoldilocksVerif.ParCopy

/-- `components_thread` as the generated `parcpy` computes it (64-bit, from the clamped `int` thread count) -/
def genChunk (size : BitVec 64) (nt : Int) : BitVec 64 :=
  (((size + (I32.toU64 (if (decide (nt < (1 : Int))) then (1 : Int) else nt))) - 1#64) /
    (I32.toU64 (if (decide (nt < (1 : Int))) then (1 : Int) else nt)))

/-- the lifted body of the chunk loop, run for the chunk that starts at `i`: the heap it leaves -/
def chunkBody (dst src : Ptr) (size ct : BitVec 64) (i : Nat) (hp : Heap) : Option Heap :=
  (parcpy_loop1 dst src size ct (hp, BitVec.ofNat 64 i)).map (fun r => r.2.1)

theorem genChunk_eq (size : BitVec 64) (nt : Int) : genChunk size nt = chunkBV size nt := by
  unfold genChunk chunkBV
  chunk_top nt

/-- the generated function is its chunk loop (through `BridgeNtt.parcpy_top`: no dependence on how the source spells the clamp) -/
theorem parcpy_unfold (fuel : Nat) (hp : Heap) (dst src : Ptr) (size : BitVec 64) (nt : Int) :
    parcpy fuel hp dst src size nt =
      (Loop.whileM (parcpy_loop1 dst src size (genChunk size nt)) fuel (hp, 0#64)).bind (fun st => some st.1) := by
  rw [parcpy_top, genChunk_eq]

/-- the hand model's chunk on block contents: `memcpy(&dst[i], &src[i], len)` -/
def cpyChunk (size : Nat) (nt : Int) (i : Nat) (s d : Block) : Block :=
  Model.Ntt.copyRow d i s i (len size nt i)

theorem toU64_threads (nt : Int) (hnt : nt < 2 ^ 31) :
    I32.toU64 (if (decide (nt < (1 : Int))) then (1 : Int) else nt) = bv (threads nt) := by
  unfold threads
  by_cases h : nt < 1
  · simp only [h, decide_true, if_true]
    exact toU64_nat 1
  · simp only [h, decide_false, if_false, Bool.false_eq_true]
    obtain ⟨n, rfl⟩ : ∃ n : Nat, nt = (n : Int) := ⟨nt.toNat, by omega⟩
    rw [toU64_nat, Int.toNat_natCast]

theorem threads_lt (nt : Int) (hnt : nt < 2 ^ 31) : threads nt < 2 ^ 31 := by
  unfold threads; split <;> omega

theorem genChunk_toNat (size : BitVec 64) (nt : Int) (hnt : nt < 2 ^ 31) (hs : size.toNat < 2 ^ 63) :
    (genChunk size nt).toNat = chunk size.toNat nt := by
  have hT := threads_pos nt
  have hT' := threads_lt nt hnt
  have hbT : (bv (threads nt)).toNat = threads nt := bv_toNat _ (by omega)
  unfold genChunk chunk
  rw [toU64_threads nt hnt]
  have h1 : (1#64 : BitVec 64).toNat = 1 := rfl
  have hnum : (size + bv (threads nt) - 1#64).toNat = size.toNat + threads nt - 1 := by
    rw [BitVec.toNat_sub, BitVec.toNat_add, hbT, h1]
    omega
  rw [BitVec.toNat_udiv, hnum, hbT]

theorem chunk_le (size : Nat) (nt : Int) : chunk size nt ≤ size := by
  unfold chunk
  have hT := threads_pos nt
  by_cases h0 : size = 0
  · subst h0
    rw [Nat.zero_add]
    exact Nat.le_of_eq (Nat.div_eq_of_lt (by omega))
  · apply Nat.div_le_of_le_mul
    obtain ⟨t, ht⟩ : ∃ t, threads nt = t + 1 := ⟨threads nt - 1, by omega⟩
    obtain ⟨s, hs⟩ : ∃ s, size = s + 1 := ⟨size - 1, by omega⟩
    rw [ht, hs, Nat.succ_mul, Nat.mul_succ]
    omega

/-- one chunk of the generated loop, from any heap: the copy, and the next start (through `BridgeNtt.parcpy_step`, the
    semantic reading of the lifted body: no dependence on how the source spells the chunk length) -/
theorem chunk_step (X : Heap) (D S : Nat) (size ct : BitVec 64) (i : Nat) (hi : i < size.toNat)
    (hs8 : size.toNat * 8 < 2 ^ 64) (hc : ct.toNat ≤ size.toNat) :
    parcpy_loop1 ⟨D, 0⟩ ⟨S, 0⟩ size ct (X, BitVec.ofNat 64 i) =
      some (true, (X.setBlock D (Model.Ntt.copyRow (X.block D) i (X.block S) i
        (if size.toNat - i < ct.toNat then size.toNat - i else ct.toNat)), BitVec.ofNat 64 (i + ct.toNat))) := by
  have e0 : (BitVec.ofNat 64 i).toNat = i := ofNat_toNat_lt i (by omega)
  have hlt : BitVec.ofNat 64 i < size := by rw [BitVec.lt_def, e0]; exact hi
  have enext : BitVec.ofNat 64 i + ct = BitVec.ofNat 64 (i + ct.toNat) := by
    apply BitVec.eq_of_toNat_eq
    rw [BitVec.toNat_add, BitVec.toNat_ofNat, BitVec.toNat_ofNat]
    omega
  have hmin : min (size.toNat - i) ct.toNat = (if size.toNat - i < ct.toNat then size.toNat - i else ct.toNat) := by
    split <;> omega
  rw [parcpy_step _ _ _ _ _ _ hs8 hc, if_pos hlt, enext, e0, hmin]
  simp only [Heap.copy_eq, Ptr.add_blk, Ptr.add_off, Nat.zero_add, copyRow_eq]

/-- the test of the generated loop fails from `size` on -/
theorem chunk_exit (X : Heap) (dst src : Ptr) (size ct : BitVec 64) (i : Nat) (hi : size.toNat ≤ i) (hi64 : i < 2 ^ 64)
    (hs8 : size.toNat * 8 < 2 ^ 64) (hc : ct.toNat ≤ size.toNat) :
    parcpy_loop1 dst src size ct (X, BitVec.ofNat 64 i) = some (false, (X, BitVec.ofNat 64 i)) := by
  have e0 : (BitVec.ofNat 64 i).toNat = i := ofNat_toNat_lt i hi64
  have hlt : ¬ (BitVec.ofNat 64 i < size) := by rw [BitVec.lt_def, e0]; omega
  rw [parcpy_step _ _ _ _ _ _ hs8 hc, if_neg hlt]

section seq
variable (hp : Heap) (D S : Nat) (hD : D < hp.size) (hne : D ≠ S) (size : BitVec 64) (nt : Int)
variable (hnt : nt < 2 ^ 31) (hs8 : size.toNat * 8 < 2 ^ 64)

include hD hne hnt hs8 in
/-- **per-iteration bridge**: for every chunk start of the hand model's list, the generated body on the representation
    `hp.setBlock D` is the hand model's chunk -/
theorem chunk_rep : ∀ i, i ∈ starts size.toNat nt → ∀ B : Block,
    chunkBody ⟨D, 0⟩ ⟨S, 0⟩ size (genChunk size nt) i (hp.setBlock D B) =
      some (hp.setBlock D (cpyChunk size.toNat nt i (hp.block S) B)) := by
  intro i hi B
  obtain ⟨_, _, _, hlt⟩ := (mem_starts size.toNat nt i).mp hi
  have hct := genChunk_toNat size nt hnt (by omega)
  have hcl := chunk_le size.toNat nt
  unfold chunkBody
  rw [chunk_step _ D S size _ i hlt hs8 (by rw [hct]; omega), hct]
  simp only [Option.map_some]
  rw [Heap.block_setBlock_same _ _ _ hD, Heap.block_setBlock_other _ _ _ _ (fun e => hne e.symm), Heap.setBlock_setBlock]
  rfl

include hD hne hs8 in
theorem parcpy_loop_seq (ct : BitVec 64) (hct : ct.toNat = chunk size.toNat nt) : ∀ (f fuel i : Nat) (B : Block),
    size.toNat ≤ i + f * ct.toNat → i ≤ size.toNat + ct.toNat → (startsAux size.toNat ct.toNat f i).length < fuel →
    ∃ i', Loop.whileM (parcpy_loop1 ⟨D, 0⟩ ⟨S, 0⟩ size ct) fuel (hp.setBlock D B, BitVec.ofNat 64 i) =
      some (hp.setBlock D ((startsAux size.toNat ct.toNat f i).foldl
        (fun B i => cpyChunk size.toNat nt i (hp.block S) B) B), i') := by
  have hcl := chunk_le size.toNat nt
  intro f
  induction f with
  | zero =>
    intro fuel i B h1 h2 hfu
    obtain ⟨fuel', rfl⟩ : ∃ g, fuel = g + 1 := ⟨fuel - 1, by simp [startsAux] at hfu; omega⟩
    refine ⟨BitVec.ofNat 64 i, ?_⟩
    rw [Loop.whileM_stop _ _ _ (hp.setBlock D B, BitVec.ofNat 64 i)]
    · rfl
    · exact chunk_exit _ _ _ size ct i (by omega) (by omega) hs8 (by rw [hct]; omega)
  | succ f ih =>
    intro fuel i B h1 h2 hfu
    have e0 : (BitVec.ofNat 64 i).toNat = i := ofNat_toNat_lt i (by omega)
    by_cases hi : i < size.toNat
    · have hst : startsAux size.toNat ct.toNat (f + 1) i = i :: startsAux size.toNat ct.toNat f (i + ct.toNat) := by
        rw [startsAux, if_pos hi]
      rw [hst] at hfu ⊢
      obtain ⟨fuel', rfl⟩ : ∃ g, fuel = g + 1 := ⟨fuel - 1, by simp at hfu; omega⟩
      rw [Loop.whileM_next _ _ _ _ (chunk_step _ D S size ct i hi hs8 (by rw [hct]; omega))]
      rw [Heap.block_setBlock_same _ _ _ hD, Heap.block_setBlock_other _ _ _ _ (fun e => hne e.symm),
        Heap.setBlock_setBlock, List.foldl_cons]
      have hm : (f + 1) * ct.toNat = f * ct.toNat + ct.toNat := Nat.succ_mul _ _
      obtain ⟨i', hw⟩ := ih fuel' (i + ct.toNat) _ (by omega) (by omega) (by simp at hfu; omega)
      refine ⟨i', ?_⟩
      rw [hw]
      unfold cpyChunk len
      rw [hct]
    · have hst : startsAux size.toNat ct.toNat (f + 1) i = [] := by rw [startsAux, if_neg hi]
      rw [hst] at hfu ⊢
      obtain ⟨fuel', rfl⟩ : ∃ g, fuel = g + 1 := ⟨fuel - 1, by simp at hfu; omega⟩
      refine ⟨BitVec.ofNat 64 i, ?_⟩
      rw [Loop.whileM_stop _ _ _ (hp.setBlock D B, BitVec.ofNat 64 i)]
      · rfl
      · exact chunk_exit _ _ _ size ct i (by omega) (by omega) hs8 (by rw [hct]; omega)

include hD hne hnt hs8 in
/-- **the generated `parcpy`** is the fold of the hand model's chunk over the hand model's chunk starts -/
theorem parcpy_seq (fuel : Nat) (hfuel : (starts size.toNat nt).length < fuel) :
    parcpy fuel hp ⟨D, 0⟩ ⟨S, 0⟩ size nt =
      some (hp.setBlock D ((starts size.toNat nt).foldl (fun B i => cpyChunk size.toNat nt i (hp.block S) B) (hp.block D))) := by
  have hct := genChunk_toNat size nt hnt (by omega)
  have hcl := chunk_le size.toNat nt
  rw [parcpy_unfold]
  have h0 : (0#64 : BitVec 64) = BitVec.ofNat 64 0 := rfl
  have hinit : size.toNat ≤ 0 + size.toNat * (genChunk size nt).toNat := by
    rw [hct, Nat.zero_add]
    by_cases hz : size.toNat = 0
    · omega
    · exact Nat.le_mul_of_pos_right _ (chunk_pos _ _ (by omega))
  obtain ⟨i', hw⟩ := parcpy_loop_seq hp D S hD hne size nt hs8 (genChunk size nt) hct size.toNat fuel 0 (hp.block D)
    hinit (by omega) (by rw [hct]; exact hfuel)
  rw [Heap.setBlock_block, ← h0] at hw
  rw [hw, hct]
  rfl

end seq

/-- the hand model's chunk is a writer: reads `[i, i+len)` of the source, writes `[i, i+len)` of the destination -/
theorem cpyChunk_writer (size : Nat) (nt : Int) (i : Nat) :
    Par.Writer (cpyChunk size nt i) (fun j => i ≤ j ∧ j < i + len size nt i) (fun j => i ≤ j ∧ j < i + len size nt i) :=
  Par.copyRow_writer i i (len size nt i)

end GoldilocksVerif.ParGen
