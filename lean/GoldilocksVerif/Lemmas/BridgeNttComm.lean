/-
  Bit-level commutativity of the translated scalar field multiplication and the closing tactic `close_shape` of the NTT
  bridge proofs (kept apart from Lemmas/BridgeNttTac.lean because it needs Lemmas/ScalarNat.lean, whose names must not be
  visible in every file that imports the bridge lemmas).
-/
import GoldilocksVerif.Lemmas.BridgeNttTac
import GoldilocksVerif.Lemmas.ScalarNat

namespace GoldilocksVerif.BridgeNtt

/-! ### the scalar field operations do not depend on the order of their operands (bit for bit) -/

theorem mul_e_comm (a b : BitVec 64) : Gen.Scalar.mul__eEE a b = Gen.Scalar.mul__eEE b a := by
  apply BitVec.eq_of_toNat_eq
  rw [GoldilocksVerif.mul_toNat, GoldilocksVerif.mul_toNat, Nat.mul_comm]

theorem mul_r_comm (a b : BitVec 64) : Gen.Scalar.mul__rEE a b = Gen.Scalar.mul__rEE b a := by
  show Gen.Scalar.mul__eEE a b = Gen.Scalar.mul__eEE b a
  exact mul_e_comm a b

/-- closes an equation between two terms of the same shape whose number arguments are provably equal (sums / products
    written in another order, `x * 2` / `x + x`) and whose field products may have swapped operands; also fine when the
    goal has already been closed -/
macro "close_shape" : tactic => `(tactic| all_goals (
  (try dsimp only)
  first
  | done
  | (with_reducible rfl)
  | grind [mul_e_comm, mul_r_comm]))

end GoldilocksVerif.BridgeNtt
