/-
  HISTORIES of calls on ONE object in the GENERATED model, second part (first part: Lemmas/BridgeNttHist.lean, whose `GCall`,
  `runG`, `gcall_step`, `runG_inv` are untouched): calls WITH an optional caller scratch buffer (`NTT`, `INTT`, `extendPol`) and
  with the `dst == NULL` (in place) form of `NTT` / `INTT`.

  `GCallB` is the second history type: the destination of `NTT` / `INTT` is `Option Nat` (`none` = the C++ caller passes `NULL`),
  the buffer of every call is `Option Nat` (`none` = `NULL`: the function allocates its own scratch).  `GCall.toB` embeds the
  first type (same run: `GCall.toB_run`).  The invariant is the SAME `GInv` as in the first part.
  `gcallB_step`: from a state satisfying `GInv`, a valid call returns, its destination block holds EXACTLY (bit for bit) what the
  hand model returns for the same arguments on the FRESH object `o0` (the hand model has no caller buffer: it takes fresh
  zero-filled scratch), the caller's blocks other than the destination and the scratch buffer are unchanged, the scratch buffer
  keeps its size, and `GInv` holds again.  `runGB_inv`: hence for every history.
  `GCallB.toRaw` maps a call to the raw-pointer `HeapSafe.Call` of the allocation-balance lemmas (Lemmas/HeapSafeOwn.lean).
-/
import GoldilocksVerif.Lemmas.BridgeNttHist
import GoldilocksVerif.Lemmas.BridgeNttExtendBuf
import GoldilocksVerif.Lemmas.HeapSafeOwn

namespace GoldilocksVerif.BridgeNtt
open GoldilocksVerif Gen.NttGen GoldilocksVerif.Model.Ntt

/-- an optional block number as the pointer the C++ caller passes: `none` = `NULL`, `some b` = the start of block `b` -/
def optPtr : Option Nat → Ptr
  | none => Ptr.null
  | some b => ⟨b, 0⟩

/-- what `NTT` / `INTT` do to the heap: same number of blocks, the destination block := `d`, the scratch buffer keeps its size,
    every other block unchanged -/
structure HeapUpd (hp hp' : Heap) (D : Nat) (buf : Option Nat) (d : Block) : Prop where
  size : hp'.size = hp.size
  dst : hp'.block D = d
  other : ∀ c, c ≠ D → buf ≠ some c → hp'.block c = hp.block c
  bufsz : ∀ B, buf = some B → (hp'.block B).size = (hp.block B).size

/-- the documented preconditions on a caller scratch buffer: an existing block, not NULL, another one than the destination's and
    the source's, not one of the object's, of at least `n` words -/
def ScratchOk (hp : Heap) (self : NTT_Goldilocks) (buf : Option Nat) (D Sx n : Nat) : Prop :=
  ∀ B, buf = some B → B < hp.size ∧ B ≠ 0 ∧ D ≠ B ∧ Sx ≠ B ∧ ObjFrame self B ∧ n ≤ (hp.block B).size

/-- `NTT`, buffer or not: `NTT_gen_all` / `NTT_gen_buf_all` in one statement -/
theorem NTT_gen_opt (fuel : Nat) (hp : Heap) (self : NTT_Goldilocks) (o : Model.Ntt.Obj)
    (hrep : ObjRep hp self o) (hin : ObjIn hp self) (D Sx : Nat) (buf : Option Nat) (hD : D < hp.size) (hSx : Sx < hp.size)
    (hD0 : D ≠ 0) (hfrD : ObjFrame self D) (mode : Model.Ntt.DstMode) (hmode : mode = .other ↔ D ≠ Sx)
    (dst : Ptr) (hdst : (if (dst == Ptr.null) = true then (⟨Sx, 0⟩ : Ptr) else dst) = ⟨D, 0⟩)
    (K N NC : Nat) (nphase nblock : BitVec 64) (inverse extend : Bool)
    (hK : K ≤ 30) (hN : N = 2 ^ K) (hKs : K ≤ o.s) (hos : o.s ≤ 32) (hNC1 : 1 ≤ NC)
    (hNNC8 : N * NC * 8 < 2 ^ 64) (hext31 : o.extension < 2 ^ 31) (hcache : extend = true → o.rcache ≠ none)
    (hf : itersFuel self K NC ≤ fuel) (hdsz : N * NC ≤ (hp.block D).size) (hbuf : ScratchOk hp self buf D Sx (N * NC)) :
    match Model.Ntt.ntt o mode (hp.block D) (hp.block Sx) N NC nphase.toNat nblock.toNat inverse extend with
    | .ok (d, _) => ∃ hp', NTT_NTT fuel hp self dst ⟨Sx, 0⟩ (bv N) (bv NC) (optPtr buf) nphase nblock inverse extend = some hp' ∧
        HeapUpd hp hp' D buf d
    | .error _ => NTT_NTT fuel hp self dst ⟨Sx, 0⟩ (bv N) (bv NC) (optPtr buf) nphase nblock inverse extend = none := by
  cases buf with
  | none =>
    have h := NTT_gen_all fuel hp self o hrep hin D Sx hD hSx hD0 hfrD mode hmode dst hdst K N NC nphase nblock inverse extend
      hK hN hKs hos hNC1 hNNC8 hext31 hcache hf
    cases hr : Model.Ntt.ntt o mode (hp.block D) (hp.block Sx) N NC nphase.toNat nblock.toNat inverse extend with
    | error e => rw [hr] at h; exact h
    | ok v =>
      obtain ⟨d, s⟩ := v
      rw [hr] at h
      exact ⟨_, h, by simp, Heap.block_setBlock_same _ _ _ hD, fun c hc _ => Heap.block_setBlock_other _ _ _ _ hc,
        fun B hB => by cases hB⟩
  | some B =>
    obtain ⟨hB, hB0, hDB, hSB, hfrB, hbsz⟩ := hbuf B rfl
    have h := NTT_gen_buf_all fuel hp self o hrep hin D Sx B hD hSx hB hD0 hB0 hDB hSB hfrD hfrB mode hmode dst hdst K N NC nphase
      nblock inverse extend hK hN hKs hos hNC1 hNNC8 hext31 hcache hf hdsz hbsz
    cases hr : Model.Ntt.ntt o mode (hp.block D) (hp.block Sx) N NC nphase.toNat nblock.toNat inverse extend with
    | error e => rw [hr] at h; exact h
    | ok v =>
      obtain ⟨d, s⟩ := v
      rw [hr] at h
      obtain ⟨X', h1, h2⟩ := h
      refine ⟨_, h1, by simp, ?_, ?_, ?_⟩
      · rw [Heap.block_setBlock_other _ _ _ _ hDB, Heap.block_setBlock_same _ _ _ hD]
      · intro c hc hcB
        have : c ≠ B := fun e => hcB (by rw [e])
        rw [Heap.block_setBlock_other _ _ _ _ this, Heap.block_setBlock_other _ _ _ _ hc]
      · intro B' hB'
        injection hB' with hB'
        rw [← hB', Heap.block_setBlock_same _ _ _ (by simp; exact hB), h2]

/-- `INTT`, buffer or not -/
theorem INTT_gen_opt (fuel : Nat) (hp : Heap) (self : NTT_Goldilocks) (o : Model.Ntt.Obj)
    (hrep : ObjRep hp self o) (hin : ObjIn hp self) (D Sx : Nat) (buf : Option Nat) (hD : D < hp.size) (hSx : Sx < hp.size)
    (hD0 : D ≠ 0) (hfrD : ObjFrame self D) (mode : Model.Ntt.DstMode) (hmode : mode = .other ↔ D ≠ Sx)
    (dst : Ptr) (hdst : (if (dst == Ptr.null) = true then (⟨Sx, 0⟩ : Ptr) else dst) = ⟨D, 0⟩)
    (K N NC : Nat) (nphase nblock : BitVec 64) (extend : Bool)
    (hK : K ≤ 30) (hN : N = 2 ^ K) (hKs : K ≤ o.s) (hos : o.s ≤ 32) (hNC1 : 1 ≤ NC)
    (hNNC8 : N * NC * 8 < 2 ^ 64) (hext31 : o.extension < 2 ^ 31) (hcache : extend = true → o.rcache ≠ none)
    (hf : itersFuel self K NC ≤ fuel) (hdsz : N * NC ≤ (hp.block D).size) (hbuf : ScratchOk hp self buf D Sx (N * NC)) :
    match Model.Ntt.intt o mode (hp.block D) (hp.block Sx) N NC nphase.toNat nblock.toNat extend with
    | .ok (d, _) => ∃ hp', NTT_INTT fuel hp self dst ⟨Sx, 0⟩ (bv N) (bv NC) (optPtr buf) nphase nblock extend = some hp' ∧
        HeapUpd hp hp' D buf d
    | .error _ => NTT_INTT fuel hp self dst ⟨Sx, 0⟩ (bv N) (bv NC) (optPtr buf) nphase nblock extend = none := by
  cases buf with
  | none =>
    have h := INTT_gen_all fuel hp self o hrep hin D Sx hD hSx hD0 hfrD mode hmode dst hdst K N NC nphase nblock extend
      hK hN hKs hos hNC1 hNNC8 hext31 hcache hf
    cases hr : Model.Ntt.intt o mode (hp.block D) (hp.block Sx) N NC nphase.toNat nblock.toNat extend with
    | error e => rw [hr] at h; exact h
    | ok v =>
      obtain ⟨d, s⟩ := v
      rw [hr] at h
      exact ⟨_, h, by simp, Heap.block_setBlock_same _ _ _ hD, fun c hc _ => Heap.block_setBlock_other _ _ _ _ hc,
        fun B hB => by cases hB⟩
  | some B =>
    obtain ⟨hB, hB0, hDB, hSB, hfrB, hbsz⟩ := hbuf B rfl
    have h := INTT_gen_buf_all fuel hp self o hrep hin D Sx B hD hSx hB hD0 hB0 hDB hSB hfrD hfrB mode hmode dst hdst K N NC nphase
      nblock extend hK hN hKs hos hNC1 hNNC8 hext31 hcache hf hdsz hbsz
    cases hr : Model.Ntt.intt o mode (hp.block D) (hp.block Sx) N NC nphase.toNat nblock.toNat extend with
    | error e => rw [hr] at h; exact h
    | ok v =>
      obtain ⟨d, s⟩ := v
      rw [hr] at h
      obtain ⟨X', h1, h2⟩ := h
      refine ⟨_, h1, by simp, ?_, ?_, ?_⟩
      · rw [Heap.block_setBlock_other _ _ _ _ hDB, Heap.block_setBlock_same _ _ _ hD]
      · intro c hc hcB
        have : c ≠ B := fun e => hcB (by rw [e])
        rw [Heap.block_setBlock_other _ _ _ _ this, Heap.block_setBlock_other _ _ _ _ hc]
      · intro B' hB'
        injection hB' with hB'
        rw [← hB', Heap.block_setBlock_same _ _ _ (by simp; exact hB), h2]

/-- `extendPol`, buffer or not: `extendPol_gen_eq` / `extendPol_gen_buf_eq` in one statement -/
theorem extendPol_gen_opt (fuel : Nat) (hf : 64 ≤ fuel) (hp : Heap) (self : NTT_Goldilocks) (o : Obj)
    (hrep : ObjRep hp self o) (hin : ObjIn hp self) (hdisj : ObjDisj self) (hos : o.s ≤ 32) (hext31 : o.extension < 2 ^ 31)
    (Out In : Nat) (buf : Option Nat) (hOut : Out < hp.size) (hIn : In < hp.size) (hOut0 : Out ≠ 0)
    (hfrOut : ObjFrame self Out) (hfrIn : ObjFrame self In)
    (dn de nc : Nat) (hde : dn ≤ de) (hde30 : de ≤ 30) (hdns : dn ≤ o.s) (hnc : 1 ≤ nc)
    (hbound : 2 ^ de * nc * 8 < 2 ^ 64) (nphase nblock : BitVec 64)
    (hout : 2 ^ de * nc ≤ (hp.block Out).size) (hf1 : dn = 0 → nc < fuel) (hbuf : ScratchOk hp self buf Out In (2 ^ de * nc)) :
    match extendPol o (decide (Out = In)) (hp.block Out) (hp.block In) (2 ^ de) (2 ^ dn) nc nphase.toNat nblock.toNat with
    | .ok (o', out) => ∃ hp' self',
        NTT_extendPol fuel hp self ⟨Out, 0⟩ ⟨In, 0⟩ (bv (2 ^ de)) (bv (2 ^ dn)) (bv nc) (optPtr buf) nphase nblock =
          some (hp', self') ∧
        hp'.block Out = out ∧ ObjRep hp' self' o' ∧ ObjIn hp' self' ∧ ObjDisj self' ∧ hp.size ≤ hp'.size ∧
        (∀ B, buf = some B → (hp'.block B).size = (hp.block B).size) ∧
        (∀ c, c < hp.size → c ≠ Out → buf ≠ some c → ObjFrame self c → hp'.block c = hp.block c) ∧
        (∀ c, c < hp.size → ObjFrame self c → ObjFrame self' c)
    | .error _ =>
        NTT_extendPol fuel hp self ⟨Out, 0⟩ ⟨In, 0⟩ (bv (2 ^ de)) (bv (2 ^ dn)) (bv nc) (optPtr buf) nphase nblock = none := by
  cases buf with
  | none =>
    have h := extendPol_gen_eq fuel hf hp self o hrep hin hdisj hos hext31 Out In hOut hIn hOut0 hfrOut hfrIn dn de nc hde hde30 hdns
      hnc hbound nphase nblock hout hf1
    cases hr : extendPol o (decide (Out = In)) (hp.block Out) (hp.block In) (2 ^ de) (2 ^ dn) nc nphase.toNat nblock.toNat with
    | error e => rw [hr] at h; exact h
    | ok v =>
      obtain ⟨o', out⟩ := v
      rw [hr] at h
      obtain ⟨hp', self', a1, a2, a3, a4, a5, a6, a7, a8⟩ := h
      exact ⟨hp', self', a1, a2, a3, a4, a5, a6, (fun B hB => by cases hB), fun c h1 h2 _ h3 => a7 c h1 h2 h3, a8⟩
  | some B =>
    obtain ⟨hB, hB0, hDB, hSB, hfrB, hbsz⟩ := hbuf B rfl
    have h := extendPol_gen_buf_eq fuel hf hp self o hrep hin hdisj hos hext31 Out In B hOut hIn hB hOut0 hB0 hDB hSB hfrOut hfrIn
      hfrB dn de nc hde hde30 hdns hnc hbound nphase nblock hout hbsz hf1
    cases hr : extendPol o (decide (Out = In)) (hp.block Out) (hp.block In) (2 ^ de) (2 ^ dn) nc nphase.toNat nblock.toNat with
    | error e => rw [hr] at h; exact h
    | ok v =>
      obtain ⟨o', out⟩ := v
      rw [hr] at h
      obtain ⟨hp', self', a1, a2, a3, a4, a5, a6, a7, a8, a9⟩ := h
      refine ⟨hp', self', a1, a2, a3, a4, a5, a6, ?_, ?_, a9⟩
      · intro B' hB'
        injection hB' with hB'
        rw [← hB']; exact a7
      · intro c h1 h2 h3 h4
        exact a8 c h1 h2 (fun e => h3 (by rw [e])) h4

/-! ### the second history type -/

/-- one call of the public interface on the generated model.  `dst : Option Nat` — `none`: the caller passes `dst == NULL`
    (in place), `some D`: the start of block `D` (`D = Sx`: in place through the same pointer); `buf : Option Nat` — `none`:
    `buffer == NULL`, `some B`: the caller's scratch block -/
inductive GCallB where
  | ntt (dst : Option Nat) (Sx d nc : Nat) (buf : Option Nat) (nphase nblock : BitVec 64)
  | intt (dst : Option Nat) (Sx d nc : Nat) (buf : Option Nat) (nphase nblock : BitVec 64)
  | extendPol (Out In de dn nc : Nat) (buf : Option Nat) (nphase nblock : BitVec 64)

/-- run one call of the TRANSLATED functions -/
def GCallB.run (fuel : Nat) (st : Heap × NTT_Goldilocks) : GCallB → Option (Heap × NTT_Goldilocks)
  | .ntt dst Sx d nc buf np nb =>
    (NTT_NTT fuel st.1 st.2 (optPtr dst) ⟨Sx, 0⟩ (bv (2 ^ d)) (bv nc) (optPtr buf) np nb false false).bind fun hp => some (hp, st.2)
  | .intt dst Sx d nc buf np nb =>
    (NTT_INTT fuel st.1 st.2 (optPtr dst) ⟨Sx, 0⟩ (bv (2 ^ d)) (bv nc) (optPtr buf) np nb false).bind fun hp => some (hp, st.2)
  | .extendPol Out In de dn nc buf np nb =>
    NTT_extendPol fuel st.1 st.2 ⟨Out, 0⟩ ⟨In, 0⟩ (bv (2 ^ de)) (bv (2 ^ dn)) (bv nc) (optPtr buf) np nb

/-- a history: the state is threaded through the calls -/
def runGB (fuel : Nat) : Heap × NTT_Goldilocks → List GCallB → Option (Heap × NTT_Goldilocks)
  | st, [] => some st
  | st, c :: cs => (c.run fuel st).bind fun st' => runGB fuel st' cs

/-- the destination block of a call (`dst == NULL`: the source block) -/
def GCallB.dst : GCallB → Nat
  | .ntt dst Sx _ _ _ _ _ => dst.getD Sx
  | .intt dst Sx _ _ _ _ _ => dst.getD Sx
  | .extendPol Out _ _ _ _ _ _ _ => Out

/-- the caller scratch buffer of a call -/
def GCallB.buf : GCallB → Option Nat
  | .ntt _ _ _ _ buf _ _ => buf
  | .intt _ _ _ _ buf _ _ => buf
  | .extendPol _ _ _ _ _ buf _ _ => buf

/-- the hand model's destination mode -/
def dstMode (dst : Option Nat) (Sx : Nat) : DstMode :=
  match dst with
  | none => .null
  | some D => if D = Sx then .same else .other

/-- the hand model's call with the same arguments (it has no caller buffer); the buffers are the current contents of the blocks -/
def GCallB.toCall (hp : Heap) : GCallB → Call
  | .ntt dst Sx d nc _ np nb => .ntt (dstMode dst Sx) (hp.block (dst.getD Sx)) (hp.block Sx) (2 ^ d) nc np.toNat nb.toNat
  | .intt dst Sx d nc _ np nb => .intt (dstMode dst Sx) (hp.block (dst.getD Sx)) (hp.block Sx) (2 ^ d) nc np.toNat nb.toNat
  | .extendPol Out In de dn nc _ np nb =>
    .extendPol (decide (Out = In)) (hp.block Out) (hp.block In) (2 ^ de) (2 ^ dn) nc np.toNat nb.toNat

/-- the documented preconditions on the caller scratch buffer of a call, in terms of the caller's blocks `U` and their sizes `sz` -/
def BufArg (U : Nat → Prop) (sz : Nat → Nat) (buf : Option Nat) (D Sx n : Nat) : Prop :=
  ∀ B, buf = some B → U B ∧ B ≠ D ∧ B ≠ Sx ∧ n ≤ sz B

/-- a call the theorems cover: as `GCall.ok`, plus the scratch buffer (when given) is a caller block other than the destination's
    and the source's, large enough -/
def GCallB.ok (m fuel : Nat) (U : Nat → Prop) (sz : Nat → Nat) : GCallB → Prop
  | .ntt dst Sx d nc buf _ _ => U (dst.getD Sx) ∧ U Sx ∧ d ≤ 30 ∧ 2 ^ d ≤ m ∧ 1 ≤ nc ∧ 2 ^ d * nc * 8 < 2 ^ 64 ∧
      2 ^ d * nc ≤ sz (dst.getD Sx) ∧ (d = 0 → nc < fuel) ∧ BufArg U sz buf (dst.getD Sx) Sx (2 ^ d * nc)
  | .intt dst Sx d nc buf _ _ => U (dst.getD Sx) ∧ U Sx ∧ d ≤ 30 ∧ 2 ^ d ≤ m ∧ 1 ≤ nc ∧ 2 ^ d * nc * 8 < 2 ^ 64 ∧
      2 ^ d * nc ≤ sz (dst.getD Sx) ∧ (d = 0 → nc < fuel) ∧ BufArg U sz buf (dst.getD Sx) Sx (2 ^ d * nc)
  | .extendPol Out In de dn nc buf _ _ => U Out ∧ U In ∧ dn ≤ de ∧ de ≤ 30 ∧ 2 ^ dn ≤ m ∧ 1 ≤ nc ∧ 2 ^ de * nc * 8 < 2 ^ 64 ∧
      2 ^ de * nc ≤ sz Out ∧ (dn = 0 → nc < fuel) ∧ BufArg U sz buf Out In (2 ^ de * nc)

/-- the first history type inside the second -/
def GCall.toB : GCall → GCallB
  | .ntt D Sx d nc np nb => .ntt (some D) Sx d nc none np nb
  | .intt D Sx d nc np nb => .intt (some D) Sx d nc none np nb
  | .extendPol Out In de dn nc np nb => .extendPol Out In de dn nc none np nb

theorem GCall.toB_run (fuel : Nat) (st : Heap × NTT_Goldilocks) (c : GCall) : c.toB.run fuel st = c.run fuel st := by
  cases c <;> rfl

theorem GCall.toB_ok (m fuel : Nat) (U : Nat → Prop) (sz : Nat → Nat) (c : GCall) (h : c.ok m fuel U sz) : c.toB.ok m fuel U sz := by
  cases c with
  | ntt D Sx d nc np nb =>
    obtain ⟨a1, a2, a3, a4, a5, a6, a7, a8⟩ := h
    exact ⟨a1, a2, a3, a4, a5, a6, a7, a8, fun B hB => by cases hB⟩
  | intt D Sx d nc np nb =>
    obtain ⟨a1, a2, a3, a4, a5, a6, a7, a8⟩ := h
    exact ⟨a1, a2, a3, a4, a5, a6, a7, a8, fun B hB => by cases hB⟩
  | extendPol Out In de dn nc np nb =>
    obtain ⟨a1, a2, a3, a4, a5, a6, a7, a8, a9⟩ := h
    exact ⟨a1, a2, a3, a4, a5, a6, a7, a8, a9, fun B hB => by cases hB⟩

theorem runG_toB (fuel : Nat) (cs : List GCall) : ∀ st, runGB fuel st (cs.map GCall.toB) = runG fuel st cs := by
  induction cs with
  | nil => intro st; rfl
  | cons c cs ih =>
    intro st
    simp only [List.map_cons, runGB, runG, GCall.toB_run]
    cases c.run fuel st with
    | none => rfl
    | some st' => exact ih st'

/-- pointer and mode of an optional destination -/
theorem dst_facts (dst : Option Nat) (Sx : Nat) (h0 : dst.getD Sx ≠ 0) :
    (dstMode dst Sx = .other ↔ dst.getD Sx ≠ Sx) ∧
    (if (optPtr dst == Ptr.null) = true then (⟨Sx, 0⟩ : Ptr) else optPtr dst) = ⟨dst.getD Sx, 0⟩ := by
  cases dst with
  | none =>
    refine ⟨?_, ?_⟩
    · simp [dstMode]
    · have : ((Ptr.null : Ptr) == Ptr.null) = true := by decide
      show (if (Ptr.null == Ptr.null) = true then (⟨Sx, 0⟩ : Ptr) else Ptr.null) = ⟨Sx, 0⟩
      rw [if_pos this]
  | some D =>
    have hD0 : D ≠ 0 := h0
    refine ⟨?_, ?_⟩
    · show (if D = Sx then DstMode.same else DstMode.other) = DstMode.other ↔ D ≠ Sx
      by_cases h : D = Sx <;> simp [h]
    · show (if ((⟨D, 0⟩ : Ptr) == Ptr.null) = true then (⟨Sx, 0⟩ : Ptr) else ⟨D, 0⟩) = ⟨D, 0⟩
      rw [ptr_beq_null D hD0]; rfl

/-- a heap update by `NTT` / `INTT` on the caller's blocks keeps the history invariant -/
theorem GInv.upd {o0 : Obj} {n0 : Nat} {U : Nat → Prop} {sz : Nat → Nat} {hp hp' : Heap} {self : NTT_Goldilocks}
    (h : GInv o0 n0 U sz (hp, self)) {D : Nat} {buf : Option Nat} {out : Block} (hu : HeapUpd hp hp' D buf out)
    (uD : U D) (uB : ∀ B, buf = some B → U B) (hsz : out.size = (hp.block D).size) : GInv o0 n0 U sz (hp', self) := by
  obtain ⟨⟨o, hbase, hwf, hrep⟩, hin, hdisj, hsize, huser⟩ := h
  simp only at hrep hin hdisj hsize huser
  refine ⟨⟨o, hbase, hwf, ?_⟩, ?_, hdisj, ?_, ?_⟩
  · apply hrep.frame
    intro c hc
    have key : ∀ x, U x → c ≠ x := by
      intro x ux e
      obtain ⟨b1, b2, b3, b4⟩ := (huser x ux).2.2.1
      rw [e] at hc
      rcases hc with h | h | h | h
      exacts [b1 h, b2 h, b3 h, b4 h]
    exact hu.other c (key D uD) (fun e => key c (uB c e) rfl)
  · show ObjIn hp' self
    unfold ObjIn
    rw [hu.size]
    exact hin
  · show n0 ≤ hp'.size
    rw [hu.size]; exact hsize
  · intro c uc
    obtain ⟨h1, h2, h3, h4⟩ := huser c uc
    refine ⟨h1, h2, h3, ?_⟩
    show (hp'.block c).size = sz c
    by_cases hcD : c = D
    · rw [hcD, hu.dst, hsz, ← hcD, h4]
    · by_cases hcB : buf = some c
      · rw [hu.bufsz c hcB, h4]
      · rw [hu.other c hcD hcB, h4]

/-- **the caller allocates a new buffer between two calls** (a block with any content `a`, as `Driver/NttG.lean` does for the data of
    every call): the invariant holds again, re-based — the new block joins the caller's blocks -/
theorem GInv.callerAlloc {o0 : Obj} {n0 : Nat} {U : Nat → Prop} {sz : Nat → Nat} {hp : Heap} {self : NTT_Goldilocks}
    (h : GInv o0 n0 U sz (hp, self)) (a : Block) :
    GInv o0 (hp.size + 1) (fun c => U c ∨ c = hp.size) (fun c => if c = hp.size then a.size else sz c)
      ((hp.allocWith a).1, self) := by
  obtain ⟨⟨o, hbase, hwf, hrep⟩, hin, hdisj, hsize, huser⟩ := h
  simp only at hrep hin hdisj hsize huser
  have hpos : 0 < hp.size := by have := hin.1; omega
  have hpush : (hp.allocWith a).1 = hp.push a := rfl
  rw [hpush]
  refine ⟨⟨o, hbase, hwf, hrep.push hin a⟩, hin.push a, hdisj, by simp, ?_⟩
  intro c hc
  show c < hp.size + 1 ∧ c ≠ 0 ∧ ObjFrame self c ∧ ((hp.push a).block c).size = (if c = hp.size then a.size else sz c)
  rcases hc with uc | rfl
  · obtain ⟨h1, h2, h3, h4⟩ := huser c uc
    have hlt : c < hp.size := by omega
    refine ⟨by omega, h2, h3, ?_⟩
    rw [Heap.block_push_lt _ _ _ hlt, if_neg (by omega), h4]
  · refine ⟨by omega, by omega, ObjIn.frame_ge hin _ (Nat.le_refl _), ?_⟩
    rw [Heap.block_push_last _ _ _ rfl, if_pos rfl]

section step
variable (m e : Nat) (o0 : Obj) (hobj : mkObj m e = some o0) (he : e ≤ 1)
variable (fuel : Nat) (hf : 64 ≤ fuel) (n0 : Nat) (U : Nat → Prop) (sz : Nat → Nat)

include hobj he in
/-- what the constructed object gives for a size within its domain -/
theorem hist_obj (o : Obj) (hbase : o.base = o0) (d : Nat) (hd : 2 ^ d ≤ m) :
    d ≤ o.s ∧ o.s ≤ 32 ∧ o.extension < 2 ^ 31 ∧ ObjOk o0 (log2 m) ∧ d ≤ log2 m := by
  have hm : m ≠ 0 := by have := Nat.two_pow_pos d; omega
  obtain ⟨s1, s2, s3⟩ := mkObj_s_val m e o0 hm hobj
  have hdl : d ≤ log2 m := (Nat.le_log2 hm).mpr hd
  have e1 : o.s = o0.s := by rw [← hbase]; rfl
  have e2 : o.extension = o0.extension := by rw [← hbase]; rfl
  exact ⟨by rw [e1]; omega, by rw [e1]; exact s2, by rw [e2, s3]; omega, mkObj_ok m e o0 hm he hobj, hdl⟩

/-- the model's destination buffer selection, given the mode / block correspondence -/
theorem sel_dst (hp : Heap) (mode : DstMode) (D Sx : Nat) (hmode : mode = .other ↔ D ≠ Sx) :
    (if mode = DstMode.other then hp.block D else hp.block Sx) = hp.block D := by
  by_cases h : D = Sx
  · have : mode ≠ .other := fun e => (hmode.mp e) h
    rw [if_neg this, h]
  · rw [if_pos (hmode.mpr h)]

include hobj he hf in
/-- one `NTT` after any history (destination pointer `dptr` designating block `D`, NULL included; buffer or not) -/
theorem ntt_hist_step (st : Heap × NTT_Goldilocks) (hinv : GInv o0 n0 U sz st) (D Sx d nc : Nat) (buf : Option Nat)
    (np nb : BitVec 64) (mode : DstMode) (dptr : Ptr) (hmode : mode = .other ↔ D ≠ Sx)
    (hdst : (if (dptr == Ptr.null) = true then (⟨Sx, 0⟩ : Ptr) else dptr) = ⟨D, 0⟩)
    (uD : U D) (uS : U Sx) (hd30 : d ≤ 30) (hdm : 2 ^ d ≤ m) (hnc : 1 ≤ nc) (hbound : 2 ^ d * nc * 8 < 2 ^ 64)
    (hszD : 2 ^ d * nc ≤ sz D) (hf1 : d = 0 → nc < fuel) (hbuf : BufArg U sz buf D Sx (2 ^ d * nc)) :
    ∃ hp' out src, NTT_NTT fuel st.1 st.2 dptr ⟨Sx, 0⟩ (bv (2 ^ d)) (bv nc) (optPtr buf) np nb false false = some hp' ∧
      ntt o0 mode (st.1.block D) (st.1.block Sx) (2 ^ d) nc np.toNat nb.toNat false false = .ok (out, src) ∧
      hp'.block D = out ∧ (∀ b, U b → b ≠ D → buf ≠ some b → hp'.block b = st.1.block b) ∧
      GInv o0 n0 U sz (hp', st.2) := by
  obtain ⟨hp, self⟩ := st
  have hinv' := hinv
  obtain ⟨⟨o, hbase, hwf, hrep⟩, hin, hdisj, hsize, huser⟩ := hinv
  simp only at hrep hin hdisj hsize huser
  obtain ⟨hDn, hD0, hfrD, hDsz⟩ := huser D uD
  obtain ⟨hSn, hS0, hfrS, hSsz⟩ := huser Sx uS
  obtain ⟨k1, k2, k3, hO, hdl⟩ := hist_obj m e o0 hobj he o hbase d hdm
  have hsel := sel_dst hp mode D Sx hmode
  obtain ⟨out, eo, hosz, _⟩ := ntt_spec o0 mode (hp.block D) (hp.block Sx) d nc np.toNat nb.toNat
    false false (hO.mono hdl).dle (hO.mono hdl).roots hnc (by rw [hsel]; omega)
  have hscr : ScratchOk hp self buf D Sx (2 ^ d * nc) := by
    intro B hB
    obtain ⟨uB, b1, b2, b3⟩ := hbuf B hB
    obtain ⟨c1, c2, c3, c4⟩ := huser B uB
    exact ⟨by omega, c2, Ne.symm b1, Ne.symm b2, c3, by omega⟩
  have hg := NTT_gen_opt fuel hp self o hrep hin D Sx buf (by omega) (by omega) hD0 hfrD mode hmode dptr hdst d (2 ^ d) nc np nb
    false false hd30 rfl k1 k2 hnc hbound k3 (by intro h; cases h) (itersFuel_le self d nc fuel hf hf1) (by omega) hscr
  rw [ntt_base, hbase, eo] at hg
  obtain ⟨hp', hrun, hu⟩ := hg
  exact ⟨hp', out, _, hrun, eo, hu.dst, fun b _ h1 h2 => hu.other b h1 h2,
    hinv'.upd hu uD (fun B hB => (hbuf B hB).1) (by rw [hosz, hsel])⟩

include hobj he hf in
/-- one `INTT` after any history -/
theorem intt_hist_step (st : Heap × NTT_Goldilocks) (hinv : GInv o0 n0 U sz st) (D Sx d nc : Nat) (buf : Option Nat)
    (np nb : BitVec 64) (mode : DstMode) (dptr : Ptr) (hmode : mode = .other ↔ D ≠ Sx)
    (hdst : (if (dptr == Ptr.null) = true then (⟨Sx, 0⟩ : Ptr) else dptr) = ⟨D, 0⟩)
    (uD : U D) (uS : U Sx) (hd30 : d ≤ 30) (hdm : 2 ^ d ≤ m) (hnc : 1 ≤ nc) (hbound : 2 ^ d * nc * 8 < 2 ^ 64)
    (hszD : 2 ^ d * nc ≤ sz D) (hf1 : d = 0 → nc < fuel) (hbuf : BufArg U sz buf D Sx (2 ^ d * nc)) :
    ∃ hp' out src, NTT_INTT fuel st.1 st.2 dptr ⟨Sx, 0⟩ (bv (2 ^ d)) (bv nc) (optPtr buf) np nb false = some hp' ∧
      intt o0 mode (st.1.block D) (st.1.block Sx) (2 ^ d) nc np.toNat nb.toNat false = .ok (out, src) ∧
      hp'.block D = out ∧ (∀ b, U b → b ≠ D → buf ≠ some b → hp'.block b = st.1.block b) ∧
      GInv o0 n0 U sz (hp', st.2) := by
  obtain ⟨hp, self⟩ := st
  have hinv' := hinv
  obtain ⟨⟨o, hbase, hwf, hrep⟩, hin, hdisj, hsize, huser⟩ := hinv
  simp only at hrep hin hdisj hsize huser
  obtain ⟨hDn, hD0, hfrD, hDsz⟩ := huser D uD
  obtain ⟨hSn, hS0, hfrS, hSsz⟩ := huser Sx uS
  obtain ⟨k1, k2, k3, hO, hdl⟩ := hist_obj m e o0 hobj he o hbase d hdm
  have hsel := sel_dst hp mode D Sx hmode
  obtain ⟨out, eo, hosz, _⟩ := intt_spec o0 mode (hp.block D) (hp.block Sx) d nc np.toNat nb.toNat
    false (hO.mono hdl).dle (hO.mono hdl).roots hnc (by rw [hsel]; omega)
  have hscr : ScratchOk hp self buf D Sx (2 ^ d * nc) := by
    intro B hB
    obtain ⟨uB, b1, b2, b3⟩ := hbuf B hB
    obtain ⟨c1, c2, c3, c4⟩ := huser B uB
    exact ⟨by omega, c2, Ne.symm b1, Ne.symm b2, c3, by omega⟩
  have hg := INTT_gen_opt fuel hp self o hrep hin D Sx buf (by omega) (by omega) hD0 hfrD mode hmode dptr hdst d (2 ^ d) nc np nb
    false hd30 rfl k1 k2 hnc hbound k3 (by intro h; cases h) (itersFuel_le self d nc fuel hf hf1) (by omega) hscr
  rw [intt_base, hbase, eo] at hg
  obtain ⟨hp', hrun, hu⟩ := hg
  exact ⟨hp', out, _, hrun, eo, hu.dst, fun b _ h1 h2 => hu.other b h1 h2,
    hinv'.upd hu uD (fun B hB => (hbuf B hB).1) (by rw [hosz, hsel])⟩

include hobj he hf in
/-- one `extendPol` after any history, buffer or not -/
theorem extendPol_hist_step (st : Heap × NTT_Goldilocks) (hinv : GInv o0 n0 U sz st) (Out In de dn nc : Nat) (buf : Option Nat)
    (np nb : BitVec 64) (uO : U Out) (uI : U In) (hde : dn ≤ de) (hde30 : de ≤ 30) (hdm : 2 ^ dn ≤ m) (hnc : 1 ≤ nc)
    (hbound : 2 ^ de * nc * 8 < 2 ^ 64) (hszO : 2 ^ de * nc ≤ sz Out) (hf1 : dn = 0 → nc < fuel)
    (hbuf : BufArg U sz buf Out In (2 ^ de * nc)) :
    ∃ st' out o', NTT_extendPol fuel st.1 st.2 ⟨Out, 0⟩ ⟨In, 0⟩ (bv (2 ^ de)) (bv (2 ^ dn)) (bv nc) (optPtr buf) np nb = some st' ∧
      extendPol o0 (decide (Out = In)) (st.1.block Out) (st.1.block In) (2 ^ de) (2 ^ dn) nc np.toNat nb.toNat = .ok (o', out) ∧
      st'.1.block Out = out ∧ (∀ b, U b → b ≠ Out → buf ≠ some b → st'.1.block b = st.1.block b) ∧
      GInv o0 n0 U sz st' := by
  obtain ⟨hp, self⟩ := st
  obtain ⟨⟨o, hbase, hwf, hrep⟩, hin, hdisj, hsize, huser⟩ := hinv
  simp only at hrep hin hdisj hsize huser
  obtain ⟨hOn, hO0, hfrO, hOsz⟩ := huser Out uO
  obtain ⟨hIn', hI0, hfrI, hIsz⟩ := huser In uI
  obtain ⟨k1, k2, k3, hO, hdl⟩ := hist_obj m e o0 hobj he o hbase dn hdm
  -- the model does not abort, on the object with its cache and (same result) on the fresh object
  have hset : setCache o0 o.rcache = o := by rw [← hbase]; cases o; rfl
  have hOo : ObjOk o (log2 m) := by
    have := hO.setCache o.rcache (by rw [hset]; exact hwf)
    rw [hset] at this; exact this
  have hosize : 2 ^ de * nc ≤ (if decide (Out = In) = true then hp.block In else hp.block Out).size := by
    by_cases h : Out = In
    · subst h; simp; omega
    · simp [h]; omega
  obtain ⟨o', out, eo, hosz, hwf', hbase', _⟩ := extendPol_spec o _ hOo (decide (Out = In)) (hp.block Out) (hp.block In) dn de nc
    np.toNat nb.toNat hdl hde (by omega) hnc hosize
  have hscr : ScratchOk hp self buf Out In (2 ^ de * nc) := by
    intro B hB
    obtain ⟨uB, b1, b2, b3⟩ := hbuf B hB
    obtain ⟨c1, c2, c3, c4⟩ := huser B uB
    exact ⟨by omega, c2, Ne.symm b1, Ne.symm b2, c3, by omega⟩
  have hg := extendPol_gen_opt fuel hf hp self o hrep hin hdisj k2 k3 Out In buf (by omega) (by omega) hO0 hfrO hfrI dn de nc hde
    hde30 k1 hnc hbound np nb (by omega) hf1 hscr
  rw [eo] at hg
  obtain ⟨hp', self', hrun, hblk, hrep', hin', hdisj', hsz', hbsz, hkeep, hfr'⟩ := hg
  have efresh : extendPol o0 (decide (Out = In)) (hp.block Out) (hp.block In) (2 ^ de) (2 ^ dn) nc np.toNat nb.toNat =
      .ok (setCache o0 o'.rcache, out) := by
    have := extendPol_base o hwf (decide (Out = In)) (hp.block Out) (hp.block In) (2 ^ de) (2 ^ dn) nc np.toNat nb.toNat
    rw [hbase, eo] at this
    rw [← this]
    have : setCache o0 o'.rcache = o' := by rw [← hbase, ← hbase']; cases o'; rfl
    rw [this]
  have hosz' : out.size = (hp.block Out).size := by
    rw [hosz]
    by_cases h : Out = In
    · subst h; simp
    · simp [h]
  refine ⟨(hp', self'), out, _, hrun, efresh, hblk, ?_, ?_⟩
  · intro b ub hb' hbb
    obtain ⟨h1, h2, h3, h4⟩ := huser b ub
    exact hkeep b (by omega) hb' hbb h3
  · refine ⟨⟨o', by rw [hbase', hbase], hwf', hrep'⟩, hin', hdisj', by simp only; omega, ?_⟩
    intro c uc
    obtain ⟨h1, h2, h3, h4⟩ := huser c uc
    refine ⟨h1, h2, hfr' c (by omega) h3, ?_⟩
    show (hp'.block c).size = _
    by_cases hcO : c = Out
    · rw [hcO, hblk, hosz', ← hcO, h4]
    · by_cases hcB : buf = some c
      · rw [hbsz c hcB, h4]
      · rw [hkeep c (by omega) hcO hcB h3, h4]

include hobj he hf in
/-- **one call after any history, buffers and `dst == NULL` included**: it returns; the destination block holds exactly what the
    hand model returns for the same arguments on the FRESH object; the caller's blocks other than the destination and the scratch
    buffer are unchanged; the invariant holds again (in particular the scratch buffer keeps its size) -/
theorem gcallB_step (st : Heap × NTT_Goldilocks) (hinv : GInv o0 n0 U sz st) (c : GCallB) (hok : c.ok m fuel U sz) :
    ∃ st' out src, c.run fuel st = some st' ∧ ((c.toCall st.1).run o0).2 = .ok (out, src) ∧ st'.1.block c.dst = out ∧
      (∀ b, U b → b ≠ c.dst → c.buf ≠ some b → st'.1.block b = st.1.block b) ∧ GInv o0 n0 U sz st' := by
  cases c with
  | ntt dst Sx d nc buf np nb =>
    obtain ⟨uD, uS, hd30, hdm, hnc, hbound, hszD, hf1, hbuf⟩ := hok
    obtain ⟨hmode, hdst⟩ := dst_facts dst Sx (hinv.user _ uD).2.1
    obtain ⟨hp', out, src, h1, h2, h3, h4, h5⟩ := ntt_hist_step m e o0 hobj he fuel hf n0 U sz st hinv (dst.getD Sx) Sx d nc buf np nb
      (dstMode dst Sx) (optPtr dst) hmode hdst uD uS hd30 hdm hnc hbound hszD hf1 hbuf
    refine ⟨(hp', st.2), out, src, ?_, h2, h3, h4, h5⟩
    simp only [GCallB.run]; rw [h1]; rfl
  | intt dst Sx d nc buf np nb =>
    obtain ⟨uD, uS, hd30, hdm, hnc, hbound, hszD, hf1, hbuf⟩ := hok
    obtain ⟨hmode, hdst⟩ := dst_facts dst Sx (hinv.user _ uD).2.1
    obtain ⟨hp', out, src, h1, h2, h3, h4, h5⟩ := intt_hist_step m e o0 hobj he fuel hf n0 U sz st hinv (dst.getD Sx) Sx d nc buf np nb
      (dstMode dst Sx) (optPtr dst) hmode hdst uD uS hd30 hdm hnc hbound hszD hf1 hbuf
    refine ⟨(hp', st.2), out, src, ?_, h2, h3, h4, h5⟩
    simp only [GCallB.run]; rw [h1]; rfl
  | extendPol Out In de dn nc buf np nb =>
    obtain ⟨uO, uI, hde, hde30, hdm, hnc, hbound, hszO, hf1, hbuf⟩ := hok
    obtain ⟨st', out, o', h1, h2, h3, h4, h5⟩ := extendPol_hist_step m e o0 hobj he fuel hf n0 U sz st hinv Out In de dn nc buf np nb
      uO uI hde hde30 hdm hnc hbound hszO hf1 hbuf
    refine ⟨st', out, (if decide (Out = In) = true then out else st.1.block In), h1, ?_, h3, h4, h5⟩
    simp only [GCallB.toCall, Call.run]
    rw [h2]

include hobj he hf in
/-- **every history (buffers, `dst == NULL`) keeps the invariant** (and returns) -/
theorem runGB_inv (cs : List GCallB) : ∀ (st : Heap × NTT_Goldilocks), GInv o0 n0 U sz st → (∀ c, c ∈ cs → c.ok m fuel U sz) →
    ∃ st', runGB fuel st cs = some st' ∧ GInv o0 n0 U sz st' := by
  induction cs with
  | nil => intro st h _; exact ⟨st, rfl, h⟩
  | cons c cs ih =>
    intro st h hok
    obtain ⟨st1, _, _, hrun, _, _, _, hinv1⟩ := gcallB_step m e o0 hobj he fuel hf n0 U sz st h c (hok c List.mem_cons_self)
    obtain ⟨st', hr, hinv'⟩ := ih st1 hinv1 (fun c' hc' => hok c' (List.mem_cons_of_mem _ hc'))
    exact ⟨st', by simp only [runGB]; rw [hrun]; exact hr, hinv'⟩

end step

/-! ### the raw-pointer calls of the allocation-balance lemmas -/

/-- the same call as a `HeapSafe.Call` (raw pointers, 64-bit sizes) -/
def GCallB.toRaw : GCallB → HeapSafe.Call
  | .ntt dst Sx d nc buf np nb => .ntt (optPtr dst) ⟨Sx, 0⟩ (bv (2 ^ d)) (bv nc) (optPtr buf) np nb false false
  | .intt dst Sx d nc buf np nb => .intt (optPtr dst) ⟨Sx, 0⟩ (bv (2 ^ d)) (bv nc) (optPtr buf) np nb false
  | .extendPol Out In de dn nc buf np nb => .extendPol ⟨Out, 0⟩ ⟨In, 0⟩ (bv (2 ^ de)) (bv (2 ^ dn)) (bv nc) (optPtr buf) np nb

theorem GCallB.toRaw_run (fuel : Nat) (st : Heap × NTT_Goldilocks) (c : GCallB) : HeapSafe.runCall fuel st c.toRaw = c.run fuel st := by
  cases c <;> rfl

theorem runGB_toRaw (fuel : Nat) (cs : List GCallB) : ∀ st, HeapSafe.runCalls fuel st (cs.map GCallB.toRaw) = runGB fuel st cs := by
  induction cs with
  | nil => intro st; rfl
  | cons c cs ih =>
    intro st
    simp only [List.map_cons, runGB, HeapSafe.runCalls, GCallB.toRaw_run]
    cases c.run fuel st with
    | none => rfl
    | some st' => exact ih st'

end GoldilocksVerif.BridgeNtt
