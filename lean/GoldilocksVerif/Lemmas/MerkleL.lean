/-
  Structure of the Merkle builders of Model/Sponge.lean: buffer size and root position, for every power-of-two
  number of rows and any leaf / node hash producing 4-word digests.
-/
import GoldilocksVerif.Model.Sponge
namespace GoldilocksVerif.Model

theorem nextLevel_length (node : List Wd → List Wd) (hn : ∀ x, (node x).length = 4) :
    ∀ k lvl, (nextLevel node k lvl).length = 4 * k := by
  intro k
  induction k with
  | zero => intro lvl; simp [nextLevel]
  | succ k ih => intro lvl; simp [nextLevel, List.length_append, hn, ih]; omega

/-- levels above 2^k leaves hold 4·(2^k − 1) words -/
theorem upperLevels_length (node : List Wd → List Wd) (hn : ∀ x, (node x).length = 4) :
    ∀ (k fuel : Nat) (lvl : List Wd), k ≤ fuel → (upperLevels node fuel (2 ^ k) lvl).length = 4 * (2 ^ k - 1) := by
  intro k
  induction k with
  | zero =>
    intro fuel lvl _
    cases fuel <;> simp [upperLevels]
  | succ k ih =>
    intro fuel lvl hf
    obtain ⟨f, rfl⟩ : ∃ f, fuel = f + 1 := ⟨fuel - 1, by omega⟩
    have h2 : (2 : Nat) ^ (k + 1) = 2 * 2 ^ k := by rw [Nat.pow_succ]; omega
    have hpos : 0 < 2 ^ k := Nat.two_pow_pos k
    have hgt : ¬ (2 ^ (k + 1) ≤ 1) := by omega
    have hdiv : 2 ^ (k + 1) / 2 = 2 ^ k := by omega
    unfold upperLevels
    simp only [hgt, if_false, hdiv, List.length_append, nextLevel_length node hn]
    rw [ih f _ (by omega)]
    omega

/-- buffer size = the element-count helper = 4·(2·rows − 1), for rows = 2^k -/
theorem merkleTree_length (leaf node : List Wd → List Wd) (hl : ∀ x, (leaf x).length = 4) (hn : ∀ x, (node x).length = 4)
    (rows : List (List Wd)) (k : Nat) (hr : rows.length = 2 ^ k) :
    (merkleTree leaf node rows).length = treeNumElements rows.length ∧ treeNumElements rows.length = 4 * (2 * rows.length - 1) := by
  have hk : k ≤ rows.length := by rw [hr]; exact Nat.le_of_lt (Nat.lt_two_pow_self)
  have hleaves : (rows.flatMap leaf).length = 4 * rows.length := by
    clear hr hk
    induction rows with
    | nil => rfl
    | cons r rs ih => rw [List.flatMap_cons, List.length_append, hl, ih, List.length_cons]; omega
  have hpos : 0 < 2 ^ k := Nat.two_pow_pos k
  unfold merkleTree treeNumElements
  constructor
  · simp only [List.length_append, hleaves]
    rw [hr, upperLevels_length node hn k (2 ^ k) _ (by rw [← hr]; exact hk)]
    omega
  · omega

/-- the root, as the recursive pairwise hash of the digests -/
def rootOf (node : List Wd → List Wd) : Nat → List Wd → List Wd
  | 0, lvl => lvl
  | k + 1, lvl => rootOf node k (nextLevel node (2 ^ k) lvl)

/-- the last four elements of the buffer are the root (rows = 2^k, k ≥ 0; for one row the root is its digest) -/
theorem upperLevels_last (node : List Wd → List Wd) (hn : ∀ x, (node x).length = 4) :
    ∀ (k fuel : Nat) (lvl : List Wd), k ≤ fuel → lvl.length = 4 * 2 ^ k →
      (lvl ++ upperLevels node fuel (2 ^ k) lvl).drop ((lvl ++ upperLevels node fuel (2 ^ k) lvl).length - 4) = rootOf node k lvl := by
  intro k
  induction k with
  | zero =>
    intro fuel lvl _ hl
    have : upperLevels node fuel (2 ^ 0) lvl = [] := by cases fuel <;> simp [upperLevels]
    rw [this]
    simp only [List.append_nil, rootOf]
    have : lvl.length - 4 = 0 := by simp at hl; omega
    rw [this]; rfl
  | succ k ih =>
    intro fuel lvl hf hl
    obtain ⟨f, rfl⟩ : ∃ f, fuel = f + 1 := ⟨fuel - 1, by omega⟩
    have h2 : (2 : Nat) ^ (k + 1) = 2 * 2 ^ k := by rw [Nat.pow_succ]; omega
    have hpos : 0 < 2 ^ k := Nat.two_pow_pos k
    have hgt : ¬ (2 ^ (k + 1) ≤ 1) := by omega
    have hdiv : 2 ^ (k + 1) / 2 = 2 ^ k := by omega
    have hnl : (nextLevel node (2 ^ k) lvl).length = 4 * 2 ^ k := nextLevel_length node hn _ _
    have e : upperLevels node (f + 1) (2 ^ (k + 1)) lvl =
        nextLevel node (2 ^ k) lvl ++ upperLevels node f (2 ^ k) (nextLevel node (2 ^ k) lvl) := by
      conv => lhs; unfold upperLevels
      simp only [hgt, if_false, hdiv]
    rw [e]
    have key := ih f (nextLevel node (2 ^ k) lvl) (by omega) hnl
    simp only [rootOf]
    rw [← key]
    have hul := upperLevels_length node hn k f (nextLevel node (2 ^ k) lvl) (by omega)
    have htot : (lvl ++ (nextLevel node (2 ^ k) lvl ++ upperLevels node f (2 ^ k) (nextLevel node (2 ^ k) lvl))).length - 4 =
        lvl.length + ((nextLevel node (2 ^ k) lvl ++ upperLevels node f (2 ^ k) (nextLevel node (2 ^ k) lvl)).length - 4) := by
      simp only [List.length_append, hl, hnl, hul]; omega
    rw [htot, List.drop_append, List.drop_of_length_le (Nat.le_add_right _ _), List.nil_append, Nat.add_sub_cancel_left]

end GoldilocksVerif.Model
