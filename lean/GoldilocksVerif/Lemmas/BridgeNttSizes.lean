/-
  Sizes in the hand model Model/Ntt.lean: no operation of `reversePermutation` / `pass` changes the size of a buffer (the
  two ping-pong buffers exchange roles).  Needed to know the size of the scratch block the translated `NTT_iters` leaves behind.
-/
import GoldilocksVerif.Lemmas.NttArr
import GoldilocksVerif.Lemmas.NttStage

namespace GoldilocksVerif.Model.Ntt

theorem iter_size {n : Nat} (a : Buf) (f : Nat → Buf → Buf) (h : ∀ i b, (f i b).size = b.size) : (iter n a f).size = a.size := by
  induction n with
  | zero => rfl
  | succ n ih => rw [iter_succ, h, ih]

theorem stage_size (o : Obj) (a : Buf) (s si b B nc rs re rb rm : Nat) : (stage o a s si b B nc rs re rb rm).size = a.size := by
  unfold stage
  apply iter_size
  intro i x
  unfold stageStep
  exact bfly_size _ _ _ _ _

theorem batchStages_size (o : Obj) (a : Buf) (s sInc b B nc rs re rb rm : Nat) :
    (batchStages o a s sInc b B nc rs re rb rm).size = a.size := by
  unfold batchStages
  apply iter_size
  intro i x
  exact stage_size _ _ _ _ _ _ _ _ _ _ _

theorem transposeCopy_size (a2 a : Buf) (b B nB nc : Nat) : (transposeCopy a2 a b B nB nc).size = a2.size := by
  unfold transposeCopy
  apply iter_size
  intro i x
  exact copyRow_size _ _ _ _ _

theorem inverseCopy_size (o : Obj) (a2 a : Buf) (b B nB nc size dp : Nat) (extend : Bool) :
    (inverseCopy o a2 a b B nB nc size dp extend).size = a2.size := by
  unfold inverseCopy
  apply iter_size
  intro i x
  exact scaleRow_size _ _ _ _ _ _

theorem passBatch_size (o : Obj) (size dp nc s sInc : Nat) (lastInv extend : Bool) (b : Nat) (st : Buf × Buf) :
    (passBatch o size dp nc s sInc lastInv extend b st).1.size = st.1.size ∧
    (passBatch o size dp nc s sInc lastInv extend b st).2.size = st.2.size := by
  unfold passBatch
  dsimp only
  constructor
  · exact batchStages_size _ _ _ _ _ _ _ _ _ _ _
  · by_cases h : lastInv = true
    · rw [if_pos h]; exact inverseCopy_size _ _ _ _ _ _ _ _ _ _
    · rw [if_neg h]; exact transposeCopy_size _ _ _ _ _ _

theorem pass_size (o : Obj) (size dp nc : Nat) (inverse extend : Bool) (st : Buf × Buf × Bool) (p : Nat × Nat) :
    (pass o size dp nc inverse extend st p).1.size = st.2.1.size ∧
    (pass o size dp nc inverse extend st p).2.1.size = st.1.size ∧
    (pass o size dp nc inverse extend st p).2.2 = !st.2.2 := by
  unfold pass
  dsimp only
  have key : ∀ n, (iter n (st.1, st.2.1) (passBatch o size dp nc p.1 p.2 (!decide (p.1 + p.2 ≤ dp) && inverse) extend)).1.size
      = st.1.size ∧
      (iter n (st.1, st.2.1) (passBatch o size dp nc p.1 p.2 (!decide (p.1 + p.2 ≤ dp) && inverse) extend)).2.size
      = st.2.1.size := by
    intro n
    induction n with
    | zero => exact ⟨rfl, rfl⟩
    | succ n ih =>
      rw [iter_succ]
      obtain ⟨a, b⟩ := passBatch_size o size dp nc p.1 p.2 (!decide (p.1 + p.2 ≤ dp) && inverse) extend n
        (iter n (st.1, st.2.1) (passBatch o size dp nc p.1 p.2 (!decide (p.1 + p.2 ≤ dp) && inverse) extend))
      rw [a, b]; exact ih
  obtain ⟨a, b⟩ := key (size / 2 ^ p.2)
  exact ⟨b, a, rfl⟩

/-- after a list of passes the two buffers have kept their sizes, in the order the flag tells -/
theorem foldl_pass_size (o : Obj) (size dp nc : Nat) (inverse extend : Bool) :
    ∀ (L : List (Nat × Nat)) (st : Buf × Buf × Bool),
      ((L.foldl (pass o size dp nc inverse extend) st).2.2 = st.2.2 →
        (L.foldl (pass o size dp nc inverse extend) st).1.size = st.1.size ∧
        (L.foldl (pass o size dp nc inverse extend) st).2.1.size = st.2.1.size) ∧
      ((L.foldl (pass o size dp nc inverse extend) st).2.2 = !st.2.2 →
        (L.foldl (pass o size dp nc inverse extend) st).1.size = st.2.1.size ∧
        (L.foldl (pass o size dp nc inverse extend) st).2.1.size = st.1.size) := by
  intro L
  induction L with
  | nil =>
    intro st
    refine ⟨fun _ => ⟨rfl, rfl⟩, fun h => ?_⟩
    simp at h
  | cons p L ih =>
    intro st
    rw [List.foldl_cons]
    obtain ⟨s1, s2, s3⟩ := pass_size o size dp nc inverse extend st p
    obtain ⟨i1, i2⟩ := ih (pass o size dp nc inverse extend st p)
    rw [s3] at i1 i2
    constructor
    · intro h
      have := i2 (by rw [h]; simp)
      rw [s1, s2] at this
      exact ⟨this.1, this.2⟩
    · intro h
      have := i1 h
      rw [s1, s2] at this
      exact ⟨this.1, this.2⟩

/-- `reversePermutation` does not change the size of the buffer it returns -/
theorem reversePermutation_size (o : Obj) (dst src : Buf) (inPlace : Bool) (size oc nc nca : Nat) (t : Buf)
    (h : reversePermutation o dst src inPlace size oc nc nca = .ok t) :
    t.size = (if inPlace then src else dst).size := by
  unfold reversePermutation at h
  dsimp only at h
  cases inPlace with
  | false =>
    simp only [Bool.not_false, if_true, Bool.false_eq_true, if_false] at h ⊢
    by_cases he : o.extension ≤ 1
    · rw [if_pos he] at h
      injection h with h; rw [← h]
      apply iter_size; intro i b; exact copyRow_size _ _ _ _ _
    · rw [if_neg he] at h
      injection h with h; rw [← h]
      apply iter_size; intro i b
      split
      · exact copyRow_size _ _ _ _ _
      · exact zeroRow_size _ _ _
  | true =>
    simp only [Bool.not_true, Bool.false_eq_true, if_false, if_true] at h ⊢
    by_cases ha : (!decide (oc = 0 ∧ nc = nca)) = true
    · rw [if_pos ha] at h; cases h
    · rw [if_neg ha] at h
      by_cases he : o.extension ≤ 1
      · rw [if_pos he] at h
        injection h with h; rw [← h]
        apply iter_size; intro i b
        by_cases h1 : br i (log2 size) < i
        · rw [if_pos h1, copyRow_size, copyRow_size]
        · rw [if_neg h1]
      · rw [if_neg he] at h
        injection h with h; rw [← h]
        apply iter_size; intro i b
        by_cases h1 : br i (log2 size) < i
        · rw [if_pos h1, copyRow_size]
          by_cases h2 : i < size / o.extension
          · rw [if_pos h2, copyRow_size]
          · rw [if_neg h2, zeroRow_size]
        · rw [if_neg h1]
          by_cases h2 : br i (log2 size) = i ∧ size / o.extension ≤ i
          · rw [if_pos h2, zeroRow_size]
          · rw [if_neg h2]

end GoldilocksVerif.Model.Ntt
