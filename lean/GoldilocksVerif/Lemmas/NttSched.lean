/-
  The pass schedule of `NTT_iters` (`schedule`, `clampPhase` of Model/Ntt.lean): for `1 ≤ nphase ≤ domainPow` the
  list of passes is consecutive, every pass is non-empty, the passes cover exactly the stages `1 … domainPow`, and
  there are exactly `nphase` of them (the first `domainPow % nphase` passes have width `domainPow / nphase + 1`,
  the others width `domainPow / nphase`).
-/
import GoldilocksVerif.Lemmas.NttArr

namespace GoldilocksVerif.Model.Ntt

/-- a well-formed pass list for `d` stages starting at stage `s0`: consecutive, non-empty, ending exactly at `d` -/
def SchedOk (d : Nat) : Nat → List (Nat × Nat) → Prop
  | s0, [] => s0 = d + 1
  | s0, (s, c) :: ps => s = s0 ∧ 1 ≤ c ∧ s + c ≤ d + 1 ∧ SchedOk d (s + c) ps

/-- one unfolding of the loop -/
theorem sched_go_succ (d res fuel s count mbp : Nat) (acc : List (Nat × Nat)) :
    schedule.go d res (fuel + 1) s count mbp acc =
      if s > d then acc.reverse else
      let mbp' := if res > 0 ∧ count = res + 1 ∧ mbp > 1 then mbp - 1 else mbp
      let sInc := if s + mbp' ≤ d then mbp' else d - s + 1
      if mbp' = 0 then acc.reverse else
      schedule.go d res fuel (s + mbp') (count + 1) mbp' ((s, sInc) :: acc) := by
  rw [schedule.go]

theorem sched_go_done (d res fuel s count mbp : Nat) (acc : List (Nat × Nat)) (h : s > d) :
    schedule.go d res fuel s count mbp acc = acc.reverse := by
  cases fuel with
  | zero => rw [schedule.go]
  | succ fuel => rw [sched_go_succ, if_pos h]

/-- a pass of width `w` (no decrement of `maxBatchPow` at this `count`) that fits -/
theorem sched_go_step (d res fuel s count w : Nat) (acc : List (Nat × Nat))
    (hc : ¬ (res > 0 ∧ count = res + 1 ∧ w > 1)) (hw : 1 ≤ w) (hs : s + w ≤ d + 1) :
    schedule.go d res (fuel + 1) s count w acc = schedule.go d res fuel (s + w) (count + 1) w ((s, w) :: acc) := by
  rw [sched_go_succ, if_neg (by omega)]
  dsimp only
  rw [if_neg hc, if_neg (by omega)]
  by_cases h : s + w ≤ d
  · rw [if_pos h]
  · rw [if_neg h]
    have : d - s + 1 = w := by omega
    rw [this]

/-- the pass at `count = res + 1`: `maxBatchPow` goes from `w + 1` to `w` -/
theorem sched_go_step_dec (d res fuel s w : Nat) (acc : List (Nat × Nat))
    (hr : res > 0) (hw : 1 ≤ w) (hs : s + w ≤ d + 1) :
    schedule.go d res (fuel + 1) s (res + 1) (w + 1) acc
      = schedule.go d res fuel (s + w) (res + 1 + 1) w ((s, w) :: acc) := by
  rw [sched_go_succ, if_neg (by omega)]
  dsimp only
  have hcond : res > 0 ∧ res + 1 = res + 1 ∧ w + 1 > 1 := ⟨hr, rfl, by omega⟩
  rw [if_pos hcond]
  have e : w + 1 - 1 = w := by omega
  rw [e, if_neg (by omega)]
  by_cases h : s + w ≤ d
  · rw [if_pos h]
  · rw [if_neg h]
    have : d - s + 1 = w := by omega
    rw [this]

theorem sched_reverse_cons_append (acc : List (Nat × Nat)) (x : Nat × Nat) (L : List (Nat × Nat)) :
    (x :: acc).reverse ++ L = acc.reverse ++ (x :: L) := by
  rw [List.reverse_cons, List.append_assoc]; rfl

/-- the passes after the decrement (or all passes when `res = 0`): `k` passes of width `q` -/
theorem sched_go_narrow (d res q : Nat) (hq : 1 ≤ q) : ∀ (k fuel s count : Nat) (acc : List (Nat × Nat)),
    (res = 0 ∨ count > res + 1) → s + k * q = d + 1 → k ≤ fuel →
    ∃ L, schedule.go d res fuel s count q acc = acc.reverse ++ L ∧ SchedOk d s L ∧ L.length = k := by
  intro k
  induction k with
  | zero =>
    intro fuel s count acc _ hs _
    refine ⟨[], ?_, ?_, rfl⟩
    · rw [sched_go_done _ _ _ _ _ _ _ (by omega), List.append_nil]
    · show s = d + 1
      omega
  | succ k ih =>
    intro fuel s count acc hc hs hf
    obtain ⟨fuel, rfl⟩ : ∃ f, fuel = f + 1 := ⟨fuel - 1, by omega⟩
    rw [Nat.succ_mul] at hs
    rw [sched_go_step d res fuel s count q acc (by omega) hq (by omega)]
    obtain ⟨L, e, ok, len⟩ := ih fuel (s + q) (count + 1) ((s, q) :: acc) (by omega) (by omega) (by omega)
    refine ⟨(s, q) :: L, ?_, ?_, ?_⟩
    · rw [e, sched_reverse_cons_append]
    · exact ⟨rfl, hq, by omega, ok⟩
    · rw [List.length_cons, len]

/-- `j` passes of width `q + 1` (counts `res + 1 - j … res`), then `k` passes of width `q` -/
theorem sched_go_wide (d res q : Nat) (hq : 1 ≤ q) (hr : res > 0) : ∀ (j k fuel s count : Nat) (acc : List (Nat × Nat)),
    count + j = res + 1 → s + j * (q + 1) + k * q = d + 1 → j + k ≤ fuel →
    ∃ L, schedule.go d res fuel s count (q + 1) acc = acc.reverse ++ L ∧ SchedOk d s L ∧ L.length = j + k := by
  intro j
  induction j with
  | zero =>
    intro k fuel s count acc hc hs hf
    have hc' : count = res + 1 := by omega
    subst hc'
    rw [Nat.zero_mul, Nat.add_zero] at hs
    cases k with
    | zero =>
      refine ⟨[], ?_, ?_, rfl⟩
      · rw [sched_go_done _ _ _ _ _ _ _ (by omega), List.append_nil]
      · show s = d + 1
        omega
    | succ k =>
      obtain ⟨fuel, rfl⟩ : ∃ f, fuel = f + 1 := ⟨fuel - 1, by omega⟩
      rw [Nat.succ_mul] at hs
      rw [sched_go_step_dec d res fuel s q acc hr hq (by omega)]
      obtain ⟨L, e, ok, len⟩ :=
        sched_go_narrow d res q hq k fuel (s + q) (res + 1 + 1) ((s, q) :: acc) (by omega) (by omega) (by omega)
      refine ⟨(s, q) :: L, ?_, ?_, ?_⟩
      · rw [e, sched_reverse_cons_append]
      · exact ⟨rfl, hq, by omega, ok⟩
      · rw [List.length_cons, len]; omega
  | succ j ih =>
    intro k fuel s count acc hc hs hf
    obtain ⟨fuel, rfl⟩ : ∃ f, fuel = f + 1 := ⟨fuel - 1, by omega⟩
    rw [Nat.succ_mul] at hs
    rw [sched_go_step d res fuel s count (q + 1) acc (by omega) (by omega) (by omega)]
    obtain ⟨L, e, ok, len⟩ :=
      ih k fuel (s + (q + 1)) (count + 1) ((s, q + 1) :: acc) (by omega) (by omega) (by omega)
    refine ⟨(s, q + 1) :: L, ?_, ?_, ?_⟩
    · rw [e, sched_reverse_cons_append]
    · exact ⟨rfl, by omega, by omega, ok⟩
    · rw [List.length_cons, len]; omega

/-- for `1 ≤ nphase ≤ domainPow` the schedule is a well-formed list of exactly `nphase` passes covering stages `1 … domainPow` -/
theorem schedule_ok (d np : Nat) (h1 : 1 ≤ np) (h2 : np ≤ d) :
    SchedOk d 1 (schedule d np) ∧ (schedule d np).length = np := by
  have hq : 1 ≤ d / np := Nat.div_pos h2 (by omega)
  have hdm : np * (d / np) + d % np = d := Nat.div_add_mod d np
  have hres : d % np < np := Nat.mod_lt _ (by omega)
  unfold schedule
  dsimp only
  generalize hqe : d / np = q at hq hdm
  generalize hre : d % np = res at hdm hres
  by_cases hr : res > 0
  · rw [if_pos hr]
    have e1 : (np - res) * q = np * q - res * q := Nat.sub_mul _ _ _
    have e2 : res * q ≤ np * q := Nat.mul_le_mul_right q (by omega)
    have e3 : res * (q + 1) = res * q + res := by rw [Nat.mul_add, Nat.mul_one]
    obtain ⟨L, e, ok, len⟩ := sched_go_wide d res q hq hr res (np - res) (d + 1) 1 1 [] (by omega) (by omega) (by omega)
    rw [e, List.reverse_nil, List.nil_append]
    exact ⟨ok, by omega⟩
  · rw [if_neg hr]
    have e0 : q + 0 = q := rfl
    rw [e0]
    obtain ⟨L, e, ok, len⟩ := sched_go_narrow d res q hq np (d + 1) 1 1 [] (by omega) (by omega) (by omega)
    rw [e, List.reverse_nil, List.nil_append]
    exact ⟨ok, len⟩

theorem schedule_zero : schedule 0 1 = [] := by decide

theorem clampPhase_range (np d : Nat) :
    1 ≤ clampPhase np d ∧ (1 ≤ d → clampPhase np d ≤ d) ∧ (d = 0 → clampPhase np d = 1) := by
  unfold clampPhase
  by_cases h : np < 1 ∨ d = 0
  · rw [if_pos h]
    exact ⟨by omega, fun h => h, fun _ => rfl⟩
  · rw [if_neg h]
    by_cases h' : np > d
    · rw [if_pos h']
      exact ⟨by omega, fun _ => by omega, fun h0 => by omega⟩
    · rw [if_neg h']
      exact ⟨by omega, fun _ => by omega, fun h0 => by omega⟩

end GoldilocksVerif.Model.Ntt
