/-
  IN-BOUNDS ACCESSES of the generated `reversePermutation` (all four branches): every `memcpy` / `memset` range lies inside
  its block and source and destination of a `memcpy` do not overlap; the run-time sized row temporary is released at its
  start while live.  `NTT_reversePermutation.Safe` is DERIVED from the generated definition (Lemmas/HeapSafeDefs.lean).
-/
import GoldilocksVerif.Lemmas.HeapSafeVCL
import GoldilocksVerif.Lemmas.HeapSafeDefs
import GoldilocksVerif.Lemmas.BridgeNttRevPermG
open GoldilocksVerif Gen.NttGen GoldilocksVerif.BridgeNtt
namespace GoldilocksVerif.HeapSafe

section bodies
variable (dst src : Ptr) (oc nc nca : BitVec 64) (ds : BitVec 32) (k size : Nat)
variable (hk : k ≤ 32) (hds : ds.toNat = k) (hsz : size = 2 ^ k)
variable (hb1 : size * nca.toNat + oc.toNat < 2 ^ 64) (hb2 : size * nc.toNat < 2 ^ 64) (hb3 : nc.toNat * 8 < 2 ^ 64)

end bodies

theorem ext_alloc_new (st : Heap) (n : Nat) : (st.alloc n).1.ext (st.alloc n).2.blk = n := by
  rw [Heap.ext_alloc, Heap.alloc_blk, if_pos rfl]

theorem ext_alloc_old (st : Heap) (n b : Nat) (hb : 0 < st.ext b) : (st.alloc n).1.ext b = st.ext b := by
  have := Heap.lt_size_of_live st b hb
  rw [Heap.ext_alloc, if_neg (by omega)]

theorem alloc_blk_ne (st : Heap) (n b : Nat) (hb : 0 < st.ext b) : b ≠ (st.alloc n).2.blk := by
  have := Heap.lt_size_of_live st b hb
  rw [Heap.alloc_blk]; omega

theorem RangeOK_add {h : Heap} {p : Ptr} {o n : Nat} (x : p.off + o + n ≤ h.ext p.blk) : h.RangeOK (p.add o) n := x
theorem RangeOK_base {h : Heap} {p : Ptr} {n : Nat} (x : p.off + n ≤ h.ext p.blk) : h.RangeOK p n := x

section inplace
variable (p : Ptr) (nc : BitVec 64) (ds : BitVec 32) (k size : Nat)
variable (hk : k ≤ 32) (hds : ds.toNat = k) (hsz : size = 2 ^ k)
variable (hb2 : size * nc.toNat < 2 ^ 64) (hb3 : nc.toNat * 8 < 2 ^ 64) (hnc : 0 < nc.toNat)

include hk hds hsz hb2 hb3 hnc in
/-- in place, extension ≤ 1: rows br(i) < i are swapped through the temporary row (a new block of `ncols` words) -/
theorem rp3_safe (st : Heap) (hdst : p.off + size * nc.toNat ≤ st.ext p.blk) (i : Nat) (hi : i < size) :
    NTT_reversePermutation_loop3.Safe p p nc ds i st := by
  unfold NTT_reversePermutation_loop3.Safe
  zeta_goal
  obtain ⟨e, hlt⟩ := BR_i ds k size hk hds hsz i hi
  have h64 : size < 2 ^ 64 := by rw [hsz]; exact Nat.pow_lt_pow_right (by omega) (by omega)
  rw [ip_off nc ds k size hk hds hsz hb2 i hi, dst_off nc k size hk hsz hb2 i hi, words_toNat nc hb3]
  intro hc
  have hri : Model.Ntt.br i k < i := by
    have := of_decide_eq_true hc
    rwa [lt_ofNat _ i (by omega), e] at this
  have h1 := mul_le_of_lt _ _ nc.toNat hi
  have h2 := mul_le_of_lt _ _ nc.toNat hri
  have hsz0 : 0 < size := by omega
  have hlive : 0 < st.ext p.blk := by
    have : 0 < size * nc.toNat := Nat.mul_pos hsz0 hnc
    omega
  have eo := ext_alloc_old st nc.toNat p.blk hlive
  have en := ext_alloc_new st nc.toNat
  have hne := alloc_blk_ne st nc.toNat p.blk hlive
  have hoff : (st.alloc nc.toNat).2.off = 0 := rfl
  -- the three copies and the release, each on a heap of the shape of `(st.alloc ncols).1`
  have c1 : (st.alloc nc.toNat).1.CopyOK (st.alloc nc.toNat).2 (p.add (Model.Ntt.br i k * nc.toNat)) nc.toNat := by
    refine ⟨?_, ?_, Or.inr (Or.inl (fun x => hne x.symm))⟩
    · exact RangeOK_base (by rw [en, hoff]; omega)
    · exact RangeOK_add (by rw [eo]; omega)
  have c2 : (st.alloc nc.toNat).1.CopyOK (p.add (Model.Ntt.br i k * nc.toNat)) (p.add (i * nc.toNat)) nc.toNat := by
    refine ⟨?_, ?_, Or.inr (Or.inr (Or.inl ?_))⟩
    · exact RangeOK_add (by rw [eo]; omega)
    · exact RangeOK_add (by rw [eo]; omega)
    · show p.off + Model.Ntt.br i k * nc.toNat + nc.toNat ≤ p.off + i * nc.toNat
      omega
  have c3 : (st.alloc nc.toNat).1.CopyOK (p.add (i * nc.toNat)) (st.alloc nc.toNat).2 nc.toNat := by
    refine ⟨?_, ?_, Or.inr (Or.inl hne)⟩
    · exact RangeOK_add (by rw [eo]; omega)
    · exact RangeOK_base (by rw [en, hoff]; omega)
  have c4 : (st.alloc nc.toNat).1.FreeOK (st.alloc nc.toNat).2 := Or.inr ⟨rfl, by rw [en]; exact hnc⟩
  refine ⟨c1, ?_, ?_, ?_⟩
  · exact c2.same (by heap_steps)
  · exact c3.same (by heap_steps)
  · exact c4.same (by heap_steps)


include hk hds hsz hb2 hb3 hnc in
/-- in place, extension > 1: as before; rows beyond `nrows_in` are not read but zeroed -/
theorem rp4_safe (nIn : BitVec 64) (st : Heap) (hdst : p.off + size * nc.toNat ≤ st.ext p.blk) (i : Nat) (hi : i < size) :
    NTT_reversePermutation_loop4.Safe p p nc ds nIn i st := by
  unfold NTT_reversePermutation_loop4.Safe
  zeta_goal
  obtain ⟨e, hlt⟩ := BR_i ds k size hk hds hsz i hi
  have h64 : size < 2 ^ 64 := by rw [hsz]; exact Nat.pow_lt_pow_right (by omega) (by omega)
  rw [ip_off nc ds k size hk hds hsz hb2 i hi, dst_off nc k size hk hsz hb2 i hi, words_toNat nc hb3]
  have h1 := mul_le_of_lt _ _ nc.toNat hi
  have h1' := mul_le_of_lt _ _ nc.toNat hlt
  have hsz0 : 0 < size := by omega
  have hlive : 0 < st.ext p.blk := by
    have : 0 < size * nc.toNat := Nat.mul_pos hsz0 hnc
    omega
  refine ⟨fun hc => ?_, fun _ _ => RangeOK_add (by omega)⟩
  have hri : Model.Ntt.br i k < i := by
    have := of_decide_eq_true hc
    rwa [lt_ofNat _ i (by omega), e] at this
  have h2 := mul_le_of_lt _ _ nc.toNat hri
  have eo := ext_alloc_old st nc.toNat p.blk hlive
  have en := ext_alloc_new st nc.toNat
  have hne := alloc_blk_ne st nc.toNat p.blk hlive
  have hoff : (st.alloc nc.toNat).2.off = 0 := rfl
  have r1 : (st.alloc nc.toNat).1.RangeOK (st.alloc nc.toNat).2 nc.toNat := RangeOK_base (by rw [en, hoff]; omega)
  have rr : (st.alloc nc.toNat).1.RangeOK (p.add (Model.Ntt.br i k * nc.toNat)) nc.toNat := RangeOK_add (by rw [eo]; omega)
  have ri : (st.alloc nc.toNat).1.RangeOK (p.add (i * nc.toNat)) nc.toNat := RangeOK_add (by rw [eo]; omega)
  have c4 : (st.alloc nc.toNat).1.FreeOK (st.alloc nc.toNat).2 := Or.inr ⟨rfl, by rw [en]; exact hnc⟩
  refine ⟨⟨fun _ => ⟨r1, rr, Or.inr (Or.inl (fun x => hne x.symm))⟩, fun _ => r1⟩, ⟨fun _ => ?_, fun _ => ?_⟩, ?_, ?_⟩
  · refine Heap.CopyOK.same (a := (st.alloc nc.toNat).1) (by heap_steps) ⟨rr, ri, Or.inr (Or.inr (Or.inl ?_))⟩
    show p.off + Model.Ntt.br i k * nc.toNat + nc.toNat ≤ p.off + i * nc.toNat
    omega
  · exact rr.same (by heap_steps)
  · exact Heap.CopyOK.same (a := (st.alloc nc.toNat).1) (by heap_steps) ⟨ri, r1, Or.inr (Or.inl hne)⟩
  · exact c4.same (by heap_steps)

end inplace

/-! ### the function -/

/-- number of source rows `reversePermutation` may read: all of them, or the first `size / extension` -/
def srcRows (self : NTT_Goldilocks) (size : BitVec 64) : Nat :=
  if self.extension ≤ 1 then size.toNat else (size / I32.toU64 self.extension).toNat

/-- the documented shape of a `reversePermutation(dst, src, size, offset_cols, ncols, ncols_all)` call:
    `size = 2^k` rows; the destination has `size` rows of `ncols` words, the source `srcRows` rows of `ncols_all ≥
    offset_cols + ncols` words; a destination that is not the source is another block; byte counts fit in 64 bits -/
structure RPShape (hp : Heap) (self : NTT_Goldilocks) (dst src : Ptr) (size oc nc nca : BitVec 64) (k : Nat) : Prop where
  hk : k ≤ 32
  hsize : size.toNat = 2 ^ k
  hnc : 0 < nc.toNat
  hcols : oc.toNat + nc.toNat ≤ nca.toNat
  hbytes : size.toNat * nca.toNat * 8 < 2 ^ 64
  hdst : dst.off + size.toNat * nc.toNat ≤ hp.ext dst.blk
  hsrc : src.off + srcRows self size * nca.toNat ≤ hp.ext src.blk
  hdisj : dst ≠ src → dst.blk ≠ src.blk

theorem reversePermutation_safe (fuel : Nat) (hf : log2Fuel ≤ fuel) (hp : Heap) (self : NTT_Goldilocks) (dst src : Ptr)
    (size oc nc nca : BitVec 64) (k : Nat) (hs : 0 < hp.size) (sh : RPShape hp self dst src size oc nc nca k) :
    NTT_reversePermutation.Safe fuel hp self dst src size oc nc nca := by
  obtain ⟨hk, hsize, hnc, hcols, hbytes, hdst, hsrc, hdisj⟩ := sh
  have hsz0 : 0 < size.toNat := by rw [hsize]; exact Nat.pow_pos (by omega)
  have hb3 : nc.toNat * 8 < 2 ^ 64 := by
    have : nc.toNat ≤ size.toNat * nca.toNat := Nat.le_trans (by omega) (Nat.le_mul_of_pos_left _ hsz0)
    omega
  have hb1 : size.toNat * nca.toNat + oc.toNat < 2 ^ 64 := by
    have : oc.toNat ≤ size.toNat * nca.toNat := Nat.le_trans (by omega) (Nat.le_mul_of_pos_left _ hsz0)
    omega
  have hb2 : size.toNat * nc.toNat < 2 ^ 64 := by
    have : size.toNat * nc.toNat ≤ size.toNat * nca.toNat := Nat.mul_le_mul_left _ (by omega)
    omega
  have hne0 : size ≠ 0#64 := by
    intro e
    rw [e] at hsz0
    exact absurd hsz0 (by decide)
  have hlogk : Model.Ntt.log2 size.toNat = k := by rw [hsize]; exact Nat.log2_two_pow
  have hlog := log2_gen_eq fuel hf size hne0
  rw [hlogk] at hlog
  have hds : (BitVec.ofNat 32 k).toNat = k := by
    rw [BitVec.toNat_ofNat]; exact Nat.mod_eq_of_lt (by omega)
  unfold NTT_reversePermutation.Safe
  intro y hy
  rw [hlog] at hy
  cases hy
  zeta_goal
  refine ⟨fun hne => ⟨fun he => ?_, fun he => ?_⟩, fun heq => ⟨fun he hassert => ?_, fun he hassert => ?_⟩⟩
  · -- distinct, extension ≤ 1
    have hne' : dst ≠ src := by simpa using hne
    have he' : self.extension ≤ 1 := of_decide_eq_true he
    unfold srcRows at hsrc
    rw [if_pos he'] at hsrc
    refine Loop.RangeAll.of_same (fun i s _ => by loop_same) (fun i st _ hi hst => ?_)
    -- row i of the destination, columns [oc, oc+nc) of row br(i) of the source (the body is taken as it is written)
    obtain ⟨e, hlt⟩ := BR_i (BitVec.ofNat 32 k) k size.toNat hk hds hsize i hi
    have h1 := mul_le_of_lt _ _ nc.toNat hi
    have h2 := mul_le_of_lt _ _ nca.toNat hlt
    have hiN : (BitVec.ofNat 64 i).toNat = i := ofNat_toNat_lt i (by have := size.isLt; omega)
    unfold_loops
    zeta_goal
    refine ⟨?_, ?_, Or.inr (Or.inl (hdisj hne'))⟩
    all_goals (unfold Heap.RangeOK; simp only [Ptr.add_blk, Ptr.add_off, hst.2]; bv_arith [e, hiN])
  · -- distinct, extension > 1
    have hne' : dst ≠ src := by simpa using hne
    have he' : ¬ self.extension ≤ 1 := fun x => he (decide_eq_true x)
    unfold srcRows at hsrc
    rw [if_neg he'] at hsrc
    have hle : (size / I32.toU64 self.extension).toNat ≤ size.toNat := by
      rw [BitVec.toNat_udiv]; exact Nat.div_le_self _ _
    have hE : (size / I32.toU64 self.extension * nca).toNat = (size / I32.toU64 self.extension).toNat * nca.toNat := by
      have := Nat.mul_le_mul_right nca.toNat hle
      rw [mul_toNat _ _ (by omega)]
    refine Loop.RangeAll.of_same (fun i s _ => by loop_same) (fun i st _ hi hst => ?_)
    -- a source row is read only when it is one of the first `size / extension` rows
    obtain ⟨e, hlt⟩ := BR_i (BitVec.ofNat 32 k) k size.toNat hk hds hsize i hi
    have h1 := mul_le_of_lt _ _ nc.toNat hi
    have h2 := mul_le_of_lt _ _ nca.toNat hlt
    have hiN : (BitVec.ofNat 64 i).toNat = i := ofNat_toNat_lt i (by have := size.isLt; omega)
    unfold_loops
    zeta_goal
    refine ⟨fun hc => ⟨?_, ?_, Or.inr (Or.inl (hdisj hne'))⟩, fun _ => ?_⟩
    · unfold Heap.RangeOK; simp only [Ptr.add_blk, Ptr.add_off, hst.2]; bv_arith [e, hiN]
    · have hc' : Model.Ntt.br i k * nca.toNat + oc.toNat < (size / I32.toU64 self.extension).toNat * nca.toNat := by
        revert hc
        simp only [decide_eq_true_eq, BitVec.lt_def, BitVec.toNat_add, BitVec.toNat_mul, e, hE]
        intro hc
        omega
      have hr : Model.Ntt.br i k < (size / I32.toU64 self.extension).toNat := by
        rcases Nat.lt_or_ge (Model.Ntt.br i k) (size / I32.toU64 self.extension).toNat with h | h
        · exact h
        · have := Nat.mul_le_mul_right nca.toNat h
          omega
      have h3 := mul_le_of_lt _ _ nca.toNat hr
      unfold Heap.RangeOK; simp only [Ptr.add_blk, Ptr.add_off, hst.2]; bv_arith [e, hiN]
    · unfold Heap.RangeOK; simp only [Ptr.add_blk, Ptr.add_off, hst.2]; bv_arith [e, hiN]
  · -- in place, extension ≤ 1
    have heq' : dst = src := by simpa using heq
    subst heq'
    refine Loop.RangeAll.of_same (fun i s hsame => by have hpos' := hsame.size_pos hs; loop_same) (fun i st _ hi hst => ?_)
    exact rp3_safe dst nc _ k size.toNat hk hds hsize hb2 hb3 hnc st (by rw [hst.2]; exact hdst) i hi
  · -- in place, extension > 1
    have heq' : dst = src := by simpa using heq
    subst heq'
    refine Loop.RangeAll.of_same (fun i s hsame => by have hpos' := hsame.size_pos hs; loop_same) (fun i st _ hi hst => ?_)
    exact rp4_safe dst nc _ k size.toNat hk hds hsize hb2 hb3 hnc _ st (by rw [hst.2]; exact hdst) i hi

end GoldilocksVerif.HeapSafe
