/-
  The TRANSLATED `Goldilocks3::batchInverse` (Gen/ExtInvGen.lean, regenerated from goldilocks_cubic_extension.hpp on every
  run: two run-time sized stack arrays of rows, a counted loop of prefix products, one inversion, a descending loop
  `for (i = size - 1; i > 0; i--)` as a fuel-bounded fold, memcpy of size rows) satisfies the property statement DIRECTLY
  (no hand model in between): for 1 ≤ size < 2^59 and fuel ≥ max(invFuel, size + 1)
    * it ends the process (`none`) exactly when some src[i] is the zero element (any representation),
    * otherwise res[i] · src[i] = 1 for every i < size, and nothing beyond row size-1 of `res` is written.
  Rows are 3-word slices: row i of a region t is `Region.shift t (3 * i)`.
-/
import GoldilocksVerif.Gen.ExtInvGen
import GoldilocksVerif.Lemmas.BridgeExt

namespace GoldilocksVerif
open Gen.Scalar Gen.Ext Gen.InvGen Gen.ExtInvGen Model

/-! ### rows of a region -/

theorem mul_frame (r a b : Region) (k : Nat) (hk : 3 ≤ k) : (G3_mul__a3a3a3 r a b) k = r k := by
  unfold G3_mul__a3a3a3
  exact (set3 r _ _ _).2.2.2 k hk

theorem copy_frame (d s : Region) (k : Nat) (hk : 3 ≤ k) : (G3_copy__a3A3 d s) k = d k := by
  unfold G3_copy__a3A3
  exact (set3 d _ _ _).2.2.2 k hk

theorem den3_congr (a b : Region) (h0 : a 0 = b 0) (h1 : a 1 = b 1) (h2 : a 2 = b 2) : den3 a = den3 b := by
  unfold den3; rw [h0, h1, h2]

/-- writing back a row: the row itself -/
theorem den3_row_same (t r : Region) (k : Nat) : den3 (Region.shift (Region.unshift t k r) k) = den3 r := by
  apply den3_congr <;> simp [Region.shift_apply, Region.unshift_apply]

/-- writing back a row computed in place (everything beyond its three words unchanged): the other rows -/
theorem den3_row_other (t r : Region) (i j : Nat) (hr : ∀ k, 3 ≤ k → r k = (Region.shift t (3 * i)) k) (hne : j ≠ i) :
    den3 (Region.shift (Region.unshift t (3 * i) r) (3 * j)) = den3 (Region.shift t (3 * j)) := by
  have key : ∀ m, m < 3 → (Region.unshift t (3 * i) r) (3 * j + m) = t (3 * j + m) := by
    intro m hm
    rw [Region.unshift_apply]
    by_cases h : 3 * i ≤ 3 * j + m
    · rw [if_pos h, hr _ (by omega), Region.shift_apply]; congr 1; omega
    · rw [if_neg h]
  apply den3_congr <;> simp only [Region.shift_apply]
  · exact key 0 (by omega)
  · exact key 1 (by omega)
  · exact key 2 (by omega)

theorem row_frame (t r : Region) (i : Nat) (hr : ∀ k, 3 ≤ k → r k = (Region.shift t (3 * i)) k) (m : Nat)
    (hm : m < 3 * i ∨ 3 * i + 3 ≤ m) : (Region.unshift t (3 * i) r) m = t m := by
  rw [Region.unshift_apply]
  by_cases h : 3 * i ≤ m
  · rw [if_pos h, hr _ (by omega), Region.shift_apply]; congr 1; omega
  · rw [if_neg h]

/-! ### the mathematics: prefix products -/

/-- src[i] as an element of K3 -/
def srcAt (src : Region) (i : Nat) : K3 := den3 (Region.shift src (3 * i))

/-- src[0] · … · src[i] -/
def prefixK (src : Region) : Nat → K3
  | 0 => srcAt src 0
  | i + 1 => K3.mul (prefixK src i) (srcAt src (i + 1))

theorem prefixK_eq_zero (src : Region) : ∀ k, prefixK src k = K3.zero ↔ ∃ i, i ≤ k ∧ srcAt src i = K3.zero := by
  intro k
  induction k with
  | zero =>
    constructor
    · intro h; exact ⟨0, Nat.le_refl _, h⟩
    · rintro ⟨i, hi, h⟩
      have : i = 0 := by omega
      subst this; exact h
  | succ k ih =>
    show K3.mul (prefixK src k) (srcAt src (k + 1)) = K3.zero ↔ _
    rw [K3.mul_eq_zero, ih]
    constructor
    · rintro (⟨i, hi, h⟩ | h)
      · exact ⟨i, by omega, h⟩
      · exact ⟨k + 1, Nat.le_refl _, h⟩
    · rintro ⟨i, hi, h⟩
      by_cases hk : i ≤ k
      · exact Or.inl ⟨i, hk, h⟩
      · have : i = k + 1 := by omega
        subst this; exact Or.inr h

/-! ### the loops -/

/-- first loop: tmp[i] = tmp[i-1] · src[i] -/
theorem batch_loop1 (src : Region) (n : Nat) (hn : 1 ≤ n) (tmp0 : Region)
    (h0 : den3 (Region.shift tmp0 (3 * 0)) = prefixK src 0) :
    ∃ tmp, Loop.rangeM 1 n 1 tmp0 (G3_batchInverse_loop1 src) = some tmp ∧
      ∀ j, j < n → den3 (Region.shift tmp (3 * j)) = prefixK src j := by
  obtain ⟨tmp, hr, hinv⟩ := Loop.rangeM_inv (G3_batchInverse_loop1 src)
    (fun i t => ∀ j, j < i → den3 (Region.shift t (3 * j)) = prefixK src j) 1 n hn
    (by
      intro i t hi1 _ hinv
      refine ⟨_, rfl, ?_⟩
      intro j hj
      have hfr : ∀ k, 3 ≤ k → (G3_mul__a3a3a3 (Region.shift t (3 * i)) (Region.shift t (3 * i - 3))
          (Region.shift src (3 * i))) k = (Region.shift t (3 * i)) k := fun k hk => mul_frame _ _ _ k hk
      by_cases hji : j = i
      · subst hji
        rw [den3_row_same, mul_den]
        obtain ⟨i', rfl⟩ : ∃ i', j = i' + 1 := ⟨j - 1, by omega⟩
        have e : 3 * (i' + 1) - 3 = 3 * i' := by omega
        rw [e, hinv i' (by omega)]
        rfl
      · rw [den3_row_other _ _ _ _ hfr hji]
        exact hinv j (by omega))
    tmp0 (by
      intro j hj
      have : j = 0 := by omega
      subst this; exact h0)
  exact ⟨tmp, hr, hinv⟩

/-- state of the backward sweep -/
def SweepInv (src tmp : Region) (n : Nat) (st : Region × Region × BitVec 64) : Prop :=
  st.2.2.toNat < n ∧
  K3.mul (den3 st.2.1) (prefixK src st.2.2.toNat) = K3.one ∧
  ∀ j, st.2.2.toNat < j → j < n → K3.mul (den3 (Region.shift st.1 (3 * j))) (srcAt src j) = K3.one

theorem batch_loop2 (src tmp : Region) (n : Nat) (htmp : ∀ j, j < n → den3 (Region.shift tmp (3 * j)) = prefixK src j)
    (fuel : Nat) (st : Region × Region × BitVec 64) (hinv : SweepInv src tmp n st) (hf : st.2.2.toNat < fuel) :
    ∃ st', Loop.whileM (G3_batchInverse_loop2 src tmp) fuel st = some st' ∧ st'.2.2 = 0#64 ∧ SweepInv src tmp n st' := by
  refine Loop.whileM_inv (G3_batchInverse_loop2 src tmp) (SweepInv src tmp n)
    (fun s => s.2.2 = 0#64 ∧ SweepInv src tmp n s) (fun s => s.2.2.toNat) ?_ fuel st hinv hf
  rintro ⟨aux, z, i⟩ ⟨hlt, hz, haux⟩
  simp only at hlt hz haux
  by_cases h0 : i = 0#64
  · left
    subst h0
    exact ⟨(aux, z, 0#64), rfl, rfl, hlt, hz, haux⟩
  · right
    have hpos : 0 < i.toNat := by
      have : i.toNat ≠ 0 := fun h => h0 (BitVec.eq_of_toNat_eq (by simpa using h))
      omega
    have hgt : (decide (i > 0#64)) = true := by
      rw [decide_eq_true_iff, gt_iff_lt, BitVec.lt_def]; exact hpos
    have hi1 : (i - 1#64).toNat = i.toNat - 1 := by
      rw [BitVec.toNat_sub]; show (2 ^ 64 - 1 + i.toNat) % 2 ^ 64 = _; have := i.isLt; omega
    obtain ⟨k, hk⟩ : ∃ k, i.toNat = k + 1 := ⟨i.toNat - 1, by omega⟩
    refine ⟨(Region.unshift aux (3 * i.toNat) (G3_mul__a3a3a3 (Region.shift aux (3 * i.toNat)) z
              (Region.shift tmp (3 * (i - 1#64).toNat))),
             G3_mul__a3a3a3_al_result_a z (Region.shift src (3 * i.toNat)), i - 1#64), ?_, ?_, ?_⟩
    · unfold G3_batchInverse_loop2
      simp only [hgt, if_true]
    · refine ⟨by simp only; omega, ?_, ?_⟩
      · -- z' · T_{k} = z · src[k+1] · T_k = z · T_{k+1} = 1
        simp only
        rw [mul_den_oa, hi1, hk]
        have hzz := hz
        rw [hk] at hzz
        show K3.mul (K3.mul (den3 z) (srcAt src (k + 1))) (prefixK src (k + 1 - 1)) = K3.one
        have e : k + 1 - 1 = k := by omega
        rw [e, K3.mul_assoc, K3.mul_comm (srcAt src (k + 1))]
        exact hzz
      · intro j hj1 hj2
        simp only at hj1 ⊢
        have hfr : ∀ m, 3 ≤ m → (G3_mul__a3a3a3 (Region.shift aux (3 * i.toNat)) z
            (Region.shift tmp (3 * (i - 1#64).toNat))) m = (Region.shift aux (3 * i.toNat)) m :=
          fun m hm => mul_frame _ _ _ m hm
        by_cases hji : j = i.toNat
        · -- aux[i] = z · tmp[i-1];  aux[i] · src[i] = z · T_{i-1} · src[i] = z · T_i = 1
          subst hji
          rw [den3_row_same, mul_den, hi1, htmp _ (by omega), hk]
          have hzz := hz
          rw [hk] at hzz
          have e : k + 1 - 1 = k := by omega
          rw [e, K3.mul_assoc]
          exact hzz
        · rw [den3_row_other _ _ _ _ hfr hji]
          exact haux j (by omega) hj2
    · simp only; omega

/-! ### the whole function -/

theorem G3_batchInverse_gen_spec (fuel : Nat) (res src : Region) (size : BitVec 64)
    (h1 : 1 ≤ size.toNat) (hsz : size.toNat < 2 ^ 59) (hf : invFuel ≤ fuel) (hf2 : size.toNat < fuel) :
    (G3_batchInverse fuel res src size = none ↔ ∃ i, i < size.toNat ∧ srcAt src i = K3.zero) ∧
    (∀ r, G3_batchInverse fuel res src size = some r →
      (∀ i, i < size.toNat → K3.mul (den3 (Region.shift r (3 * i))) (srcAt src i) = K3.one) ∧
      ∀ k, 3 * size.toNat ≤ k → r k = res k) := by
  have hs1 : (size - 1#64).toNat = size.toNat - 1 := by
    rw [BitVec.toNat_sub]; show (2 ^ 64 - 1 + size.toNat) % 2 ^ 64 = _; have := size.isLt; omega
  have hcnt : (size * 24#64).toNat / 8 = 3 * size.toNat := by
    rw [BitVec.toNat_mul]; show size.toNat * 24 % 2 ^ 64 / 8 = _; omega
  -- first loop
  obtain ⟨tmp, hl1, htmp⟩ := batch_loop1 src size.toNat h1 (G3_copy__a3A3 Region.zero src)
    (by
      show den3 (Region.shift (G3_copy__a3A3 Region.zero src) (3 * 0)) = srcAt src 0
      unfold srcAt
      simp only [Nat.mul_zero, Region.shift_zero]
      exact (copy_den _ _).1)
  have hlast : den3 (Region.shift tmp (3 * (size - 1#64).toNat)) = prefixK src (size.toNat - 1) := by
    rw [hs1]; exact htmp _ (by omega)
  obtain ⟨hnone, hsome⟩ := G3_inv_gen_spec fuel hf Region.zero (Region.shift tmp (3 * (size - 1#64).toNat))
  unfold G3_batchInverse
  dsimp only
  rw [hcnt, hl1, Option.bind_some]
  cases hz : G3_inv___a3a3 fuel Region.zero (Region.shift tmp (3 * (size - 1#64).toNat)) with
  | none =>
    rw [Option.bind_none]
    refine ⟨⟨fun _ => ?_, fun _ => rfl⟩, fun r h => by cases h⟩
    have := hnone.mp hz
    rw [hlast, prefixK_eq_zero] at this
    obtain ⟨i, hi, h⟩ := this
    exact ⟨i, by omega, h⟩
  | some z =>
    have hzinv := (hsome z hz).1
    rw [hlast] at hzinv
    have hnz : ¬ ∃ i, i < size.toNat ∧ srcAt src i = K3.zero := by
      rintro ⟨i, hi, h⟩
      have hp : prefixK src (size.toNat - 1) = K3.zero := (prefixK_eq_zero src _).mpr ⟨i, by omega, h⟩
      rw [hp, K3.mul_zero] at hzinv
      exact K3.one_ne_zero hzinv.symm
    obtain ⟨st', hw, hi0, hlt', hz', haux'⟩ := batch_loop2 src tmp size.toNat htmp fuel (Region.zero, z, size - 1#64)
      ⟨by simp only; omega, by simp only; rw [hs1]; exact hzinv, by
        intro j hj1 hj2; simp only at hj1; omega⟩ (by simp only; omega)
    rw [Option.bind_some, hw, Option.bind_some]
    refine ⟨⟨fun h => (by cases h), fun h => absurd h hnz⟩, ?_⟩
    intro r hr
    simp only [Option.some.injEq] at hr
    subst hr
    have hi0' : st'.2.2.toNat = 0 := by rw [hi0]; rfl
    constructor
    · intro i hi
      have hrow : den3 (Region.shift (Region.copyN res (G3_copy__a3A3 st'.1 st'.2.1) (3 * size.toNat)) (3 * i)) =
          den3 (Region.shift (G3_copy__a3A3 st'.1 st'.2.1) (3 * i)) := by
        apply den3_congr <;> simp only [Region.shift_apply, Region.copyN_apply] <;> rw [if_pos (by omega)]
      rw [hrow]
      by_cases hi0'' : i = 0
      · subst hi0''
        simp only [Nat.mul_zero, Region.shift_zero]
        rw [(copy_den _ _).1]
        rw [hi0'] at hz'
        exact hz'
      · have hother : den3 (Region.shift (G3_copy__a3A3 st'.1 st'.2.1) (3 * i)) = den3 (Region.shift st'.1 (3 * i)) := by
          apply den3_congr <;> simp only [Region.shift_apply] <;> exact copy_frame _ _ _ (by omega)
        rw [hother]
        exact haux' i (by omega) hi
    · intro k hk
      rw [Region.copyN_apply, if_neg (by omega)]

end GoldilocksVerif
