/-
  Bridge theorem: the TRANSLATED `Goldilocks::parcpy` (Gen/NttGen.lean, heap mode; called by `NTT_iters` for size 1) — the clamp
  of the `int` thread count, the chunk length `(size + nt - 1) / nt` on 64-bit words, the chunk loop
  `for (i = 0; i < size; i += chunk) memcpy(&dst[i], &src[i], min(chunk, size - i))` — is ONE `memcpy` of `size` words from the
  source block to the destination block: exactly `size` words are transferred, for every size and every `int` thread count
  (zero and negative included), no other word and no other block changes.  This is the hand model `Model/ParCopy.parcpy`
  in the heap view (`parcpy_gen_region`).

  FUEL: the chunk loop is a `while` loop of the generated model; it makes `⌈size / chunk⌉ ≤ min(size, max(1, nt))` iterations,
  so it returns for every `fuel > min(size, max(1, nt))` (`parFuel`).
-/
import GoldilocksVerif.Lemmas.BridgeParcpyStep
import GoldilocksVerif.Lemmas.ParCopyL

namespace GoldilocksVerif.BridgeNtt
open GoldilocksVerif Gen.NttGen

/-- fuel from which the chunk loop of `parcpy(dst, src, size, nt)` cannot run out -/
def parFuel (size : Nat) (nt : Int) : Nat := min size (ParCopy.threads nt) + 1

theorem copyRow_append (d : Block) (d0 : Nat) (s : Block) (s0 a b : Nat) :
    Model.Ntt.copyRow (Model.Ntt.copyRow d d0 s s0 a) (d0 + a) s (s0 + a) b = Model.Ntt.copyRow d d0 s s0 (a + b) := by
  induction b with
  | zero => rfl
  | succ b ih =>
    have e1 : ∀ (x : Block) (x0 y0 m : Nat), Model.Ntt.copyRow x x0 s y0 (m + 1) =
        (Model.Ntt.copyRow x x0 s y0 m).setIfInBounds (x0 + m) (s.getD (y0 + m) 0#64) := by
      intro x x0 y0 m; unfold Model.Ntt.copyRow; rw [Model.Ntt.iter_succ]
    rw [e1, ih, ← Nat.add_assoc a b 1, e1, Nat.add_assoc d0 a b, Nat.add_assoc s0 a b]

/-- the number of chunks -/
theorem chunks_le (n t : Nat) (ht : 1 ≤ t) (hn : 1 ≤ n) :
    1 ≤ (n + t - 1) / t ∧ (n + (n + t - 1) / t - 1) / ((n + t - 1) / t) ≤ min n t := by
  have hct : 1 ≤ (n + t - 1) / t := (Nat.le_div_iff_mul_le (by omega)).mpr (by omega)
  generalize hc : (n + t - 1) / t = ct at hct
  have hcov : n ≤ t * ct := by
    have h1 := Nat.div_add_mod (n + t - 1) t
    have h2 := Nat.mod_lt (n + t - 1) (show t > 0 by omega)
    rw [hc] at h1
    omega
  refine ⟨hct, ?_⟩
  have h1 : (n + ct - 1) / ct ≤ t := by
    apply Nat.le_of_lt_succ
    apply (Nat.div_lt_iff_lt_mul (by omega)).mpr
    rw [Nat.succ_mul]; omega
  have h2 : (n + ct - 1) / ct ≤ n := by
    apply Nat.le_of_lt_succ
    apply (Nat.div_lt_iff_lt_mul (by omega)).mpr
    have : n * 1 ≤ n * ct := Nat.mul_le_mul_left n hct
    rw [Nat.succ_mul]; omega
  exact Nat.le_min.mpr ⟨h2, h1⟩

section loop
variable (hp : Heap) (D S od os n ct : Nat) (hD : D < hp.size) (hDS : D ≠ S) (hn8 : n * 8 < 2 ^ 64) (hct : ct ≤ n)

/-- the heap after the chunks that start below `i` -/
def parHeap (hp : Heap) (D S od os n : Nat) (i : Nat) : Heap :=
  hp.setBlock D (Model.Ntt.copyRow (hp.block D) od (hp.block S) os (min i n))

include hD hDS hn8 hct in
theorem parcpy_body (i : Nat) (hi : i < n) (_hct1 : 1 ≤ ct) :
    parcpy_loop1 ⟨D, od⟩ ⟨S, os⟩ (bv n) (bv ct) (parHeap hp D S od os n i, bv i) =
      some (true, (parHeap hp D S od os n (i + ct), bv (i + ct))) := by
  have hlt : bv i < bv n := (lt_bv _ _ (by omega) (by omega)).mpr hi
  -- the body, semantically (`parcpy_step`: independent of how the source spells the chunk length)
  rw [parcpy_step _ _ _ _ _ _ (by rw [bv_toNat n (by omega)]; exact hn8)
    (by rw [bv_toNat n (by omega), bv_toNat ct (by omega)]; exact hct), if_pos hlt,
    bv_toNat n (by omega), bv_toNat i (by omega), bv_toNat ct (by omega), bv_add, Heap.copy_eq]
  simp only [Ptr.add_blk, Ptr.add_off]
  unfold parHeap
  rw [Heap.block_setBlock_same _ _ _ hD, Heap.block_setBlock_other _ _ _ _ (Ne.symm hDS), Heap.setBlock_setBlock, copyRow_eq,
    Nat.min_eq_left (Nat.le_of_lt hi)]
  rw [copyRow_append]
  have : i + min (n - i) ct = min (i + ct) n := by omega
  rw [this]

theorem parcpy_exit (H : Heap) (i : Nat) (hi : n ≤ i) (hi64 : i < 2 ^ 64) (hn8 : n * 8 < 2 ^ 64) (hct : ct ≤ n) (dst src : Ptr) :
    parcpy_loop1 dst src (bv n) (bv ct) (H, bv i) = some (false, (H, bv i)) := by
  have hlt : ¬ (bv i < bv n) := by rw [lt_bv _ _ hi64 (by omega)]; omega
  rw [parcpy_step _ _ _ _ _ _ (by rw [bv_toNat n (by omega)]; exact hn8)
    (by rw [bv_toNat n (by omega), bv_toNat ct (by omega)]; exact hct), if_neg hlt]

include hD hDS hn8 hct in
/-- the chunk loop from the chunk that starts at `i` -/
theorem parcpy_loop (hct1 : 1 ≤ n → 1 ≤ ct) : ∀ (f : Nat) (i : Nat), i ≤ n + ct → (n - i + ct - 1) / ct < f ∨ (n ≤ i ∧ 0 < f) →
    ∃ j, Loop.whileM (parcpy_loop1 ⟨D, od⟩ ⟨S, os⟩ (bv n) (bv ct)) f (parHeap hp D S od os n i, bv i) =
      some (parHeap hp D S od os n n, bv j) := by
  intro f
  induction f with
  | zero =>
    intro i _ h
    rcases h with h | h
    · exact absurd h (Nat.not_lt_zero _)
    · omega
  | succ f ih =>
    intro i hi hf
    by_cases hin : n ≤ i
    · refine ⟨i, ?_⟩
      rw [Loop.whileM_stop _ _ _ _ (parcpy_exit n ct _ i hin (by omega) hn8 hct _ _)]
      unfold parHeap
      rw [Nat.min_eq_right hin, Nat.min_self]
    · have hi' : i < n := by omega
      have hc1 := hct1 (by omega)
      rw [Loop.whileM_next _ _ _ _ (parcpy_body hp D S od os n ct hD hDS hn8 hct i hi' hc1)]
      apply ih (i + ct) (by omega)
      rcases hf with hf | hf
      · by_cases hle : i + ct ≤ n
        · left
          have e : n - i + ct - 1 = (n - (i + ct) + ct - 1) + ct := by omega
          rw [e, Nat.add_div_right _ (by omega)] at hf
          omega
        · right
          refine ⟨by omega, ?_⟩
          have : 1 ≤ (n - i + ct - 1) / ct := (Nat.le_div_iff_mul_le (by omega)).mpr (by omega)
          omega
      · omega

end loop

/-- **generated `parcpy` = one `memcpy` of `size` words** (destination block `D` at offset `od`, source block `S ≠ D` at offset
    `os`), for every size, every `int` thread count and every fuel above the number of chunks -/
theorem parcpy_gen (fuel : Nat) (hp : Heap) (D S od os n : Nat) (nt : Int) (hD : D < hp.size) (hDS : D ≠ S)
    (hn8 : n * 8 < 2 ^ 64) (hnt : nt < 2 ^ 63) (hf : parFuel n nt ≤ fuel) :
    parcpy fuel hp ⟨D, od⟩ ⟨S, os⟩ (bv n) nt =
      some (hp.setBlock D (Model.Ntt.copyRow (hp.block D) od (hp.block S) os n)) := by
  -- the clamped thread count and the chunk length
  generalize ht : ParCopy.threads nt = t at hf
  have ht1 : 1 ≤ t := by rw [← ht]; exact ParCopy.threads_pos nt
  have ht63 : t < 2 ^ 63 := by
    rw [← ht]; unfold ParCopy.threads
    by_cases h : nt < 1
    · rw [if_pos h]; omega
    · rw [if_neg h]; omega
  have hchunk : (bv n + bv t - 1#64) / bv t = bv ((n + t - 1) / t) := by
    rw [bv_add, bv_one, bv_sub _ _ (by omega) (by omega), bv_div _ _ (by omega) (by omega)]
  generalize hc : (n + t - 1) / t = ct at hchunk
  have hctn : ct ≤ n := by
    rw [← hc]
    rcases Nat.eq_zero_or_pos n with h0 | h1
    · subst h0
      have : (0 + t - 1) / t = 0 := Nat.div_eq_of_lt (by omega)
      rw [this]
    · apply Nat.le_of_lt_succ
      apply (Nat.div_lt_iff_lt_mul (by omega)).mpr
      have : n * 1 ≤ n * t := Nat.mul_le_mul_left _ ht1
      rw [Nat.succ_mul]; omega
  have hct1 : 1 ≤ n → 1 ≤ ct := by
    intro h; rw [← hc]; exact (chunks_le n t ht1 h).1
  have hfuel : (n - 0 + ct - 1) / ct < fuel ∨ (n ≤ 0 ∧ 0 < fuel) := by
    unfold parFuel at hf
    rcases Nat.eq_zero_or_pos n with h0 | h1
    · right; omega
    · left
      have := (chunks_le n t ht1 h1).2
      rw [hc] at this
      rw [Nat.sub_zero]
      omega
  obtain ⟨j, hw⟩ := parcpy_loop hp D S od os n ct hD hDS hn8 hctn hct1 fuel 0 (by
    omega) hfuel
  have h0 : parHeap hp D S od os n 0 = hp := by
    unfold parHeap
    rw [Nat.zero_min]
    exact Heap.setBlock_block hp D
  rw [h0] at hw
  rw [parcpy_top]
  unfold chunkBV
  rw [ht, hchunk]
  have hz : (0#64 : BitVec 64) = bv 0 := rfl
  rw [hz, hw]
  unfold parHeap
  rw [Nat.min_self]
  rfl

/-- the same in the view of the hand model `Model/ParCopy.lean` (regions = what the two pointers designate): when the destination
    range lies inside the destination block, the destination region afterwards is `ParCopy.parcpy` of the two regions -/
theorem parcpy_gen_region (hp : Heap) (D S od os n : Nat) (nt : Int) (hfit : od + n ≤ (hp.block D).size) (j : Nat) :
    (Model.Ntt.copyRow (hp.block D) od (hp.block S) os n).getD (od + j) 0#64 =
      (ParCopy.parcpy ⟨fun j => (hp.block D).getD (od + j) 0#64⟩ ⟨fun j => (hp.block S).getD (os + j) 0#64⟩ n nt) j := by
  have hseq : ∀ (dst src : Region), (ParCopy.parcpy dst src n nt) j = if j < n then src j else dst j := by
    intro dst src
    unfold ParCopy.parcpy
    rw [ParCopy.parcpyIn_apply]
    have := ParCopy.covered_iff n nt j
    by_cases h : j < n
    · rw [if_pos (this.mpr h), if_pos h]
    · rw [if_neg (fun hh => h (this.mp hh)), if_neg h]
  rw [hseq, Model.Ntt.copyRow_getD]
  by_cases h : j < n
  · rw [if_pos h, if_pos ⟨by omega, by omega, by omega⟩]
    show (hp.block S).getD (os + (od + j - od)) 0#64 = (hp.block S).getD (os + j) 0#64
    congr 2; omega
  · rw [if_neg h, if_neg (by omega)]

end GoldilocksVerif.BridgeNtt
