/-
  Line protocol shared by the Lean model driver and the C++ harness.
    request : <fn> <tok>*        tok = hex word | '[' hex* ']'   (a memory region)
    reply   : ok <hex>*  |  err <reason>
-/
namespace Driver

inductive Arg where
  | w (v : BitVec 64)
  | r (l : List (BitVec 64))
  | s (str : String)
  deriving Inhabited

def hexDigit (c : Char) : Option Nat :=
  if '0' ≤ c ∧ c ≤ '9' then some (c.toNat - '0'.toNat)
  else if 'a' ≤ c ∧ c ≤ 'f' then some (c.toNat - 'a'.toNat + 10)
  else if 'A' ≤ c ∧ c ≤ 'F' then some (c.toNat - 'A'.toNat + 10)
  else none

def parseHex (s : String) : Option Nat :=
  if s.isEmpty then none else
  s.foldl (fun acc c => match acc, hexDigit c with
    | some a, some d => some (a * 16 + d)
    | _, _ => none) (some 0)

def hexOfNat (n : Nat) : String :=
  String.ofList (Nat.toDigits 16 n)

def fmtWords (l : List (BitVec 64)) : String :=
  " ".intercalate (l.map (fun w => hexOfNat w.toNat))

/-- parse the argument tokens -/
partial def parseArgs (toks : List String) (acc : List Arg) : Option (List Arg) :=
  match toks with
  | [] => some acc.reverse
  | "[" :: rest =>
    let rec go (ts : List String) (ws : List (BitVec 64)) : Option (List (BitVec 64) × List String) :=
      match ts with
      | [] => none
      | "]" :: r => some (ws.reverse, r)
      | t :: r => match parseHex t with
        | some n => go r (BitVec.ofNat 64 n :: ws)
        | none => none
    match go rest [] with
    | some (ws, r) => parseArgs r (Arg.r ws :: acc)
    | none => none
  | t :: rest =>
    if t.startsWith "s:" then parseArgs rest (Arg.s (t.drop 2).toString :: acc)
    else match parseHex t with
    | some n => parseArgs rest (Arg.w (BitVec.ofNat 64 n) :: acc)
    | none => none

/-- array access for long argument lists (generated dispatcher): kind string = one 'w' / 'r' per argument -/
def kindsOk (a : Array Arg) (kinds : String) : Bool :=
  a.size == kinds.length &&
    (List.zip a.toList kinds.toList).all (fun p => match p.1, p.2 with
      | .w _, 'w' => true
      | .r _, 'r' => true
      | _, _ => false)

def wD (a : Array Arg) (i : Nat) : BitVec 64 :=
  match a[i]? with
  | some (.w v) => v
  | _ => 0#64

/-- scalar-alias variants `<op>__as<k>`: the scalar argument of the call is element `j` of the result array as it is
    BEFORE the call (call by value) -/
def aliasW (l : List (BitVec 64)) (j : BitVec 64) : BitVec 64 := l.getD j.toNat 0#64

def rD (a : Array Arg) (i : Nat) : List (BitVec 64) :=
  match a[i]? with
  | some (.r l) => l
  | _ => []

def words? (args : List Arg) : Option (List (BitVec 64)) :=
  args.foldr (fun a acc => match a, acc with
    | .w v, some l => some (v :: l)
    | _, _ => none) (some [])

end Driver
