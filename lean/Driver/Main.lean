import Driver.Proto
import Driver.GenDispatch
import Driver.GenDispatchP
import Driver.Hand
import Driver.NttG

open Driver

def handle (line : String) : String :=
  let toks := (line.trimAscii.toString.splitOn " ").filter (· ≠ "")
  -- "@mode:max:seed" configures the OpenMP stand-in of the implementation side (C12); the model has no threads
  let toks := match toks with
    | t :: rest => if t.startsWith "@" then rest else toks
    | [] => toks
  match toks with
  | [] => "err empty"
  | fn0 :: rest =>
    -- '!' (forked) and '^' (guard pages) only concern the implementation side of the protocol
    let fn := String.ofList (fn0.toList.dropWhile (fun c => c == '!' || c == '^'))
    -- "<op>__ra<o>_<k>": the implementation side passes ONE register object as output o and input k; by value it is `<op>`
    let fn := match fn.splitOn "__ra" with
      | [base, suf] => if suf.toList.all (fun c => c.isDigit || c == '_') && !suf.isEmpty then base else fn
      | _ => fn
    match parseArgs rest [] with
    | none => "err parse"
    | some args =>
      match genDispatch fn args with
      | some ws => if ws.isEmpty then "ok" else "ok " ++ fmtWords ws
      | none =>
        match genDispatchLong fn args.toArray with
        | some ws => if ws.isEmpty then "ok" else "ok " ++ fmtWords ws
        | none =>
        match genDispatchP fn args with      -- functions of the extended-translator modules (fuel / Option)
        | some s => s
        | none =>
        match handDispatch fn args with
        | some s => s
        | none =>
        match c03g fn args with              -- NTT / INTT / extendPol histories on the model GENERATED from ntt_goldilocks.cpp
        | some s => s
        | none => "err unknown-op"

partial def loop (hin : IO.FS.Stream) (hout : IO.FS.Stream) : IO Unit := do
  let line ← hin.getLine
  if line.isEmpty then return ()
  hout.putStrLn (handle line)
  loop hin hout

def main : IO Unit := do
  let hin ← IO.getStdin
  let hout ← IO.getStdout
  loop hin hout
  hout.flush
