/- hand-written driver operations (models that are not generated, and aliasing patterns) -/
import Driver.Proto
import GoldilocksVerif.Gen.Scalar
import GoldilocksVerif.Model.Inv
import GoldilocksVerif.Model.Conv
import GoldilocksVerif.Model.Ext
import GoldilocksVerif.Model.Sponge
import GoldilocksVerif.Model.Ntt
import GoldilocksVerif.Model.ParCopy
import GoldilocksVerif.Model.NttAlloc
import GoldilocksVerif.Gen.PosScalar
import GoldilocksVerif.Gen.PosAvx2
import GoldilocksVerif.Gen.PosAvx512
namespace Driver
open Gen.Scalar

def okW (l : List (BitVec 64)) : Option String := some (if l.isEmpty then "ok" else "ok " ++ fmtWords l)

/-- C01: the generated scalar operations are value functions; every aliasing pattern of the C++
    call denotes the same function applied to the values the operands held before the call. -/
def c01Alias (fn : String) (args : List Arg) : Option String :=
  let f? : Option (BitVec 64 → BitVec 64 → BitVec 64) :=
    if fn.startsWith "alias_add_" then some add__eEE
    else if fn.startsWith "alias_sub_" then some sub__eEE
    else if fn.startsWith "alias_mul_" then some mul__eEE
    else none
  match f?, args with
  | some f, [.w a, .w b] => if fn.endsWith "_oa" || fn.endsWith "_ob" then okW [f a b] else none
  | some f, [.w a] => if fn.endsWith "_ab" || fn.endsWith "_oab" then okW [f a a] else none
  | _, _ => none

/-- C10: hand models of inv / div / exp.  `none` from the model = the library ends the process with exit(-1),
    which the harness (forked child) reports as `err exit 255`. -/
def c10 (fn : String) (args : List Arg) : Option String :=
  match fn, args with
  | "inv", [.w a] => match GoldilocksVerif.Model.inv a with
      | some r => okW [r]
      | none => some "err exit 255"
  | "div", [.w a, .w b] => match GoldilocksVerif.Model.div a b with
      | some r => okW [r]
      | none => some "err exit 255"
  | "exp", [.w b, .w e] => okW [GoldilocksVerif.Model.exp b e]
  -- aliased call patterns: the model is a value function of the operand values before the call
  | "inv_oa", [.w a] => match GoldilocksVerif.Model.inv a with
      | some r => okW [r]
      | none => some "err exit 255"
  | "div_oa", [.w a, .w b] => match GoldilocksVerif.Model.div a b with
      | some r => okW [r]
      | none => some "err exit 255"
  | "div_ob", [.w a, .w b] => match GoldilocksVerif.Model.div a b with
      | some r => okW [r]
      | none => some "err exit 255"
  | "div_oab", [.w a] => match GoldilocksVerif.Model.div a a with
      | some r => okW [r]
      | none => some "err exit 255"
  | "exp_oa", [.w b, .w e] => okW [GoldilocksVerif.Model.exp b e]
  | _, _ => none

/-- C15: conversions -/
def c15 (fn : String) (args : List Arg) : Option String :=
  open GoldilocksVerif.Model in
  match fn, args with
  | "fromS64", [.w x] => okW [fromS64 x]
  | "fromS32", [.w x] => okW [fromS32 (x.truncate 32)]
  | "fromString", [.w radix, .s str] => match fromString str radix.toNat with
      | some r => okW [r]
      | none => some "err bad-numeral"
  | "fromScalar", [.w radix, .s str] => match fromString str radix.toNat with
      | some r => okW [r]
      | none => some "err bad-numeral"
  | "toS64", [.w a] => okW [BitVec.ofInt 64 (toS64 a)]
  | "toS32", [.w a] => let r := toS32 a
      if r.1 then okW [1#64, BitVec.ofInt 64 r.2] else okW [0#64]
  | "rt32", [.w x] => let r := toS32 (fromS32 (x.truncate 32))
      if r.1 then okW [1#64, BitVec.ofInt 64 r.2] else okW [0#64]
  | "toString", [.w a, .w radix] => some ("ok s:" ++ toStringR a radix.toNat)
  | _, _ => none

/-- C09: cubic extension — hand models and the generated aliased-call variants -/
def e3Words (e : GoldilocksVerif.Model.E3) : List (BitVec 64) := [e.c0, e.c1, e.c2]
def chunk3 : List (BitVec 64) → List GoldilocksVerif.Model.E3
  | a :: b :: c :: rest => ⟨a, b, c⟩ :: chunk3 rest
  | _ => []

def c09 (fn : String) (args : List Arg) : Option String :=
  open GoldilocksVerif GoldilocksVerif.Model Gen.Ext in
  let r3 (a b c : BitVec 64) : Region := Region.ofList [a, b, c]
  let out (r : Region) : Option String := okW (Region.toList r 3)
  match fn, args with
  | "g3inv", [.w a, .w b, .w c] => match g3inv ⟨a, b, c⟩ with
      | some e => okW (e3Words e) | none => some "err exit 255"
  | "g3div", [.w a, .w b, .w c, .w d] => match g3div ⟨a, b, c⟩ d with
      | some e => okW (e3Words e) | none => some "err exit 255"
  | "g3mulScalar", [.w a, .w b, .w c, .s str] => match g3mulScalar ⟨a, b, c⟩ str with
      | some e => okW (e3Words e) | none => some "err bad-numeral"
  | "g3batchinv", [.r l] => match g3batchInverse (chunk3 l) with
      | some es => okW (es.flatMap e3Words) | none => some "err exit 255"
  | "g3al_add_oa", [.w a, .w b, .w c, .w d, .w e, .w f] => out (G3_add__a3A3A3_al_result_a (r3 a b c) (r3 d e f))
  | "g3al_add_ob", [.w a, .w b, .w c, .w d, .w e, .w f] => out (G3_add__a3A3A3_al_result_b (r3 d e f) (r3 a b c))
  | "g3al_add_ab", [.w a, .w b, .w c] => out (G3_add__a3A3A3_al_a_b Region.zero (r3 a b c))
  | "g3al_add_oab", [.w a, .w b, .w c] => out (G3_add__a3A3A3_al_result_a_al_result_b (r3 a b c))
  | "g3al_sub_oa", [.w a, .w b, .w c, .w d, .w e, .w f] => out (G3_sub__a3a3a3_al_result_a (r3 a b c) (r3 d e f))
  | "g3al_sub_ob", [.w a, .w b, .w c, .w d, .w e, .w f] => out (G3_sub__a3a3a3_al_result_b (r3 d e f) (r3 a b c))
  | "g3al_sub_ab", [.w a, .w b, .w c] => out (G3_sub__a3a3a3_al_a_b Region.zero (r3 a b c))
  | "g3al_sub_oab", [.w a, .w b, .w c] => out (G3_sub__a3a3a3_al_result_a_al_result_b (r3 a b c))
  | "g3al_mul_oa", [.w a, .w b, .w c, .w d, .w e, .w f] => out (G3_mul__a3a3a3_al_result_a (r3 a b c) (r3 d e f))
  | "g3al_mul_ob", [.w a, .w b, .w c, .w d, .w e, .w f] => out (G3_mul__a3a3a3_al_result_b (r3 d e f) (r3 a b c))
  | "g3al_mul_ab", [.w a, .w b, .w c] => out (G3_mul__a3a3a3_al_a_b Region.zero (r3 a b c))
  | "g3al_mul_oab", [.w a, .w b, .w c] => out (G3_mul__a3a3a3_al_result_a_al_result_b (r3 a b c))
  | "g3al_neg_oa", [.w a, .w b, .w c] => out (G3_neg_al_result_a (r3 a b c))
  | "g3al_square_oa", [.w a, .w b, .w c] => out (G3_square_al_result_a (r3 a b c))
  | _, _ => none

/-- C06/C07/C08: permutations from the generated models, sponge and Merkle builders from Model/Sponge.lean -/
def permSeq (l : List (BitVec 64)) : List (BitVec 64) :=
  GoldilocksVerif.Region.toList (Gen.PosScalar.Pos_hash_full_result_seq GoldilocksVerif.Region.zero (GoldilocksVerif.Region.ofList l)) 12
def permAvx (l : List (BitVec 64)) : List (BitVec 64) :=
  GoldilocksVerif.Region.toList (Gen.PosAvx2.Pos_hash_full_result GoldilocksVerif.Region.zero (GoldilocksVerif.Region.ofList l)) 12
def perm512 (l : List (BitVec 64)) : List (BitVec 64) :=
  GoldilocksVerif.Region.toList (Gen.PosAvx512.Pos_hash_full_result_avx512 GoldilocksVerif.Region.zero (GoldilocksVerif.Region.ofList l)) 24

def splitRows (cols : Nat) : Nat → List (BitVec 64) → List (List (BitVec 64))
  | 0, _ => []
  | k + 1, l => l.take cols :: splitRows cols k (l.drop cols)

open GoldilocksVerif.Model in
/-- leaves of the AVX512 builders: rows are hashed two at a time; a last odd row goes through the one-state sponge -/
def leaves512 (lh2 : List (BitVec 64) → Nat → List (BitVec 64)) (lh1 : List (BitVec 64) → List (BitVec 64)) :
    List (List (BitVec 64)) → List (BitVec 64)
  | a :: b :: rest => lh2 (a ++ b) a.length ++ leaves512 lh2 lh1 rest
  | [a] => lh1 a
  | [] => []

open GoldilocksVerif.Model in
def batchLeaf512 (cols dim batch : Nat) (a b : List (BitVec 64)) : List (BitVec 64) :=
  let nbatches := if cols > 0 then (cols + batch - 1) / batch else 1
  let nlastb := cols - (nbatches - 1) * batch
  let parts := (List.range nbatches).map (fun j =>
    let nn := if j = nbatches - 1 then nlastb else batch
    let pa := (a.drop (j * batch * dim)).take (nn * dim)
    let pb := (b.drop (j * batch * dim)).take (nn * dim)
    linearHash512 perm512 (pa ++ pb) (nn * dim))
  let buff0 := (parts.map (fun d => d.take 4)).flatten ++ (parts.map (fun d => (d.drop 4).take 4)).flatten
  linearHash512 perm512 buff0 (nbatches * 4)

def batchLeaves512 (cols dim batch : Nat) : List (List (BitVec 64)) → List (BitVec 64)
  | a :: b :: rest => batchLeaf512 cols dim batch a b ++ batchLeaves512 cols dim batch rest
  | [a] => GoldilocksVerif.Model.batchLeaf (GoldilocksVerif.Model.linearHash permAvx) cols dim batch a
  | [] => []

def c0678 (fn : String) (args : List Arg) : Option String :=
  open GoldilocksVerif.Model in
  match fn, args with
  | "lh_seq", [.r l] => okW (linearHash permSeq l)
  | "lh_avx", [.r l] => okW (linearHash permAvx l)
  | "lh_avx512", [.w size, .r l] => okW (linearHash512 perm512 l size.toNat)
  | "treesize", [.w n] => okW [BitVec.ofNat 64 (treeNumElements n.toNat)]
  | "mt", [.w variant, .w rows, .w cols, .w dim, .w _thr, .r l] =>
    let rs := splitRows (cols.toNat * dim.toNat) rows.toNat l
    if rows.toNat = 0 then okW [] else
    match variant.toNat with
    | 0 => okW (merkleTree (linearHash permSeq) (fun x => (permSeq (x ++ zeros 4)).take 4) rs)
    | 1 => okW (merkleTree (linearHash permAvx) (fun x => (permAvx (x ++ zeros 4)).take 4) rs)
    | _ =>   -- avx512 builder and the default wrapper (which selects it under __AVX512__)
      let lv := leaves512 (linearHash512 perm512) (linearHash permAvx) rs
      okW (lv ++ upperLevels (fun x => (permAvx (x ++ zeros 4)).take 4) rs.length rs.length lv)
  | "mtb", [.w variant, .w rows, .w cols, .w dim, .w batch, .w _thr, .r l] =>
    let rs := splitRows (cols.toNat * dim.toNat) rows.toNat l
    if rows.toNat = 0 then okW [] else
    match variant.toNat with
    | 0 => okW (merkleTree (batchLeaf (linearHash permSeq) cols.toNat dim.toNat batch.toNat) (fun x => (permSeq (x ++ zeros 4)).take 4) rs)
    | 1 => okW (merkleTree (batchLeaf (linearHash permAvx) cols.toNat dim.toNat batch.toNat) (fun x => (permAvx (x ++ zeros 4)).take 4) rs)
    | _ =>
      let lv := batchLeaves512 cols.toNat dim.toNat batch.toNat rs
      okW (lv ++ upperLevels (fun x => (permAvx (x ++ zeros 4)).take 4) rs.length rs.length lv)
  | _, _ => none

/-- C03/C04/C05/C19: a history of transform calls on ONE object.
    nttseq <objSize> <threads> <ncalls> ( <op> <n> <next> <ncols> <nphase> <nblock> <buf> <mode> [data] )*
    op 0 = NTT, 1 = INTT, 2 = extendPol; mode 0 = dst==src, 1 = other buffer, 2 = NULL.
    reply: for every call the destination content, and the source content when the destination is another buffer. -/
partial def nttCalls (o : GoldilocksVerif.Model.Ntt.Obj) (args : List Arg) (acc : List (BitVec 64)) : Except String (List (BitVec 64)) :=
  open GoldilocksVerif.Model.Ntt in
  match args with
  | [] => .ok acc
  | .w op :: .w n :: .w next :: .w ncols :: .w nphase :: .w nblock :: .w _buf :: .w mode :: .r data :: rest =>
    let n := n.toNat; let next := next.toNat; let ncols := ncols.toNat
    let src : Buf := data.toArray
    let dm : DstMode := if mode.toNat = 0 then .same else if mode.toNat = 1 then .other else .null
    if op.toNat = 2 then
      let same := mode.toNat = 0
      let outB : Buf := Array.replicate (next * ncols) 0xA5A5A5A5A5A5A5A5#64
      match extendPol o same outB src next n ncols nphase.toNat nblock.toNat with
      | .error e => .error e
      | .ok (o', out) => nttCalls o' rest (acc ++ out.toList)
    else
      let dstB : Buf := Array.replicate (n * ncols) 0xA5A5A5A5A5A5A5A5#64
      let r := if op.toNat = 0 then ntt o dm dstB src n ncols nphase.toNat nblock.toNat false false
               else intt o dm dstB src n ncols nphase.toNat nblock.toNat false
      match r with
      | .error e => .error e
      | .ok (d, s') => nttCalls o rest (acc ++ d.toList ++ (if dm = .other then s'.toList else []))
  | _ => .error "parse"

def c03 (fn : String) (args : List Arg) : Option String :=
  match fn, args with
  | "nttseq", .w objSize :: .w _thr :: .w _n :: rest =>
    match GoldilocksVerif.Model.Ntt.mkObj objSize.toNat 1 with
    | none => some "err exception"
    | some o => match nttCalls o rest [] with
      | .ok ws => okW ws
      | .error e => if e == "parse" then some "err parse" else some "err signal 6"
  | _, _ => none

/-- C17/C12: parcpy / parSetZero; `rev` = the chunk iterations executed in reverse order -/
def c17 (fn : String) (args : List Arg) : Option String :=
  open GoldilocksVerif GoldilocksVerif.ParCopy in
  match fn, args with
  | "parcpy", [.w nt, .r dst, .r src] =>
      okW (Region.toList (parcpy (Region.ofList dst) (Region.ofList src) src.length nt.toInt) dst.length)
  | "parcpy_rev", [.w nt, .r dst, .r src] =>
      okW (Region.toList (parcpyIn (starts src.length nt.toInt).reverse (Region.ofList dst) (Region.ofList src) src.length nt.toInt) dst.length)
  | "parsetzero", [.w size, .w nt, .r dst] =>
      okW (Region.toList (parSetZero (Region.ofList dst) size.toNat nt.toInt) dst.length)
  | _, _ => none

/-- C18: the allocation trace predicted by Model/NttAlloc.lean, in the harness's word encoding -/
def c18Calls : List Arg → List GoldilocksVerif.NttAlloc.Call → Option (List GoldilocksVerif.NttAlloc.Call)
  | [], acc => some acc.reverse
  | .w op :: .w n :: .w next :: .w ncols :: .w _nphase :: .w nblock :: .w usebuf :: rest, acc =>
      let c := if op == 2#64 then GoldilocksVerif.NttAlloc.Call.extendPol next.toNat n.toNat ncols.toNat nblock.toNat (usebuf != 0#64)
               else GoldilocksVerif.NttAlloc.Call.ntt n.toNat ncols.toNat nblock.toNat (usebuf != 0#64)
      c18Calls rest (c :: acc)
  | _, _ => none

def c18 (fn : String) (args : List Arg) : Option String :=
  open GoldilocksVerif.NttAlloc in
  match fn, args with
  | "nttalloc", .w objSize :: .w _thr :: .w _n :: rest =>
    match c18Calls rest [] with
    | none => some "err parse"
    | some cs =>
      let fam : Kind → BitVec 64 := fun k => match k with
        | .malloc => 0#64 | .newArr => 1#64 | .scalar => 2#64
      let ws := (lifeEv objSize.toNat cs).flatMap (fun e => match e with
        | .alloc k b => [1#64, fam k, BitVec.ofNat 64 b]
        | .free k i => [2#64, fam k, BitVec.ofNat 64 i])
      okW ws
  | _, _ => none

def handDispatch (fn : String) (args : List Arg) : Option String :=
  match c18 fn args with
  | some s => some s
  | none =>
  match c17 fn args with
  | some s => some s
  | none =>
  match c01Alias fn args with
  | some s => some s
  | none =>
  match c10 fn args with
  | some s => some s
  | none =>
  match c15 fn args with
  | some s => some s
  | none =>
  match c09 fn args with
  | some s => some s
  | none =>
  match c0678 fn args with
  | some s => some s
  | none =>
  match c03 fn args with
  | some s => some s
  | none => none

end Driver
