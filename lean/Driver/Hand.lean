/- hand-written driver operations (models that are not generated, and aliasing patterns) -/
import Driver.Proto
import GoldilocksVerif.Gen.Scalar
import GoldilocksVerif.Model.Inv
import GoldilocksVerif.Model.Conv
import GoldilocksVerif.Model.Ext
namespace Driver
open Gen.Scalar

def okW (l : List (BitVec 64)) : Option String := some ("ok " ++ fmtWords l)

/-- C01: the generated scalar operations are value functions; every aliasing pattern of the C++
    call denotes the same function applied to the values the operands held before the call. -/
def c01Alias (fn : String) (args : List Arg) : Option String :=
  let f? : Option (BitVec 64 → BitVec 64 → BitVec 64) :=
    if fn.startsWith "alias_add_" then some add__eEE
    else if fn.startsWith "alias_sub_" then some sub__eEE
    else if fn.startsWith "alias_mul_" then some mul__eEE
    else none
  match f?, args with
  | some f, [.w a, .w b] => if fn.endsWith "_oa" || fn.endsWith "_ob" then okW [f a b] else none
  | some f, [.w a] => if fn.endsWith "_ab" || fn.endsWith "_oab" then okW [f a a] else none
  | _, _ => none

/-- C10: hand models of inv / div / exp.  `none` from the model = the library ends the process with exit(-1),
    which the harness (forked child) reports as `err exit 255`. -/
def c10 (fn : String) (args : List Arg) : Option String :=
  match fn, args with
  | "inv", [.w a] => match GoldilocksVerif.Model.inv a with
      | some r => okW [r]
      | none => some "err exit 255"
  | "div", [.w a, .w b] => match GoldilocksVerif.Model.div a b with
      | some r => okW [r]
      | none => some "err exit 255"
  | "exp", [.w b, .w e] => okW [GoldilocksVerif.Model.exp b e]
  | _, _ => none

/-- C15: conversions -/
def c15 (fn : String) (args : List Arg) : Option String :=
  open GoldilocksVerif.Model in
  match fn, args with
  | "fromS64", [.w x] => okW [fromS64 x]
  | "fromS32", [.w x] => okW [fromS32 (x.truncate 32)]
  | "fromString", [.w radix, .s str] => match fromString str radix.toNat with
      | some r => okW [r]
      | none => some "err bad-numeral"
  | "fromScalar", [.w radix, .s str] => match fromString str radix.toNat with
      | some r => okW [r]
      | none => some "err bad-numeral"
  | "toS64", [.w a] => okW [BitVec.ofInt 64 (toS64 a)]
  | "toS32", [.w a] => let r := toS32 a
      if r.1 then okW [1#64, BitVec.ofInt 64 r.2] else okW [0#64]
  | "rt32", [.w x] => let r := toS32 (fromS32 (x.truncate 32))
      if r.1 then okW [1#64, BitVec.ofInt 64 r.2] else okW [0#64]
  | "toString", [.w a, .w radix] => some ("ok s:" ++ toStringR a radix.toNat)
  | _, _ => none

/-- C09: cubic extension — hand models and the generated aliased-call variants -/
def e3Words (e : GoldilocksVerif.Model.E3) : List (BitVec 64) := [e.c0, e.c1, e.c2]
def chunk3 : List (BitVec 64) → List GoldilocksVerif.Model.E3
  | a :: b :: c :: rest => ⟨a, b, c⟩ :: chunk3 rest
  | _ => []

def c09 (fn : String) (args : List Arg) : Option String :=
  open GoldilocksVerif GoldilocksVerif.Model Gen.Ext in
  let r3 (a b c : BitVec 64) : Region := Region.ofList [a, b, c]
  let out (r : Region) : Option String := okW (Region.toList r 3)
  match fn, args with
  | "g3inv", [.w a, .w b, .w c] => match g3inv ⟨a, b, c⟩ with
      | some e => okW (e3Words e) | none => some "err exit 255"
  | "g3div", [.w a, .w b, .w c, .w d] => match g3div ⟨a, b, c⟩ d with
      | some e => okW (e3Words e) | none => some "err exit 255"
  | "g3mulScalar", [.w a, .w b, .w c, .s str] => match g3mulScalar ⟨a, b, c⟩ str with
      | some e => okW (e3Words e) | none => some "err bad-numeral"
  | "g3batchinv", [.r l] => match g3batchInverse (chunk3 l) with
      | some es => okW (es.flatMap e3Words) | none => some "err exit 255"
  | "g3al_add_oa", [.w a, .w b, .w c, .w d, .w e, .w f] => out (G3_add__a3A3A3_al_result_a (r3 a b c) (r3 d e f))
  | "g3al_add_ob", [.w a, .w b, .w c, .w d, .w e, .w f] => out (G3_add__a3A3A3_al_result_b (r3 d e f) (r3 a b c))
  | "g3al_add_ab", [.w a, .w b, .w c] => out (G3_add__a3A3A3_al_a_b Region.zero (r3 a b c))
  | "g3al_add_oab", [.w a, .w b, .w c] => out (G3_add__a3A3A3_al_result_a_al_result_b (r3 a b c))
  | "g3al_sub_oa", [.w a, .w b, .w c, .w d, .w e, .w f] => out (G3_sub__a3a3a3_al_result_a (r3 a b c) (r3 d e f))
  | "g3al_sub_ob", [.w a, .w b, .w c, .w d, .w e, .w f] => out (G3_sub__a3a3a3_al_result_b (r3 d e f) (r3 a b c))
  | "g3al_sub_ab", [.w a, .w b, .w c] => out (G3_sub__a3a3a3_al_a_b Region.zero (r3 a b c))
  | "g3al_sub_oab", [.w a, .w b, .w c] => out (G3_sub__a3a3a3_al_result_a_al_result_b (r3 a b c))
  | "g3al_mul_oa", [.w a, .w b, .w c, .w d, .w e, .w f] => out (G3_mul__a3a3a3_al_result_a (r3 a b c) (r3 d e f))
  | "g3al_mul_ob", [.w a, .w b, .w c, .w d, .w e, .w f] => out (G3_mul__a3a3a3_al_result_b (r3 d e f) (r3 a b c))
  | "g3al_mul_ab", [.w a, .w b, .w c] => out (G3_mul__a3a3a3_al_a_b Region.zero (r3 a b c))
  | "g3al_mul_oab", [.w a, .w b, .w c] => out (G3_mul__a3a3a3_al_result_a_al_result_b (r3 a b c))
  | "g3al_neg_oa", [.w a, .w b, .w c] => out (G3_neg_al_result_a (r3 a b c))
  | "g3al_square_oa", [.w a, .w b, .w c] => out (G3_square_al_result_a (r3 a b c))
  | _, _ => none

def handDispatch (fn : String) (args : List Arg) : Option String :=
  match c01Alias fn args with
  | some s => some s
  | none =>
  match c10 fn args with
  | some s => some s
  | none =>
  match c15 fn args with
  | some s => some s
  | none =>
  match c09 fn args with
  | some s => some s
  | none => none

end Driver
