/-
  C03/C04/C05/C19, GENERATED model: the request `nttseqg` has the arguments of `nttseq` (Driver/Hand.lean) and is answered by
  the functions TRANSLATED from ntt_goldilocks.cpp / .hpp (Gen/NttGen.lean, heap mode of the translator: tools/tr_heap.py,
  Model/TrHeap.lean) instead of the hand model Model/Ntt.lean.

    nttseqg <objSize> <threads> <ncalls> ( <op> <n> <next> <ncols> <nphase> <nblock> <buf> <mode> [data] )*
    op 0 = NTT, 1 = INTT, 2 = extendPol; mode 0 = dst==src, 1 = other buffer, 2 = NULL; buf ≠ 0 = caller scratch buffer.

  The heap starts with the NULL block only; the constructor allocates roots / powTwoInv in it; every call gets fresh
  blocks for the source (the data), the destination (mode 1, filled with the harness's sentinel) and the scratch buffer,
  exactly the buffers harness/hand_dispatch.inc (c03_ops) passes.  Hand-written: when a signature in the source changes,
  this file stops compiling and the checks report the driver build as a broken obligation.
-/
import Driver.Proto
import GoldilocksVerif.Gen.NttGen

open GoldilocksVerif Gen.NttGen

namespace Driver

/-- fuel of every fuel-bounded loop (never exhausted on executed cases: `none` = ended by the code) -/
def nttFuel : Nat := 1099511627776

def readBlock (hp : Heap) (p : Ptr) (n : Nat) : List (BitVec 64) :=
  (List.range n).map (fun i => Heap.get hp p i)

partial def nttCallsG (hp : Heap) (o : NTT_Goldilocks) (args : List Arg) (acc : List (BitVec 64)) :
    Except String (List (BitVec 64)) :=
  match args with
  | [] => .ok acc
  | .w op :: .w n :: .w next :: .w ncols :: .w nphase :: .w nblock :: .w buf :: .w mode :: .r data :: rest =>
    let outRows := if op.toNat = 2 then next.toNat else n.toNat
    let a1 := Heap.allocWith hp data.toArray
    let hp := a1.1
    let s := a1.2
    let a2 := if mode.toNat = 1 then Heap.allocWith hp (Array.replicate (outRows * ncols.toNat) 0xA5A5A5A5A5A5A5A5#64)
              else (hp, if mode.toNat = 0 then s else Ptr.null)
    let hp := a2.1
    let d := a2.2
    let a3 := if buf.toNat ≠ 0 then Heap.alloc hp (outRows * ncols.toNat) else (hp, Ptr.null)
    let hp := a3.1
    let b := a3.2
    let res := if mode.toNat = 1 then d else s
    if op.toNat = 2 then
      match NTT_extendPol nttFuel hp o d s next n ncols b nphase nblock with
      | none => .error "abort"
      | some (hp, o) => nttCallsG hp o rest (acc ++ readBlock hp res (outRows * ncols.toNat))
    else
      let r := if op.toNat = 0 then NTT_NTT nttFuel hp o d s n ncols b nphase nblock false false
               else NTT_INTT nttFuel hp o d s n ncols b nphase nblock false
      match r with
      | none => .error "abort"
      | some hp =>
        nttCallsG hp o rest (acc ++ readBlock hp res (outRows * ncols.toNat) ++
          (if mode.toNat = 1 then readBlock hp s (n.toNat * ncols.toNat) else []))
  | _ => .error "parse"

def c03g (fn : String) (args : List Arg) : Option String :=
  match fn, args with
  | "nttseqg", .w objSize :: .w thr :: .w _n :: rest =>
    match NTT_ctor nttFuel Heap.empty NTT_Goldilocks.init objSize (BitVec.setWidth 32 thr) 1 with
    | none => some "err exception"
    | some (hp, o) => match nttCallsG hp o rest [] with
      | .ok ws => some (if ws.isEmpty then "ok" else "ok " ++ fmtWords ws)
      | .error e => if e == "parse" then some "err parse" else some "err signal 6"
  | _, _ => none

end Driver
