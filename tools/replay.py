"""./check Cxx --replay file : re-run the recorded lines against a fresh build of /repo"""
import json, sys
from common import *


def main(pid, path):
    import importlib
    mod = importlib.import_module("props." + pid)
    if hasattr(mod, "replay"):          # properties without a C++ harness (C20) replay on their own engine
        return mod.replay(path)
    with open(path) as f:
        rp = json.load(f)
    if rp.get("kind") == "broken-obligation":
        print("replay: broken obligation (no concrete input was found):")
        for o in rp["obligations"]:
            print(" -", o["what"])
        print("re-run ./check %s to see whether it still fails" % rp["property"])
        return 0
    run_gen()
    h, err = build_harness("O1")
    if err:
        print(err)
        return 2
    bad = 0
    for c in rp.get("cases", []):
        out = run_parallel(h, c["lines"], jobs=1)
        same = (out and out[-1] == c["observed"])
        print("lines: %s\n  expected: %s\n  recorded: %s\n  now     : %s" % (c["lines"], c["expected"], c["observed"], out))
        if same:
            bad += 1
    print("replay: %d of %d recorded failures reproduce" % (bad, len(rp.get("cases", []))))
    return 1 if bad else 0
