"""Independent Python reference of the Poseidon permutation (spec of C06) on the library's constants, read from
/repo/src/poseidon_goldilocks_constants.hpp (the non-Montgomery branch)."""
import re, os
P = 0xFFFFFFFF00000001
_cache = {}


def constants(src_dir):
    key = src_dir
    if key in _cache:
        return _cache[key]
    txt = open(os.path.join(src_dir, "poseidon_goldilocks_constants.hpp")).read()
    i = txt.index("#else")
    j = txt.rindex("#endif")
    body = txt[i:j]
    out = {}
    for m in re.finditer(r"Goldilocks::Element\s+(\w+)((?:\[\d+\])+)\s*=?\s*\{(.*?)\};", body, re.S):
        name, dims, vals = m.group(1), m.group(2), m.group(3)
        nums = [int(x, 0) for x in re.findall(r"0[xX][0-9a-fA-F]+|\b\d+\b", vals)]
        tot = 1
        for d in re.findall(r"\[(\d+)\]", dims):
            tot *= int(d)
        nums += [0] * (tot - len(nums))
        out[name] = nums
    _cache[key] = out
    return out


def permute(state, K):
    C, M, Pm, S = K["C"], K["M"], K["P"], K["S"]
    st = [x % P for x in state]

    def mvp(st, mat):
        return [sum(mat[j * 12 + i] * st[j] for j in range(12)) % P for i in range(12)]
    st = [(st[i] + C[i]) % P for i in range(12)]
    for r in range(3):
        st = [(pow(st[i], 7, P) + C[(r + 1) * 12 + i]) % P for i in range(12)]
        st = mvp(st, M)
    st = [(pow(st[i], 7, P) + C[48 + i]) % P for i in range(12)]
    st = mvp(st, Pm)
    for r in range(22):
        st[0] = (pow(st[0], 7, P) + C[60 + r]) % P
        s0 = sum(st[i] * S[23 * r + i] for i in range(12)) % P
        x0 = st[0]
        st = [(st[i] + x0 * S[23 * r + 11 + i]) % P for i in range(12)]
        st[0] = s0
    for r in range(3):
        st = [(pow(st[i], 7, P) + C[82 + 12 * r + i]) % P for i in range(12)]
        st = mvp(st, M)
    st = [pow(st[i], 7, P) for i in range(12)]
    st = mvp(st, M)
    return st
