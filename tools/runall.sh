#!/bin/sh
# run every claimed check (quick tier) on the current tree; evidence is rewritten
cd "$(dirname "$0")/.." || exit 1
rc=0
for id in $(python3 -c "import json;print(' '.join(c['property_id'] for c in json.load(open('MANIFEST.json'))['checks']))"); do
  ./check "$id" --tier "${1:-quick}" | tail -2 || rc=1
done
exit $rc
