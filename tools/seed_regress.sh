#!/bin/bash
# re-run every stored seeded change against the check of its property (long: ~1 h); prints one line per change
ROOT="$(cd "$(dirname "$0")/.." && pwd)"
cd "$ROOT"
# optional sharding: tools/seed_regress.sh <k> <n> runs the entries whose index is k modulo n
K=${1:-0}; N=${2:-1}; i=-1
for d in seeded/*/; do
  i=$((i+1)); [ $((i % N)) -eq $K ] || continue
  n=$(basename $d)
  case $n in harmless-*) p=$(python3 -c "import json;print(json.load(open('$d/meta.json'))['property'])");; *) p=${n:0:3};; esac
  r=$(tools/seedrun.sh $n $p 2>&1 | grep -E "^(VIOLATION|OK|KNOWN)" | head -1)
  echo "$n $p :: $r"
done
