"""Translator: C++ subset of the goldilocks library (clang-14 JSON AST) -> Lean 4 definitions.

Value model
  uint64_t / Goldilocks::Element            -> BitVec 64
  __m256i / __m512i                          -> V4 / V8  (structures of 64-bit lanes)
  __mmask8 / __mmask16                       -> BitVec 8 / BitVec 16
  T* / T[] (Element, uint64_t)               -> Region  (Nat -> BitVec 64), functional update
  non-const reference / pointer parameters   -> returned in a result tuple
  mpz mode only (module flag "mpz", section "mpz mode" below; DESIGN.CONV.md):
  mpz_class / gmpxx expression templates     -> Int   (`%` = Int.tmod; get_ui / get_si / get_str, string constructor: Model/TrMpz.lean)
  std::string                                -> String
  int64_t / int32_t                          -> BitVec 64 / BitVec 32 (two's complement)
Control
  straight-line code, if/else joined on the assigned variables, constant-trip `for` loops
  (unrolled up to UNROLL_MAX iterations, otherwise `Loop.range` folds), GNU inline asm through
  tr_asm.  Anything outside the subset raises Unsupported with the offending node.
"""
import re
from astload import Ast, AstError
import tr_asm

UNROLL_MAX = 16


class Unsupported(Exception):
    def __init__(self, node, why):
        self.node = node
        self.why = why
        loc = ""
        try:
            b = node.get("range", {}).get("begin", {})
            if "expansionLoc" in b:
                b = b["expansionLoc"]
            loc = "%s@%s" % (b.get("file"), b.get("offset"))
        except Exception:
            pass
        super().__init__("%s: %s (%s)" % (node.get("kind"), why, loc))


class NeedPartial(Unsupported):
    """raised while translating a function in total mode when it needs the partial (fuel / Option) form"""
    pass


# lower bounds of the Nat-valued loop variables currently in scope (ext mode): lets `i - 1` be emitted for a loop from 1
NAT_LO = {}

# "mpz mode" (module flag "mpzc", set by gen.py around the translation of one module): GMP's `mpz_class` values are Lean
# `Int`s, `std::string` is `String`, `int64_t` / `int32_t` are two's complement `BitVec 64` / `BitVec 32` (categories
# mpz, str, s64, s32; run-time support Model/TrMpz.lean).  Off for every other module: their output is unchanged.
MPZ_MODE = False
MPZ_CATS = ("mpzc", "str", "s64", "s32")


class Const:
    """compile-time integer"""
    def __init__(self, v):
        self.v = v


class NatExpr:
    """affine index expression  c + Σ k_v · v  over Nat-valued loop variables of folded loops"""
    def __init__(self, coeffs, const=0):
        self.coeffs = dict((k, v) for k, v in coeffs.items() if v != 0)
        self.const = const

    @staticmethod
    def lift(x):
        if isinstance(x, NatExpr):
            return x
        return NatExpr({}, x.v)

    def add(self, o, sign=1):
        c = dict(self.coeffs)
        for k, v in o.coeffs.items():
            c[k] = c.get(k, 0) + sign * v
        return NatExpr(c, self.const + sign * o.const)

    def scale(self, k):
        return NatExpr(dict((v, c * k) for v, c in self.coeffs.items()), self.const * k)

    @property
    def t(self):
        if self.const < 0 and self.coeffs and all(v > 0 for v in self.coeffs.values()) and \
                all(k in NAT_LO for k in self.coeffs) and \
                self.const + sum(v * NAT_LO[k] for k, v in self.coeffs.items()) >= 0:
            # ext mode: the loop variables' lower bounds make the truncated subtraction exact
            parts = ["%d * %s" % (v, k) if v != 1 else k for k, v in sorted(self.coeffs.items())]
            return "(" + " + ".join(parts) + " - %d)" % (-self.const)
        if self.const < 0 or any(v < 0 for v in self.coeffs.values()):
            raise Unsupported({"kind": "index"}, "index expression with a negative coefficient")
        parts = ["%d * %s" % (v, k) if v != 1 else k for k, v in sorted(self.coeffs.items())]
        if self.const or not parts:
            parts.append(str(self.const))
        if len(parts) > 1 or " " in parts[0]:
            return "(" + " + ".join(parts) + ")"
        return parts[0]


# ---------------------------------------------------------------- types

def strip_cv(t):
    t = t.strip()
    changed = True
    while changed:
        changed = False
        for p in ("const ", "volatile "):
            if t.startswith(p):
                t = t[len(p):].strip()
                changed = True
        for s in (" const", " volatile"):
            if t.endswith(s):
                t = t[:-len(s)].strip()
                changed = True
    return t


def qt(node):
    t = node.get("type", {})
    q = t.get("qualType") or ""
    if strip_cv(q.rstrip("&").strip()) in ("__mmask8", "__mmask16", "__m256i", "__m512i"):
        return q
    return t.get("desugaredQualType") or q


U64_NAMES = {"uint64_t", "u_int64_t", "unsigned long", "unsigned long long", "Goldilocks::Element",
             "Element", "size_t", "std::size_t"}
INT_NAMES = {"int", "unsigned int", "uint32_t", "int32_t", "long", "int64_t", "long long", "uint8_t",
             "unsigned char", "short", "unsigned short", "char"}
V4_NAMES = {"__m256i", "__attribute__((__vector_size__(4 * sizeof(long long)))) long long"}
V8_NAMES = {"__m512i", "__attribute__((__vector_size__(8 * sizeof(long long)))) long long"}


def classify(t):
    """-> (cat, extra). cat in u64,int,bool,v4,v8,m8,m16,ptr,arr,vr4,vr8,void,other
    vr4 / vr8: pointer / array / array reference of vector registers (`__m256i *`, `__m256i[3]`,
    `Goldilocks3::Element_avx`, `Element_avx &`; `__m512i` likewise): extra = (is_const, length or None)"""
    gv = re.match(r"^(const\s+)?(Goldilocks3::)?Element_avx(512)?(\s+const)?\s*(&|\*|\*\s*const)?$", t.strip())
    if gv:
        return ("vr8" if gv.group(3) else "vr4", (bool(gv.group(1) or gv.group(4)), 3))
    c, ex = _classify(t)
    if c == "ptr" and ex[0] in ("v4", "v8"):
        return ("vr4" if ex[0] == "v4" else "vr8", (ex[1], None))
    if c == "arr" and ex[0] in ("v4", "v8"):
        return ("vr4" if ex[0] == "v4" else "vr8", (ex[2], ex[1]))
    return c, ex


def _classify(t):
    t0 = t.strip()
    # the cubic-extension element is a typedef of Goldilocks::Element[3]: a 3-word region
    g3 = re.match(r"^(const\s+)?(Goldilocks3::)?Element(\s+const)?\s*(&|\*|\*\s*const)?$", t0)
    if g3 and "Goldilocks3" in t0:
        isconst = bool(g3.group(1) or g3.group(3))
        if g3.group(4) and g3.group(4).startswith("*"):
            return ("ptr", ("u64", isconst))
        return ("arr", ("u64", 3, isconst))
    isref = t0.endswith("&")
    if isref:
        t0 = t0[:-1].strip()
        if t0.endswith("&"):
            t0 = t0[:-1].strip()
    # array reference  "Goldilocks::Element (&)[3]" already stripped '&'?  handle "(&)[3]" form
    m = re.match(r"^(.*)\(&+\)\[(\d+)\]$", t.strip())
    if m:
        return ("arr", (_classify(m.group(1))[0], int(m.group(2)), "const" in m.group(1)))
    m = re.match(r"^(.*)\[(\d*)\]$", t0)
    if m and not t0.endswith(")"):
        inner = m.group(1).strip()
        n = int(m.group(2)) if m.group(2) else None
        return ("arr", (_classify(inner)[0], n, inner.startswith("const ") or inner.endswith(" const")))
    if t0.endswith("*") or t0.endswith("*const") or t0.endswith("* const") or t0.endswith("*__restrict"):
        base = t0.rstrip("const ").rstrip()
        base = re.sub(r"\*\s*(const|__restrict)?\s*$", "", t0).strip()
        isconst = base.startswith("const ") or base.endswith(" const")
        return ("ptr", (_classify(base)[0], isconst))
    b = strip_cv(t0)
    if MPZ_MODE:
        if b == "mpz_class" or b.startswith("__gmp_expr<"):
            return ("mpzc", None)
        if b in ("std::string", "string", "std::basic_string<char>") or b.startswith("basic_string<char,"):
            return ("str", None)
    if b in U64_NAMES:
        return ("u64", None)
    if b in INT_NAMES:
        return ("int", b)
    if b == "bool":
        return ("bool", None)
    if b in V4_NAMES:
        return ("v4", None)
    if b in V8_NAMES:
        return ("v8", None)
    if b in ("__mmask8",):
        return ("m8", None)
    if b in ("__mmask16",):
        return ("m16", None)
    if b == "void":
        return ("void", None)
    return ("other", b)


LEAN_TY = {"u64": "BitVec 64", "bool": "Bool", "v4": "V4", "v8": "V8", "m8": "BitVec 8",
           "m16": "BitVec 16", "ptr": "Region", "arr": "Region", "int": "Int",
           "vr4": "VRegion4", "vr8": "VRegion8", "u32": "BitVec 32", "nat": "Nat",
           "mpzc": "Int", "str": "String", "s64": "BitVec 64", "s32": "BitVec 32"}

ZERO_OF = {"u64": "0#64", "bool": "false", "v4": "V4.zero", "v8": "V8.zero", "m8": "0#8", "m16": "0#16",
           "ptr": "Region.zero", "arr": "Region.zero", "int": "(0 : Int)", "vr4": "VRegion4.zero", "vr8": "VRegion8.zero",
           "u32": "0#32", "mpzc": "(0 : Int)", "str": "\"\"", "s64": "0#64", "s32": "0#32"}


def type_code(t, refined=False):
    c, ex = classify(t)
    if refined and c == "u64" and "Element" not in t:
        return "U" if ("const" in t or not t.strip().endswith("&")) else "u"
    isref = t.strip().endswith("&")
    const = "const" in t
    if c == "u64":
        return "E" if (const or not isref) else "e"
    if c == "v4":
        return "V" if (const or not isref) else "v"
    if c == "v8":
        return "W" if (const or not isref) else "w"
    if c == "ptr":
        return "P" if ex[1] else "p"
    if c == "arr":
        return ("A" if ex[2] else "a") + (str(ex[1]) if ex[1] else "")
    if c == "vr4":
        return "M" if ex[0] else "m"
    if c == "vr8":
        return "N" if ex[0] else "n"
    if c == "int":
        return "i"
    if c == "bool":
        return "b"
    if c == "mpzc":
        return "Z" if const else "z"
    if c == "str":
        return "S" if const else "s"
    return "x"


# ---------------------------------------------------------------- intrinsics table
# name -> (lean name, [arg kinds])   arg kinds: v value, c compile-time integer constant, m region (pointer)
INTRIN = {}
for _n in ("add_epi64", "sub_epi64", "cmpgt_epi64", "cmpgt_epi32", "and_si256", "andnot_si256",
           "xor_si256", "mul_epu32", "unpacklo_pd", "unpackhi_pd"):
    INTRIN["_mm256_" + _n] = ("Avx2." + _n, "vv")
for _n in ("srli_epi64", "slli_epi64"):
    INTRIN["_mm256_" + _n] = ("Avx2." + _n, "vc")
for _n in ("movehdup_ps", "moveldup_ps"):
    INTRIN["_mm256_" + _n] = ("Avx2." + _n, "v")
for _n in ("castsi256_pd", "castpd_si256", "castsi256_ps", "castps_si256"):
    INTRIN["_mm256_" + _n] = (None, "v")   # bit casts: identity
for _n in ("or_si256", "cmpeq_epi64", "cmpeq_epi32"):
    INTRIN["_mm256_" + _n] = ("Avx2." + _n, "vv")
INTRIN["_mm256_unpacklo_epi64"] = ("Avx2.unpacklo_pd", "vv")     # same lane movement as the _pd form
INTRIN["_mm256_unpackhi_epi64"] = ("Avx2.unpackhi_pd", "vv")
INTRIN["_mm256_set_epi64x"] = ("Avx2.set_epi64x", "vvvv")
INTRIN["_mm256_set1_epi64x"] = ("Avx2.set1_epi64x", "v")
INTRIN["_mm256_loadu_si256"] = ("Avx2.load", "m")
INTRIN["_mm256_load_si256"] = ("Avx2.load", "m")
INTRIN["_mm256_storeu_si256"] = ("Avx2.store", "Mv")
INTRIN["_mm256_store_si256"] = ("Avx2.store", "Mv")
# macro intrinsics appear as builtins
INTRIN["__builtin_ia32_pblendd256"] = ("Avx2.blend_epi32", "vvc")
INTRIN["__builtin_ia32_permti256"] = ("Avx2.permute2f128", "vvc")
INTRIN["__builtin_ia32_vperm2f128_si256"] = ("Avx2.permute2f128", "vvc")
INTRIN["__builtin_ia32_vec_ext_v4di"] = ("Avx2.extract_epi64", "vc")      # _mm256_extract_epi64 (a macro)
INTRIN_ELEMENT = {"__builtin_ia32_vec_ext_v4di"}     # intrinsics whose `long long` result is one 64-bit element (a bit pattern)

for _n in ("add_epi64", "sub_epi64", "and_si512", "mul_epu32", "unpacklo_pd", "unpackhi_pd",
           "cmpgt_epu64_mask", "cmpge_epu64_mask", "xor_si512"):
    INTRIN["_mm512_" + _n] = ("Avx512." + _n, "vv")
for _n in ("srli_epi64", "slli_epi64"):
    INTRIN["_mm512_" + _n] = ("Avx512." + _n, "vc")
for _n in ("movehdup_ps", "moveldup_ps"):
    INTRIN["_mm512_" + _n] = ("Avx512." + _n, "v")
for _n in ("castsi512_pd", "castpd_si512", "castsi512_ps", "castps_si512"):
    INTRIN["_mm512_" + _n] = (None, "v")
for _n in ("or_si512", "andnot_si512"):
    INTRIN["_mm512_" + _n] = ("Avx512." + _n, "vv")
INTRIN["_mm512_unpacklo_epi64"] = ("Avx512.unpacklo_pd", "vv")
INTRIN["_mm512_unpackhi_epi64"] = ("Avx512.unpackhi_pd", "vv")
INTRIN["_mm512_set_epi64"] = ("Avx512.set_epi64", "vvvvvvvv")
INTRIN["_mm512_set4_epi64"] = ("Avx512.set4_epi64", "vvvv")
INTRIN["_mm512_set1_epi64"] = ("Avx512.set1_epi64", "v")
INTRIN["_mm512_mask_add_epi64"] = ("Avx512.mask_add_epi64", "vvvv")
INTRIN["_mm512_mask_sub_epi64"] = ("Avx512.mask_sub_epi64", "vvvv")
INTRIN["_mm512_broadcast_i64x4"] = ("Avx512.broadcast_i64x4", "v")
for _n in ("cmplt_epu64_mask", "cmple_epu64_mask", "cmpeq_epu64_mask", "cmpneq_epu64_mask"):
    INTRIN["_mm512_" + _n] = ("Avx512." + _n, "vv")
INTRIN["_mm512_mask_blend_epi32"] = ("Avx512.mask_blend_epi32", "vvv")
INTRIN["_mm512_mask_mov_epi32"] = ("Avx512.mask_mov_epi32", "vvv")
INTRIN["_mm512_permutex2var_epi64"] = ("Avx512.permutex2var_epi64", "vvv")
INTRIN["_mm512_loadu_si512"] = ("Avx512.load", "m")
INTRIN["_mm512_load_si512"] = ("Avx512.load", "m")
INTRIN["_mm512_storeu_si512"] = ("Avx512.store", "Mv")
INTRIN["_mm512_store_si512"] = ("Avx512.store", "Mv")
INTRIN["__builtin_ia32_ucmpq512_mask"] = ("Avx512.ucmpq512_mask", "vvcv")
INTRIN["__builtin_ia32_psrlqi512"] = ("Avx512.srli_epi64", "vc")
INTRIN["__builtin_ia32_psllqi512"] = ("Avx512.slli_epi64", "vc")
INTRIN["__builtin_ia32_selectd_512"] = ("Avx512.selectd_512", "vvv")
INTRIN["__builtin_ia32_selectq_512"] = ("Avx512.selectq_512", "vvv")

# ext mode: library / runtime functions that are not translated
ABORT_FNS = {"exit", "_exit", "abort", "quick_exit", "_Exit"}     # end the process: the partial function returns `none`
EXTERN_VALUES = {"omp_get_max_threads": "Omp.maxThreads"}        # value-returning externs: Lean term (Model/TrRt.lean)

ENUM_CONSTS = {"_MM_CMPINT_EQ": 0, "_MM_CMPINT_LT": 1, "_MM_CMPINT_LE": 2, "_MM_CMPINT_UNUSED": 3,
               "_MM_CMPINT_NE": 4, "_MM_CMPINT_NLT": 5, "_MM_CMPINT_NLE": 6}

OPERATOR_MAP = {  # free operators of goldilocks_base_field.hpp (checked by gen.py against the header text)
    ("+", 2): "add", ("*", 2): "mul", ("-", 2): "sub", ("/", 2): "div", ("-", 1): "neg", ("+", 1): None,
    ("==", 2): "equal",
}


def lean_ident(s):
    s = re.sub(r"[^A-Za-z0-9_]", "_", s)
    if s in ("end", "from", "at", "in", "do", "then", "else", "if", "fun", "let", "have", "show", "match",
             "with", "def", "instance", "open", "local", "by", "exp", "inv", "P", "M", "C", "S", "W"):
        s = s + "_"
    return s


class FnInfo:
    def __init__(self):
        self.lean_name = None
        self.params = []     # list of dict(name, cat, mode in {'in','out','inout'}, lean_ty)
        self.ret_cat = None
        self.text = None
        self.decl = None
        self.outs = []       # ordered: ('ret', cat) / ('param', index)
        self.partial = False  # ext mode: takes `fuel`, returns Option (fuel-bounded loop / process-ending call inside)


class Translator:
    def __init__(self, ast, namespace="Gen"):
        self.ast = ast
        self.ns = namespace
        self.fns = {}          # def id -> FnInfo
        self.order = []        # FnInfo in dependency order
        self.consts = {}       # var def id -> (lean name, text)
        self.const_order = []
        self.in_progress = set()
        self.globals = {}      # plain-name globals (file-scope consts given by gen.py): name -> lean term
        self.unroll_max = UNROLL_MAX
        self.name_overrides = {}
        self.items = []
        self.prior_fns = {}    # def id -> FnInfo of functions emitted by earlier modules (qualified names)
        self.prior_consts = {} # var def id -> qualified lean name
        self.ext = False       # extended subset (while loops, early exits, partial functions, OpenMP loops, VLAs)
        self.heap_mode = None  # tr_heap.HeapMode: pointers as values over one heap (module flag "heap", see tr_heap.py)

    # ------------------------------------------------------------ naming
    def fn_lean_name(self, d):
        cls = d.get("_class") or ""
        name = d["name"]
        if self.heap_mode is not None and d.get("kind") in ("CXXConstructorDecl", "CXXDestructorDecl", "FunctionDecl"):
            # heap-mode modules: constructor / destructor of the class, file-scope functions
            pre = {"NTT_Goldilocks": "NTT_"}.get(cls, (cls + "_") if cls else "")
            kinds = {"CXXConstructorDecl": "ctor", "CXXDestructorDecl": "dtor"}
            if len(self.ast.find_methods(d.get("_class"), name)) > 1:
                raise Unsupported(d, "overloaded constructor / file-scope function")
            return pre + kinds.get(d["kind"], lean_ident(name))
        if name.startswith("operator"):
            raise Unsupported(d, "operator definition")
        sibs = [x for x in self.ast.find_methods(cls, name)]
        base = lean_ident(name)
        pre = {"Goldilocks": "", "Goldilocks3": "G3_", "PoseidonGoldilocks": "Pos_", "NTT_Goldilocks": "NTT_"}.get(cls, (cls or "") + "_")
        if len(sibs) > 1:
            def code_of(x, refined):
                c = "".join(type_code(p["type"]["qualType"], refined) for p in x.get("inner", []) if p.get("kind") == "ParmVarDecl")
                rc = classify(x["type"]["qualType"].split("(")[0])[0]
                return ("r" if rc != "void" else "") + c
            code = code_of(d, False)
            # refine (uint64_t vs Element) only when two overloads would otherwise collide: keeps names stable
            if sum(1 for x in sibs if code_of(x, False) == code) > 1:
                code = code_of(d, True)
            base = base + "__" + code
        return pre + base

    # ------------------------------------------------------------ entry
    def need_fn(self, def_decl, alias=None):
        """alias: tuple of (param name kept, param name merged into it): the aliased call pattern is translated
        with both parameters bound to ONE Lean variable, so reads of the second see writes to the first."""
        fid = def_decl["id"]
        key = fid if not alias else (fid, tuple(alias))
        if key in self.fns:
            return self.fns[key]
        if key in self.prior_fns:
            return self.prior_fns[key]
        if key in self.in_progress:
            raise Unsupported(def_decl, "recursion")
        self.in_progress.add(key)
        try:
            try:
                if self.heap_mode is not None and self.heap_mode.wants(def_decl):
                    raise Unsupported(def_decl, "heap mode")
                if MPZ_MODE and self.ext:
                    raise Unsupported(def_decl, "mpz mode")      # straight to the extended translation
                info = FnCtx(self, def_decl).translate(alias=alias)
            except Unsupported as e0:
                if self.heap_mode is not None:
                    info = self.heap_mode.translate_fn(self, def_decl, alias)
                    info.key = key
                    self.fns[key] = info
                    self.order.append(info)
                    self.items.append(info.text)
                    return info
                if not self.ext:
                    raise
                # outside the basic subset: extended mode, total form first, partial form when required
                try:
                    info = FnCtx(self, def_decl, ext=True, partial=isinstance(e0, NeedPartial)).translate(alias=alias)
                except NeedPartial:
                    info = FnCtx(self, def_decl, ext=True, partial=True).translate(alias=alias)
        finally:
            self.in_progress.discard(key)
        info.key = key
        self.fns[key] = info
        self.order.append(info)
        self.items.append(info.text)
        return info

    def need_const(self, var_def):
        vid = var_def["id"]
        if vid in self.consts:
            return self.consts[vid][0]
        if vid in self.prior_consts:
            return self.prior_consts[vid]
        mn = var_def.get("mangledName", "")
        cls = ""
        m = re.match(r"_ZN(\d+)", mn)
        if m:
            ln = int(m.group(1))
            cls = mn[m.end():m.end() + ln]
        pre = {"Goldilocks": "", "Goldilocks3": "G3_", "PoseidonGoldilocksConstants": "Pos_"}.get(cls, cls + "_" if cls else "")
        if var_def.get("_namespace") == "PoseidonGoldilocksConstants":
            pre = "Pos_"
        lname = "c_" + pre + re.sub(r"[^A-Za-z0-9_]", "_", var_def["name"])
        cat, ex = classify(var_def["type"]["qualType"])
        init = [c for c in var_def.get("inner", []) if "kind" in c]
        if not init:
            raise Unsupported(var_def, "constant without initialiser")
        ctx = FnCtx(self, None)
        if cat == "u64":
            term = ctx.ex(init[0])
            text = "def %s : BitVec 64 := %s" % (lname, ctx.as_u64(term))
        elif cat == "arr":
            elems = ctx.init_list(init[0])
            text = "def %s_list : List (BitVec 64) := [%s]\ndef %s : Region := Region.ofList %s_list" % (
                lname, ", ".join(ctx.as_u64(e) for e in elems), lname, lname)
        else:
            raise Unsupported(var_def, "constant of type " + var_def["type"]["qualType"])
        self.consts[vid] = (lname, text)
        self.const_order.append(vid)
        self.items.append(text)
        return lname

    def emit(self, header_imports):
        out = []
        out.append("-- GENERATED by tools/tr_cxx.py from /repo's current sources. Do not edit.")
        for i in header_imports:
            out.append("import " + i)
        out.append("set_option maxRecDepth 4096")
        out.append("set_option linter.unusedVariables false")
        out.append("namespace %s" % self.ns)
        out.append("open GoldilocksVerif")
        out.append("")
        # constants and functions in the order they were required
        for item in self.items:
            out.append(item)
            out.append("")
        out.append("end %s" % self.ns)
        return "\n".join(out) + "\n"


class FnCtx:
    def __init__(self, tr, decl, ext=False, partial=False):
        self.tr = tr
        self.ast = tr.ast
        self.decl = decl
        self.env = {}       # decl id -> dict(name, cat, const=Const|None)
        self.lines = []
        self.indent = 1
        self.tmpn = 0
        self.ext = ext          # extended subset (see the "extended mode" section below)
        self.partial = partial  # the function takes `fuel` and returns Option
        self.loop_stack = []    # lifted loop bodies being translated: dict(term=fn(kind))
        self.binds = 0          # number of Option binds emitted so far
        self.no_hoist = 0       # > 0 inside conditionally evaluated sub-expressions
        self.alias_of = {}      # local pointer decl id -> decl id of the pointer it was initialised from

    # ------------------------------------------------------------ helpers
    def show(self, t):
        if isinstance(t, Const):
            return str(t.v)
        if isinstance(t, NatExpr):
            return t.t
        return t

    def as_u64(self, t):
        if isinstance(t, Const):
            return "%d#64" % (t.v % (1 << 64))
        if isinstance(t, NatExpr):
            return "(BitVec.ofNat 64 %s)" % t.t
        return t

    def as_nat(self, t, node):
        """index expression -> Lean Nat term"""
        if isinstance(t, Const):
            if t.v < 0:
                raise Unsupported(node, "negative index")
            return str(t.v)
        if isinstance(t, NatExpr):
            return t.t
        return "(%s).toNat" % t

    def rset(self, base):
        """update function of the region a pointer-valued expression designates (words or vector registers)"""
        c = classify(qt(self.skip(base)))[0]
        return {"vr4": "VRegion4.set", "vr8": "VRegion8.set"}.get(c, "Region.set")

    def fresh(self, base="t"):
        self.tmpn += 1
        return "%s_%d" % (base, self.tmpn)

    def emit(self, s):
        self.lines.append("  " * self.indent + s)

    def skip(self, n):
        """strip wrappers that do not change the value"""
        while True:
            k = n.get("kind")
            if k in ("ParenExpr", "ExprWithCleanups", "MaterializeTemporaryExpr", "CXXBindTemporaryExpr",
                     "ConstantExpr", "CXXFunctionalCastExpr") and n.get("inner"):
                if k == "CXXFunctionalCastExpr":
                    break
                n = n["inner"][0]
                continue
            if k == "ImplicitCastExpr" and n.get("castKind") in ("LValueToRValue", "NoOp", "ArrayToPointerDecay",
                                                                  "FunctionToPointerDecay", "ConstructorConversion",
                                                                  "BuiltinFnToFnPtr"):
                n = n["inner"][0]
                continue
            if k == "CXXConstructExpr" and len(n.get("inner", [])) == 1:
                n = n["inner"][0]
                continue
            break
        return n

    # ------------------------------------------------------------ expressions
    def ex(self, n):
        n = self.skip(n)
        k = n.get("kind")
        if MPZ_MODE and self.ext:
            r = self.ex_mpz(n)
            if r is not NotImplemented:
                return r
        if k == "IntegerLiteral":
            return Const(int(n["value"]))
        if k == "CXXBoolLiteralExpr":
            return "true" if n["value"] else "false"
        if k == "UnaryExprOrTypeTraitExpr" and n.get("name") == "sizeof":
            at = n.get("argType", {}).get("qualType") or (qt(n["inner"][0]) if n.get("inner") else "")
            c = classify(at)
            if c[0] == "u64":
                return Const(8)
            if c[0] == "arr" and c[1][1]:
                # a typedef'd row type (Goldilocks3::Element) has no brackets in its spelling: its length is c[1][1]
                return Const(8 * (self.array_total(at) if "[" in at else c[1][1]))
            raise Unsupported(n, "sizeof(%s)" % at)
        if k in ("ImplicitCastExpr", "CStyleCastExpr", "CXXStaticCastExpr", "CXXFunctionalCastExpr",
                 "CXXReinterpretCastExpr"):
            ck = n.get("castKind")
            inner = n["inner"][0]
            if ck in ("IntegralCast",):
                v = self.ex(inner)
                src = classify(qt(inner))
                dst = classify(qt(n))
                if isinstance(v, NatExpr):
                    return v
                if isinstance(v, Const):
                    if dst[0] == "u64":
                        return Const(v.v % (1 << 64))
                    if dst[0] == "m8":
                        return Const(v.v % 256)
                    if dst[0] == "m16":
                        return Const(v.v % 65536)
                    return v
                i0 = self.skip(inner)
                if (i0.get("kind") == "DeclRefExpr" and self.env.get(i0["referencedDecl"]["id"], {}).get("cat") == "u32"):
                    if dst[0] == "u64":
                        return "(BitVec.setWidth 64 %s)" % v     # unsigned 32 -> 64: zero extension
                    raise Unsupported(n, "conversion of a uint32_t parameter to " + qt(n))
                if src[0] == dst[0] or (src[0], dst[0]) in (("u64", "u64"),):
                    return v
                if src[0] == "bool":
                    return v
                if src[0] == "u64" and dst[0] == "int" and dst[1] in ("long long", "long", "int64_t"):
                    return v      # same-width reinterpretation; the value stays a 64-bit pattern
                if dst[0] == "u64" and src[0] == "int" and src[1] in ("long long", "long", "int64_t"):
                    # element-extracting intrinsics of the table (`_mm256_extract_epi64`) return `long long`; their
                    # model value is the 64-bit pattern itself, so the conversion to uint64_t is the identity
                    c0 = self.skip(inner)
                    while c0.get("kind") in ("ParenExpr", "CStyleCastExpr", "ImplicitCastExpr") and c0.get("inner") and \
                            (c0.get("kind") == "ParenExpr" or c0.get("castKind") == "NoOp"):
                        c0 = self.skip(c0["inner"][0])
                    if c0.get("kind") == "CallExpr" and self.callee(c0).get("name") in INTRIN_ELEMENT:
                        return v
                raise Unsupported(n, "integral cast %s -> %s of non-constant" % (qt(inner), qt(n)))
            if ck in ("NoOp", "BitCast", "LValueToRValue", "ArrayToPointerDecay", "DerivedToBase"):
                return self.ex(inner)
            if ck == "IntegralToBoolean":
                v = self.ex(inner)
                if isinstance(v, Const):
                    return "true" if v.v != 0 else "false"
                return "(%s != 0#64)" % v
            if self.ext and ck == "FloatingToIntegral" and classify(qt(n))[0] == "u64":
                return "(F64.toU64 %s)" % self.dbl(inner)
            raise Unsupported(n, "cast kind %s" % ck)
        if k == "DeclRefExpr":
            return self.ref(n)
        if k == "MemberExpr":
            if n.get("name") == "fe":
                return self.ex(n["inner"][0])
            raise Unsupported(n, "member " + str(n.get("name")))
        if k == "ArraySubscriptExpr":
            base, idx = n["inner"][0], n["inner"][1]
            b0 = self.skip(base)
            if b0.get("kind") == "ArraySubscriptExpr":
                # m[j][i] on a two-dimensional array: flat index j * ncols + i
                rowt = qt(b0)
                mm = re.search(r"\[(\d+)\]\s*$", rowt.replace("const", "").strip())
                if not mm:
                    raise Unsupported(n, "2-D subscript on " + rowt)
                ncols = int(mm.group(1))
                bb = self.region(b0["inner"][0])
                j = self.ex(b0["inner"][1])
                i = self.ex(idx)
                if isinstance(j, Const) and isinstance(i, Const):
                    return "(%s %d)" % (bb, j.v * ncols + i.v)
                return "(%s (%s * %d + %s))" % (bb, self.as_nat(j, b0), ncols, self.as_nat(i, idx))
            b = self.region(base)
            i = self.as_nat(self.ex(idx), idx)
            return "(%s %s)" % (b, i)
        if k == "UnaryOperator":
            op = n["opcode"]
            if op == "*":
                b = self.region(n["inner"][0])
                return "(%s 0)" % b
            if op == "-":
                v = self.ex(n["inner"][0])
                if isinstance(v, Const):
                    return Const(-v.v)
                return "(- %s)" % v
            if op == "!":
                v = self.ex(n["inner"][0])
                return "(!%s)" % self.show(v)
            if op == "~":
                v = self.ex(n["inner"][0])
                return "(~~~%s)" % self.as_u64(v)
            raise Unsupported(n, "unary " + op)
        if k == "BinaryOperator":
            return self.binop(n)
        if k == "ConditionalOperator":
            c = self.cond(n["inner"][0])
            self.no_hoist += 1
            try:
                a = self.ex(n["inner"][1])
                b = self.ex(n["inner"][2])
            finally:
                self.no_hoist -= 1
            return "(if %s then %s else %s)" % (c, self.as_u64(a), self.as_u64(b))
        if k == "CallExpr":
            return self.call_expr(n)
        if k == "CXXOperatorCallExpr":
            return self.op_call_expr(n)
        if k == "CXXConstructExpr" and not n.get("inner"):
            return ZERO_OF.get(classify(qt(n))[0], "default")
        if k == "InitListExpr":
            cat = classify(qt(n))[0]
            if cat == "u64":
                inner = [c for c in n.get("inner", [])]
                return self.ex(inner[0]) if inner else Const(0)
            raise Unsupported(n, "init list in expression")
        raise Unsupported(n, "expression kind")

    def ref(self, n):
        rd = n["referencedDecl"]
        rid = rd["id"]
        if rid in self.env:
            e = self.env[rid]
            if e.get("const") is not None:
                return e["const"]
            if e.get("nat") is not None:
                return NatExpr({e["nat"]: 1})
            return e["name"]
        kind = rd.get("kind")
        if kind == "VarDecl":
            vd = self.ast.resolve_var(rid)
            if vd is not None:
                return self.tr.need_const(vd)
            nm = rd.get("name")
            if nm in self.tr.globals:
                return self.tr.globals[nm]
            raise Unsupported(n, "unknown global " + str(nm))
        if kind == "EnumConstantDecl":
            if rd.get("name") in ENUM_CONSTS:
                return Const(ENUM_CONSTS[rd["name"]])
            raise Unsupported(n, "enum constant " + str(rd.get("name")))
        raise Unsupported(n, "reference to " + str(rd.get("name")))

    def region(self, n):
        """pointer-valued expression -> Lean Region term"""
        n = self.skip(n)
        k = n.get("kind")
        if self.ext and k == "CStyleCastExpr" and n.get("castKind") == "LValueBitCast":
            # (Element (&)[N]) p[k]: the region starting at element k
            return self.region({"kind": "UnaryOperator", "opcode": "&", "inner": [n["inner"][0]]})
        if k in ("ImplicitCastExpr", "CStyleCastExpr", "CXXReinterpretCastExpr", "CXXStaticCastExpr"):
            return self.region(n["inner"][0])
        if k == "DeclRefExpr":
            t = self.ref(n)
            return t
        if k == "UnaryOperator" and n["opcode"] == "&":
            inner = self.skip(n["inner"][0])
            if inner.get("kind") == "ArraySubscriptExpr":
                b = self.region(inner["inner"][0])
                i = self.as_nat(self.ex(inner["inner"][1]), inner)
                if i == "0":
                    return b
                return "(Region.shift %s %s)" % (b, i)
            if inner.get("kind") == "MemberExpr" and inner.get("name") == "fe":
                return self.region({"kind": "UnaryOperator", "opcode": "&", "inner": [inner["inner"][0]]})
            raise Unsupported(n, "address-of")
        if k == "BinaryOperator" and n["opcode"] == "+":
            b = self.region(n["inner"][0])
            i = self.as_nat(self.ex(n["inner"][1]), n)
            return "(Region.shift %s %s)" % (b, i)
        if k == "ArraySubscriptExpr":
            if self.ext:
                w = self.row_words(n)
                if w is not None:
                    # a[i] where a is an array of / pointer to fixed-size rows (Goldilocks3::Element): the row as a region
                    b = self.region(n["inner"][0])
                    off = self.scaled_index(n["inner"][1], w)
                    return b if off == "0" else "(Region.shift %s %s)" % (b, off)
            # element of an array of arrays (e.g. Goldilocks3::Element a[4]) is not supported here
            raise Unsupported(n, "nested array")
        if k == "CallExpr":
            return self.call_expr(n)
        if k == "UnaryOperator" and n["opcode"] == "*":
            return self.region(n["inner"][0])
        raise Unsupported(n, "pointer expression")

    def cond(self, n):
        v = self.ex(n)
        if isinstance(v, Const):
            return "true" if v.v != 0 else "false"
        return v

    def binop(self, n):
        op = n["opcode"]
        a, b = n["inner"][0], n["inner"][1]
        if op == "=":
            raise Unsupported(n, "assignment inside expression")
        if op == ",":
            raise Unsupported(n, "comma")
        if MPZ_MODE and self.ext:
            r = self.binop_signed(n, op, a, b)
            if r is not NotImplemented:
                return r
        cat = classify(qt(n))[0]
        ca = classify(qt(a))[0]
        if ca == "ptr" or classify(qt(b))[0] == "ptr":
            raise Unsupported(n, "pointer arithmetic in value context")
        x = self.ex(a)
        if op in ("&&", "||"):
            self.no_hoist += 1
            try:
                y = self.ex(b)
            finally:
                self.no_hoist -= 1
        else:
            y = self.ex(b)
        if (isinstance(x, NatExpr) or isinstance(y, NatExpr)) and (isinstance(x, (NatExpr, Const)) and isinstance(y, (NatExpr, Const))):
            X, Y = NatExpr.lift(x), NatExpr.lift(y)
            if op == "+":
                return X.add(Y)
            if op == "-":
                return X.add(Y, -1)
            if op == "*" and not Y.coeffs:
                return X.scale(Y.const)
            if op == "*" and not X.coeffs:
                return Y.scale(X.const)
            raise Unsupported(n, "operator %s on a symbolic loop index" % op)
        if isinstance(x, Const) and isinstance(y, Const):
            bits = 64 if (ca == "u64" or classify(qt(b))[0] == "u64") else None
            f = {"+": lambda p, q: p + q, "-": lambda p, q: p - q, "*": lambda p, q: p * q,
                 "<<": lambda p, q: p << q, ">>": lambda p, q: p >> q, "&": lambda p, q: p & q,
                 "|": lambda p, q: p | q, "^": lambda p, q: p ^ q,
                 "/": lambda p, q: p // q if q else None, "%": lambda p, q: p % q if q else None}
            if op in f:
                r = f[op](x.v, y.v)
                if r is None:
                    raise Unsupported(n, "division by zero constant")
                if bits and cat == "u64":
                    r %= (1 << 64)
                return Const(r)
            g = {"<": lambda p, q: p < q, ">": lambda p, q: p > q, "<=": lambda p, q: p <= q,
                 ">=": lambda p, q: p >= q, "==": lambda p, q: p == q, "!=": lambda p, q: p != q}
            if op in g:
                return "true" if g[op](x.v, y.v) else "false"
        opcat = ca if ca != "int" else classify(qt(b))[0]
        if opcat == "int" and cat in ("int", "bool"):
            if self.ext and op in ("==", "!=", "<", ">", "<=", ">="):
                # run-time `int` values (thread counts): comparisons over Int
                lop = {"==": "=", "!=": "≠", "<=": "≤", ">=": "≥"}.get(op, op)
                return "(decide ((%s : Int) %s (%s : Int)))" % (self.show(x), lop, self.show(y))
            raise Unsupported(n, "non-constant int arithmetic")
        xs, ys = self.as_u64(x), self.as_u64(y)
        if op in ("+", "-", "*", "&", "|", "^"):
            lop = {"+": "+", "-": "-", "*": "*", "&": "&&&", "|": "|||", "^": "^^^"}[op]
            return "(%s %s %s)" % (xs, lop, ys)
        if op in ("<<", ">>"):
            sh = self.as_nat(y, b)
            return "(%s %s %s)" % (xs, "<<<" if op == "<<" else ">>>", sh)
        if op == "/":
            return "(%s / %s)" % (xs, ys)      # BitVec udiv (x/0 = 0; callers are guarded, see DESIGN)
        if op == "%":
            return "(%s %% %s)" % (xs, ys)
        if op in ("<", ">", "<=", ">="):
            return "(decide (%s %s %s))" % (xs, op.replace("<=", "≤").replace(">=", "≥"), ys)
        if op == "==":
            return "(%s == %s)" % (xs, ys)
        if op == "!=":
            return "(%s != %s)" % (xs, ys)
        if op == "&&":
            return "(%s && %s)" % (self.show(x), self.show(y))
        if op == "||":
            return "(%s || %s)" % (self.show(x), self.show(y))
        raise Unsupported(n, "binary " + op)

    # ------------------------------------------------------------ calls
    def callee(self, n):
        c = self.skip(n["inner"][0])
        if c.get("kind") != "DeclRefExpr":
            raise Unsupported(n, "indirect call")
        return c["referencedDecl"]

    def op_call_expr(self, n):
        rd = self.callee(n)
        name = rd["name"]
        args = n["inner"][1:]
        op = name[len("operator"):]
        if op == "=":
            raise Unsupported(n, "operator= in expression")
        if MPZ_MODE and self.ext:
            r = self.op_call_mpz(n, op, args)
            if r is not NotImplemented:
                return r
        key = (op, len(args))
        if key not in OPERATOR_MAP:
            raise Unsupported(n, "operator " + op)
        tgt = OPERATOR_MAP[key]
        if tgt is None:
            return self.ex(args[0])
        # resolve to the value-returning Goldilocks:: overload
        cands = [d for d in self.ast.find_methods("Goldilocks", tgt)
                 if not d["type"]["qualType"].startswith("void")]
        if len(cands) != 1:
            raise Unsupported(n, "cannot resolve operator target " + tgt)
        info = self.tr.need_fn(cands[0])
        if info.partial:
            return self.pcall(n, "%s fuel %s" % (info.lean_name, " ".join(self.as_u64(self.ex(a)) for a in args)))
        return "(%s %s)" % (info.lean_name, " ".join(self.as_u64(self.ex(a)) for a in args))

    def call_expr(self, n):
        """call in value position: must have no out parameters"""
        rd = self.callee(n)
        name = rd["name"]
        args = n["inner"][1:]
        if name in INTRIN:
            return self.intrin(n, name, args)
        d = self.ast.resolve_fn(rd["id"])
        if d is None:
            if self.ext and name in EXTERN_VALUES and not args:
                return EXTERN_VALUES[name]
            raise Unsupported(n, "call to unknown function " + name)
        info = self.tr.need_fn(d)
        args = self.subst_default_args(n, d, rd, args)
        if any(p["mode"] != "in" for p in info.params):
            # value position with out-params: hoist into a let
            res = self.call_stmt(n, want_value=True)
            return res
        if info.partial:
            return self.pcall(n, "%s fuel%s" % (info.lean_name, "".join(" " + self.arg_in(p, a) for p, a in zip(info.params, args))))
        return "(%s%s)" % (info.lean_name, "".join(" " + self.arg_in(p, a) for p, a in zip(info.params, args)))

    def subst_default_args(self, n, d, rd, args):
        """default arguments (`fromString(b)` = `fromString(b, 10)`): the initialiser of the parameter declaration"""
        if not any(self.skip(a).get("kind") == "CXXDefaultArgExpr" for a in args):
            return args

        def _default(idx):
            for dd in (d, self.ast.by_id.get(d.get("previousDecl")), self.ast.by_id.get(rd.get("id"))):
                if dd is None:
                    continue
                ps = [c for c in dd.get("inner", []) if c.get("kind") == "ParmVarDecl"]
                if idx < len(ps):
                    init = [c for c in ps[idx].get("inner", []) if "kind" in c]
                    if init:
                        return init[0]
            raise Unsupported(n, "default argument %d of %s not found" % (idx, rd.get("name")))
        return [(_default(i) if self.skip(a).get("kind") == "CXXDefaultArgExpr" else a) for i, a in enumerate(args)]

    def arg_in(self, p, a):
        if p["cat"] in ("ptr", "arr", "vr4", "vr8"):
            return self.region(a)
        if p["cat"] == "mpzc":
            return self.to_mpz(a)
        v = self.ex(a)
        if p["cat"] in ("s64", "s32"):
            return self.as_cat(v, p["cat"])
        if p["cat"] == "u64":
            return self.as_u64(v)
        if p["cat"] == "int":
            return "(%s : Int)" % self.show(v)
        return self.show(v)

    def intrin(self, n, name, args):
        lname, kinds = INTRIN[name]
        if "M" in kinds:
            raise Unsupported(n, "store intrinsic in value position")
        if lname is None:
            return self.ex(args[0])
        if len(args) != len(kinds):
            raise Unsupported(n, "intrinsic arity " + name)
        ts = []
        for kd, a in zip(kinds, args):
            if kd == "v":
                v = self.ex(a)
                c = classify(qt(self.skip(a)))[0]
                if isinstance(v, Const):
                    # integer constant passed to a vector/scalar parameter
                    pc = classify(qt(a))[0]
                    if pc in ("m8",):
                        v = "%d#8" % (v.v % 256)
                    elif pc in ("m16",):
                        v = "%d#16" % (v.v % 65536)
                    else:
                        v = self.as_u64(v)
                ts.append(v)
            elif kd == "c":
                v = self.ex(a)
                if not isinstance(v, Const):
                    raise Unsupported(a, "intrinsic immediate is not a constant")
                ts.append(str(v.v))
            elif kd == "m":
                ts.append(self.region(a))
        return "(%s %s)" % (lname, " ".join(ts))

    def lvalue_target(self, a):
        """describe an lvalue argument bound to a non-const ref / pointer parameter.
        returns (read_term, writeback(fn new_term -> None))"""
        a0 = self.skip(a)
        k = a0.get("kind")
        if k == "DeclRefExpr":
            rid = a0["referencedDecl"]["id"]
            if rid not in self.env:
                raise Unsupported(a, "out argument is not a local")
            e = self.env[rid]
            return e["name"], (lambda new, e=e: self.emit("let %s := %s" % (e["name"], new)))
        if k == "MemberExpr" and a0.get("name") == "fe":
            return self.lvalue_target(a0["inner"][0])
        if k == "ArraySubscriptExpr":
            base = self.skip(a0["inner"][0])
            bt, bw = self.lvalue_region(base)
            i = self.as_nat(self.ex(a0["inner"][1]), a0)
            return "(%s %s)" % (bt, i), (lambda new: bw("(%s %s %s %s)" % (self.rset(base), bt, i, new)))
        if k == "UnaryOperator" and a0["opcode"] == "*":
            bt, bw = self.lvalue_region(a0["inner"][0])
            return "(%s 0)" % bt, (lambda new: bw("(%s %s 0 %s)" % (self.rset(a0["inner"][0]), bt, new)))
        raise Unsupported(a, "unsupported out argument")

    def lvalue_region(self, a):
        """pointer argument bound to a writable pointer parameter"""
        a0 = self.skip(a)
        k = a0.get("kind")
        if self.ext and k == "CStyleCastExpr" and a0.get("castKind") == "LValueBitCast":
            return self.lvalue_region({"kind": "UnaryOperator", "opcode": "&", "inner": [a0["inner"][0]]})
        if k in ("CStyleCastExpr", "ImplicitCastExpr", "CXXReinterpretCastExpr"):
            return self.lvalue_region(a0["inner"][0])
        if self.ext and k == "ArraySubscriptExpr":
            w = self.row_words(a0)
            if w is not None:
                bt, bw = self.lvalue_region(a0["inner"][0])
                off = self.scaled_index(a0["inner"][1], w)
                if off == "0":
                    return bt, bw
                return "(Region.shift %s %s)" % (bt, off), (lambda new: bw("(Region.unshift %s %s %s)" % (bt, off, new)))
        if k == "DeclRefExpr":
            rid = a0["referencedDecl"]["id"]
            if rid not in self.env:
                raise Unsupported(a, "written pointer is not a local/parameter")
            e = self.env[rid]
            return e["name"], (lambda new, e=e: self.emit("let %s := %s" % (e["name"], new)))
        if k == "UnaryOperator" and a0["opcode"] == "&":
            inner = self.skip(a0["inner"][0])
            if inner.get("kind") == "ArraySubscriptExpr":
                bt, bw = self.lvalue_region(inner["inner"][0])
                i = self.as_nat(self.ex(inner["inner"][1]), inner)
                if i == "0":
                    return bt, bw
                return "(Region.shift %s %s)" % (bt, i), (lambda new: bw("(Region.unshift %s %s %s)" % (bt, i, new)))
            if inner.get("kind") == "MemberExpr" and inner.get("name") == "fe":
                return self.lvalue_region({"kind": "UnaryOperator", "opcode": "&", "inner": [inner["inner"][0]]})
            raise Unsupported(a, "address-of in written pointer")
        if k == "BinaryOperator" and a0["opcode"] == "+":
            bt, bw = self.lvalue_region(a0["inner"][0])
            i = self.as_nat(self.ex(a0["inner"][1]), a0)
            return "(Region.shift %s %s)" % (bt, i), (lambda new: bw("(Region.unshift %s %s %s)" % (bt, i, new)))
        if k == "UnaryOperator" and a0["opcode"] == "*":
            return self.lvalue_region(a0["inner"][0])      # *p where p points to an array: the same region
        raise Unsupported(a, "unsupported written pointer")

    def call_stmt(self, n, want_value=False):
        rd = self.callee(n)
        name = rd["name"]
        args = n["inner"][1:]
        if name in ("memcpy", "memset"):
            nbytes = self.ex(args[2])
            if not isinstance(nbytes, Const) or nbytes.v % 8 != 0:
                if not (self.ext and not isinstance(nbytes, Const)):
                    raise Unsupported(n, "%s with a non-constant or unaligned byte count" % name)
                cnt = self.word_count(args[2], nbytes)
            else:
                cnt = "%d" % (nbytes.v // 8)
            bt, bw = self.lvalue_region(args[0])
            if name == "memcpy":
                src = self.region(args[1])
                bw("(Region.copyN %s %s %s)" % (bt, src, cnt))
            else:
                v = self.ex(args[1])
                if not (isinstance(v, Const) and v.v == 0):
                    raise Unsupported(n, "memset with a non-zero fill")
                bw("(Region.zeroN %s %s)" % (bt, cnt))
            return None
        if name in INTRIN:
            lname, kinds = INTRIN[name]
            if "M" in kinds:
                bt, bw = self.lvalue_region(args[0])
                v = self.ex(args[1])
                bw("(%s %s %s)" % (lname, bt, v))
                return None
            if want_value:
                return self.intrin(n, name, args)
            return None   # pure intrinsic as a statement: no effect
        d = self.ast.resolve_fn(rd["id"])
        if d is None:
            if self.ext and name in EXTERN_VALUES:
                return EXTERN_VALUES[name] if want_value else None
            raise Unsupported(n, "call to unknown function " + name)
        info = self.tr.need_fn(d)
        args = self.subst_default_args(n, d, rd, args)
        # the same variable passed for a written parameter and for another parameter: aliased call pattern
        def plain_var(a):
            a0 = self.skip(a)
            while (a0.get("kind") in ("CStyleCastExpr", "ImplicitCastExpr") or
                   (a0.get("kind") == "UnaryOperator" and a0.get("opcode") == "*")) and a0.get("inner"):
                a0 = self.skip(a0["inner"][0])
            if a0.get("kind") == "DeclRefExpr" and a0["referencedDecl"]["id"] in self.env:
                return self.env[a0["referencedDecl"]["id"]]["name"]
            return None
        pv = [plain_var(a) for a in args[:len(info.params)]]
        pairs = []
        for i, p in enumerate(info.params):
            if p["mode"] in ("out", "inout") and pv[i] is not None:
                for j, q in enumerate(info.params):
                    if j != i and pv[j] == pv[i] and q["cat"] == p["cat"] and q.get("mode") != "merged":
                        pairs.append((p["cname"], q["cname"]))
        if pairs:
            info = self.tr.need_fn(d, alias=tuple(pairs))
        ins = []
        wbs = []
        for p, a in zip(info.params, args):
            if p["mode"] == "merged":
                continue
            if p["mode"] == "in":
                ins.append(self.arg_in(p, a))
            else:
                if p["cat"] in ("ptr", "arr", "vr4", "vr8"):
                    rt, wb = self.lvalue_region(a)
                else:
                    rt, wb = self.lvalue_target(a)
                if p["mode"] == "inout":
                    ins.append(rt)
                wbs.append(wb)
        if len(args) < len(info.params):
            raise Unsupported(n, "default arguments")
        call = "%s%s%s" % (info.lean_name, " fuel" if info.partial else "", "".join(" " + i for i in ins))
        nouts = len(info.outs)
        if info.partial:
            self.need_partial(n)
        if nouts == 0:
            if info.partial:
                self.pbind(call, self.fresh("u"))      # only the effect: the call can end the process
            return None
        tmps = [self.fresh("r") for _ in range(nouts)]
        if nouts == 1:
            if info.partial:
                self.pbind(call, tmps[0])
            else:
                self.emit("let %s := %s" % (tmps[0], call))
        else:
            # no pattern-lets (they elaborate to `match`): bind the tuple, then project
            tt = self.fresh("rt")
            if info.partial:
                self.pbind(call, tt)
            else:
                self.emit("let %s := %s" % (tt, call))
            for k, t in enumerate(tmps):
                proj = tt + ".2" * k + (".1" if k < nouts - 1 else "")
                self.emit("let %s := %s" % (t, proj))
        ti = 0
        ret = None
        if info.ret_cat is not None:
            ret = tmps[0]
            ti = 1
        for wb in wbs:
            wb(tmps[ti])
            ti += 1
        return ret

    # ------------------------------------------------------------ statements
    def assign(self, lhs, rhs_term):
        l0 = self.skip(lhs)
        k = l0.get("kind")
        if k == "DeclRefExpr":
            rid = l0["referencedDecl"]["id"]
            if rid not in self.env:
                raise Unsupported(lhs, "assignment to non-local")
            e = self.env[rid]
            if e.get("const") is not None:
                raise Unsupported(lhs, "assignment to loop constant")
            if self.ext and e["cat"] in ("ptr", "arr", "nat"):
                raise Unsupported(lhs, "assignment to a pointer / loop index")
            if e["cat"] == "u64":
                rhs_term = self.as_u64(rhs_term)
            elif e["cat"] in ("s64", "s32", "mpzc"):
                rhs_term = self.as_cat(rhs_term, e["cat"])
            self.emit("let %s := %s" % (e["name"], self.show(rhs_term)))
            return
        if k == "MemberExpr" and l0.get("name") == "fe":
            return self.assign(l0["inner"][0], rhs_term)
        if k == "ArraySubscriptExpr":
            bt, bw = self.lvalue_region(l0["inner"][0])
            i = self.as_nat(self.ex(l0["inner"][1]), l0)
            bw("(%s %s %s %s)" % (self.rset(l0["inner"][0]), bt, i, self.as_u64(rhs_term)))
            return
        if k == "UnaryOperator" and l0["opcode"] == "*":
            bt, bw = self.lvalue_region(l0["inner"][0])
            bw("(%s %s 0 %s)" % (self.rset(l0["inner"][0]), bt, self.as_u64(rhs_term)))
            return
        raise Unsupported(lhs, "assignment target")

    def stmt(self, n):
        """translate a statement; returns 'ret' term if the statement is a return, else None"""
        k = n.get("kind")
        if self.ext:
            r = self.stmt_ext(n)
            if r is not NotImplemented:
                return r
        if k == "CompoundStmt":
            inner = n.get("inner", [])
            for i, s in enumerate(inner):
                r = self.stmt(s)
                if r is not None:
                    if i != len(inner) - 1:
                        raise Unsupported(s, "return not in tail position")
                    return r
            return None
        if k == "NullStmt":
            return None
        if k == "DeclStmt":
            for v in n.get("inner", []):
                self.vardecl(v)
            return None
        if k in ("ExprWithCleanups", "ParenExpr", "ImplicitCastExpr", "MaterializeTemporaryExpr"):
            return self.stmt(n["inner"][0])
        if k == "BinaryOperator":
            op = n["opcode"]
            if op == "=":
                rhs = n["inner"][1]
                self.assign(n["inner"][0], self.rhs_for(n["inner"][0], rhs))
                return None
            if op in ("+=", "-=", "*=", "&=", "|=", "^=", "<<=", ">>="):
                raise Unsupported(n, "compound assignment (BinaryOperator)")
            raise Unsupported(n, "expression statement " + op)
        if k == "CompoundAssignOperator":
            op = n["opcode"][:-1]
            lhs, rhs = n["inner"][0], n["inner"][1]
            cur = self.ex(lhs)
            r = self.ex(rhs)
            # `/=`, `%=`: BitVec udiv / umod, exactly as the binary operators `/`, `%` of `binop` (x/0 = 0, see there)
            lop = {"+": "+", "-": "-", "*": "*", "&": "&&&", "|": "|||", "^": "^^^", "/": "/", "%": "%%"}.get(op)
            if lop:
                self.assign(lhs, "(%s %s %s)" % (self.as_u64(cur), lop.replace("%%", "%"), self.as_u64(r)))
            elif op in ("<<", ">>"):
                self.assign(lhs, "(%s %s %s)" % (self.as_u64(cur), "<<<" if op == "<<" else ">>>", self.as_nat(r, rhs)))
            else:
                raise Unsupported(n, "compound assignment " + op)
            return None
        if k == "CXXOperatorCallExpr":
            rd = self.callee(n)
            if rd["name"] == "operator=":
                self.assign(n["inner"][1], self.rhs_for(n["inner"][1], n["inner"][2]))
                return None
            raise Unsupported(n, "operator call statement")
        if k == "CallExpr":
            self.call_stmt(n)
            return None
        if k == "GCCAsmStmt":
            self.asm(n)
            return None
        if k == "IfStmt":
            return self.ifstmt(n)
        if k == "ForStmt":
            self.forstmt(n)
            return None
        if k == "ReturnStmt":
            inner = n.get("inner", [])
            if not inner:
                return None if self.ret_cat is None else "()"
            if self.ret_cat is None:
                self.stmt(inner[0])
                return None
            v = self.ex_hoist(inner[0])
            rc = self.ret_cat
            if rc == "u64":
                v = self.as_u64(v)
            return self.show(v)
        if k == "ConditionalOperator" and self.is_assert(n):
            # assert(e):  e ? void(0) : __assert_fail(...)   -- no effect when e is a compile-time constant that is true
            c = self.cond(n["inner"][0])
            if c == "true":
                return None
            raise Unsupported(n, "assert with a condition that is not a true compile-time constant")
        if k == "ConditionalOperator":
            # statement-level  c ? x = a : x = b
            c = self.cond(n["inner"][0])
            self.if_join(c, [n["inner"][1]], [n["inner"][2]], n)
            return None
        if k == "UnaryOperator" and n["opcode"] in ("++", "--") :
            raise Unsupported(n, "increment statement")
        raise Unsupported(n, "statement kind")

    def is_assert(self, n):
        inner = n.get("inner", [])
        if len(inner) != 3:
            return False
        a, b = self.skip(inner[1]), self.skip(inner[2])
        if not (a.get("kind") == "CXXFunctionalCastExpr" and a.get("castKind") == "ToVoid"):
            return False
        if b.get("kind") != "CallExpr":
            return False
        try:
            return self.callee(b).get("name") == "__assert_fail"
        except Unsupported:
            return False

    def ex_hoist(self, n):
        """expression possibly containing a call with out-params at top level"""
        n0 = self.skip(n)
        if n0.get("kind") == "CallExpr":
            rd = self.callee(n0)
            if rd["name"] not in INTRIN:
                d = self.ast.resolve_fn(rd["id"])
                if d is not None:
                    info = self.tr.need_fn(d)
                    if any(p["mode"] != "in" for p in info.params):
                        return self.call_stmt(n0, want_value=True)
        return self.ex(n)

    def vardecl(self, v):
        if v.get("kind") != "VarDecl":
            raise Unsupported(v, "declaration kind")
        cat, ex = classify(v["type"]["qualType"])
        if MPZ_MODE and self.ext:
            cat = self.refine_signed(cat, v["type"]["qualType"])
        name = lean_ident(v["name"])
        if self.ext and cat == "other" and re.search(r"\[[^\]]*[A-Za-z_][^\]]*\]\s*$", v["type"]["qualType"]) and \
                "Element" in v["type"]["qualType"]:
            # run-time sized stack array of (rows of) field elements: a region, content unspecified (modelled as zero)
            self.env[v["id"]] = {"name": name, "cat": "arr", "const": None}
            self.emit("let %s : Region := Region.zero" % name)
            return
        if cat == "other":
            raise Unsupported(v, "local of type " + v["type"]["qualType"])
        init = [c for c in v.get("inner", []) if "kind" in c]
        if self.ext and cat == "ptr" and v["id"] in self.alias_of and self.alias_of[v["id"]] in self.env:
            # `T *p = q;` (p never reassigned): p is another name of q's region, writes through p are writes to q
            self.env[v["id"]] = self.env[self.alias_of[v["id"]]]
            return
        self.env[v["id"]] = {"name": name, "cat": cat, "const": None}
        if cat == "int":
            # int locals are only supported as compile-time constants
            if init:
                val = self.ex(init[0])
                if isinstance(val, Const):
                    self.env[v["id"]]["const"] = val
                    return
            raise Unsupported(v, "non-constant int local")
        if not init or (init[0].get("kind") == "CXXConstructExpr" and not init[0].get("inner")):
            self.emit("let %s : %s := %s" % (name, LEAN_TY[cat], ZERO_OF[cat]))   # uninitialised: C18's concern
            return
        if cat == "arr":
            i0 = self.skip(init[0])
            if i0.get("kind") == "InitListExpr":
                elems = self.init_list(i0)
                self.emit("let %s : Region := Region.ofList [%s]" % (name, ", ".join(self.as_u64(e) for e in elems)))
                return
            raise Unsupported(v, "array initialiser")
        if cat == "ptr":
            self.emit("let %s : Region := %s" % (name, self.region(init[0])))
            return
        if cat == "mpzc":
            val = self.to_mpz(init[0])
        else:
            val = self.ex_hoist(init[0])
        if MPZ_MODE and self.ext and cat == "u64" and isinstance(val, Const) and \
                re.match(r"\s*const\b", v["type"]["qualType"]):
            # `const uint64_t prime = (uint64_t)GOLDILOCKS_PRIME;`: a named compile-time constant (it cannot be reassigned).
            # The `let` and the references by name are emitted as for any local; the value is only remembered so that
            # `x % prime` is known to have a non-zero constant divisor (op_call_mpz).
            self.env[v["id"]]["cval"] = val.v % (1 << 64)
        if cat == "u64" and re.match(r"\s*const\b", v["type"]["qualType"]):
            # `const size_t copyBytes = size * sizeof(Element);`: the local cannot be reassigned, so a later
            # `memcpy(.., .., copyBytes)` has the byte count of the initialiser (has_word_factor looks through the name)
            self.env[v["id"]]["cinit"] = init[0]
        if cat == "u64":
            val = self.as_u64(val)
        elif cat in ("s64", "s32"):
            val = self.as_cat(val, cat)
        self.emit("let %s : %s := %s" % (name, LEAN_TY[cat], self.show(val)))

    def init_list(self, n):
        n = self.skip(n)
        if n.get("kind") != "InitListExpr":
            raise Unsupported(n, "expected initialiser list")
        out = []
        children = n.get("inner", [])
        if "array_filler" in n:
            # clang's JSON quirk: array_filler = [filler expression, explicit initialisers...]; the tail is value-initialised
            children = n["array_filler"][1:]
        for c in children:
            c0 = self.skip(c)
            if c0.get("kind") == "InitListExpr" and classify(qt(c0))[0] == "arr":
                out.extend(self.init_list(c0))
            elif c0.get("kind") == "ImplicitValueInitExpr":
                out.append(Const(0))
            else:
                out.append(self.ex(c))
        cat, ex = classify(qt(n))
        if cat == "arr" and ex[1] is not None:
            # total number of scalar elements for (possibly nested) arrays
            total = self.array_total(qt(n))
            while len(out) < total:
                out.append(Const(0))
        return out

    def array_total(self, t):
        dims = re.findall(r"\[(\d+)\]", t)
        tot = 1
        for d in dims:
            tot *= int(d)
        return tot

    # ---- if
    def assigned_vars(self, nodes):
        """ids of env variables assigned (syntactically) inside the given statements"""
        found = []

        def note(rid):
            rid = self.alias_of.get(rid, rid)
            if rid in self.env and rid not in found:
                if self.ext and any(self.env[f] is self.env[rid] for f in found):
                    return      # another name of a variable already noted (pointer alias)
                found.append(rid)

        def base_var(x):
            x = self.skip(x)
            while x.get("kind") in ("MemberExpr", "ArraySubscriptExpr", "UnaryOperator", "CStyleCastExpr",
                                    "ImplicitCastExpr", "BinaryOperator", "ParenExpr"):
                if not x.get("inner"):
                    return None
                x = self.skip(x["inner"][0])
            if x.get("kind") == "DeclRefExpr":
                return x["referencedDecl"]["id"]
            return None

        def walk(x):
            if not isinstance(x, dict):
                return
            k = x.get("kind")
            if k in ("BinaryOperator", "CompoundAssignOperator") and x.get("opcode", "").endswith("=") and x.get("opcode") not in ("==", "!=", "<=", ">="):
                r = base_var(x["inner"][0])
                if r:
                    note(r)
            if k == "CXXOperatorCallExpr":
                c = self.skip(x["inner"][0])
                if c.get("kind") == "DeclRefExpr" and c["referencedDecl"]["name"] == "operator=":
                    r = base_var(x["inner"][1])
                    if r:
                        note(r)
            if k == "UnaryOperator" and x.get("opcode") in ("++", "--"):
                r = base_var(x["inner"][0])
                if r:
                    note(r)
            if k == "CallExpr":
                try:
                    rd = self.callee(x)
                    args = x["inner"][1:]
                    if rd["name"] in ("memcpy", "memset"):
                        r = base_var(args[0])
                        if r:
                            note(r)
                    elif rd["name"] in INTRIN:
                        if "M" in INTRIN[rd["name"]][1]:
                            r = base_var(args[0])
                            if r:
                                note(r)
                    else:
                        d = self.ast.resolve_fn(rd["id"])
                        if d is not None:
                            info = self.tr.need_fn(d)
                            for p, a in zip(info.params, args):
                                if p["mode"] != "in":
                                    r = base_var(a)
                                    if r:
                                        note(r)
                except Unsupported:
                    raise
            if k == "GCCAsmStmt":
                outs = tr_asm.output_exprs(self.ast, x)
                for o in outs:
                    r = base_var(o)
                    if r:
                        note(r)
            for c in x.get("inner", []):
                walk(c)

        for s in nodes:
            walk(s)
        return found

    def run_block(self, stmts):
        """translate statements into a fresh line buffer; returns (lines, ret)"""
        saved_lines, saved_env = self.lines, dict(self.env)
        self.lines = []
        self.indent += 2
        ret = None
        for i, s in enumerate(stmts):
            ret = self.stmt(s)
            if ret is not None and i != len(stmts) - 1:
                raise Unsupported(s, "return not in tail position")
        self.indent -= 2
        lines = self.lines
        self.lines = saved_lines
        self.env = saved_env
        return lines, ret

    def if_join(self, c, then_stmts, else_stmts, n):
        vs = self.assigned_vars(then_stmts + else_stmts)
        names = [self.env[r]["name"] for r in vs]
        b0 = self.binds
        tl, tr_ = self.run_block(then_stmts)
        el, er = self.run_block(else_stmts)
        if self.ext and self.binds > b0:
            # a branch contains a call that can end the process: the join goes through Option
            if tr_ is not None or er is not None:
                raise Unsupported(n, "return inside a conditional")
            tup = self.tuple_of(names)
            ind = "  " * self.indent
            jn = self.fresh("j")
            self.emit("(if %s then" % c)
            self.lines.extend(tl)
            self.lines.append(ind + "    some " + tup)
            self.emit("  else")
            self.lines.extend(el)
            self.lines.append(ind + "    some " + tup)
            self.emit("  ).bind fun %s =>" % jn)
            self.binds += 1
            for i, nm in enumerate(names):
                self.emit("let %s := %s" % (nm, self.proj(i, len(names), jn)))
            return None
        if tr_ is not None or er is not None:
            if tr_ is not None and er is not None:
                # both branches return: the if is the tail
                ind = "  " * self.indent
                self.emit("if %s then" % c)
                self.lines.extend(tl)
                self.lines.append(ind + "    " + tr_)
                self.emit("else")
                self.lines.extend(el)
                self.lines.append(ind + "    " + er)
                return "__tail__"
            raise Unsupported(n, "return in only one branch")
        if not names:
            return None
        tup = names[0] if len(names) == 1 else "(" + ", ".join(names) + ")"
        ind = "  " * self.indent
        self.emit("let %s := if %s then" % (tup, c))
        self.lines.extend(tl)
        self.lines.append(ind + "    " + tup)
        self.emit("  else")
        self.lines.extend(el)
        self.lines.append(ind + "    " + tup)
        return None

    def ifstmt(self, n):
        inner = n["inner"]
        c = self.cond(inner[0])
        then_s = [inner[1]]
        else_s = [inner[2]] if len(inner) > 2 else []
        if c == "true":
            return self.stmt(inner[1])
        if c == "false":
            return self.stmt(inner[2]) if else_s else None
        return self.if_join(c, then_s, else_s, n)

    # ---- for
    def forstmt(self, n):
        if self.ext:
            return self.forstmt_ext(n)
        return self.forstmt_basic(n)

    def forstmt_basic(self, n):
        inner = n["inner"]
        # clang: [init, condvar(empty {}), cond, inc, body]
        init, cond, inc, body = inner[0], inner[2], inner[3], inner[4]
        if init.get("kind") != "DeclStmt" or len(init["inner"]) != 1:
            raise Unsupported(n, "for-init")
        iv = init["inner"][0]
        ivid = iv["id"]
        ivinit = [c for c in iv.get("inner", []) if "kind" in c]
        lo = self.ex(ivinit[0]) if ivinit else None
        if not isinstance(lo, Const):
            raise Unsupported(n, "for lower bound not constant")
        c0 = self.skip(cond)
        if c0.get("kind") != "BinaryOperator" or c0["opcode"] not in ("<", "<=", "!="):
            raise Unsupported(n, "for condition")
        cl = self.skip(c0["inner"][0])
        if cl.get("kind") in ("ImplicitCastExpr",):
            cl = self.skip(cl["inner"][0])
        while cl.get("kind") == "ImplicitCastExpr":
            cl = self.skip(cl["inner"][0])
        if cl.get("kind") != "DeclRefExpr" or cl["referencedDecl"]["id"] != ivid:
            raise Unsupported(n, "for condition lhs")
        hi = self.ex(c0["inner"][1])
        i0 = self.skip(inc)
        step = None
        if i0.get("kind") == "UnaryOperator" and i0["opcode"] == "++":
            step = 1
        elif i0.get("kind") == "CompoundAssignOperator" and i0["opcode"] == "+=":
            s = self.ex(i0["inner"][1])
            if isinstance(s, Const):
                step = s.v
        if not step or step <= 0:
            raise Unsupported(n, "for increment")
        body_stmts = body.get("inner", []) if body.get("kind") == "CompoundStmt" else [body]
        name = lean_ident(iv["name"])
        icat = classify(iv["type"]["qualType"])[0]
        if isinstance(hi, Const):
            h = hi.v + (1 if c0["opcode"] == "<=" else 0)
            trips = max(0, (h - lo.v + step - 1) // step)
            if trips <= self.tr.unroll_max:
                if self.ext and self.contains_abrupt(body_stmts):
                    raise Unsupported(n, "break/continue/return in an unrolled loop")
                for t in range(trips):
                    self.env[ivid] = {"name": name, "cat": icat, "const": Const(lo.v + t * step)}
                    saved = dict(self.env)
                    for s in body_stmts:
                        r = self.stmt(s)
                        if r is not None:
                            raise Unsupported(s, "return in loop")
                    # locals declared in the body go out of scope
                    self.env = {k: v for k, v in self.env.items() if k in saved}
                self.env.pop(ivid, None)
                return
            hi_term = str(h)
        else:
            if c0["opcode"] != "<":
                raise Unsupported(n, "symbolic for bound with <=/!=")
            hi_term = self.as_nat(hi, c0)
        if self.ext:
            return self.for_fold_ext(n, ivid, name, lo, hi_term, step, body_stmts)
        # fold: the loop body is LIFTED to an auxiliary top-level definition (an inline lambda returning a Region is
        # eta-expanded by Lean's compiler, which re-runs the body on every element read: exponential run time)
        self.env[ivid] = {"name": name, "cat": "nat", "const": None}
        vs = self.assigned_vars(body_stmts)
        vs = [r for r in vs if r != ivid]
        names = [self.env[r]["name"] for r in vs]
        cats = [self.env[r]["cat"] for r in vs]
        if not names:
            self.env.pop(ivid, None)
            return
        self.env[ivid] = {"name": name, "cat": "nat", "const": None, "nat": name}
        outer_env = dict(self.env)
        bl, br = self.run_block(body_stmts)
        if br is not None:
            raise Unsupported(n, "return in loop")
        self.loopn = getattr(self, "loopn", 0) + 1
        aux = "%s_loop%d" % (self.fn_lean_name_for_aux, self.loopn)
        body_text = "\n".join(bl)
        # captured variables: every variable of the enclosing scope mentioned in the body, except state and index
        caps = []
        for rid, e in outer_env.items():
            nm = e["name"]
            if rid == ivid or nm in names or e.get("const") is not None or e["cat"] in ("nat",):
                continue
            if re.search(r"(?<![A-Za-z0-9_'.])%s(?![A-Za-z0-9_'])" % re.escape(nm), body_text) and nm not in [c[0] for c in caps]:
                caps.append((nm, e["cat"]))
        sty = " × ".join(LEAN_TY[c] for c in cats)
        def proj(i, n_, v):
            return v + ".2" * i + (".1" if i < n_ - 1 else "") if n_ > 1 else v
        lines = ["def %s%s (%s : Nat) (st__ : %s) : %s :=" % (
            aux, "".join(" (%s : %s)" % (c, LEAN_TY[t]) for c, t in caps), name, sty, sty)]
        for i, nm in enumerate(names):
            lines.append("  let %s := %s" % (nm, proj(i, len(names), "st__")))
        # re-indent the body to two spaces
        for l in bl:
            lines.append("  " + l.lstrip() if not l.startswith("  " * (self.indent + 3)) else "  " + l[2 * (self.indent + 2) - 2:])
        lines.append("  " + (names[0] if len(names) == 1 else "(" + ", ".join(names) + ")"))
        self.aux_defs = getattr(self, "aux_defs", []) + ["\n".join(lines)]
        tup = names[0] if len(names) == 1 else "(" + ", ".join(names) + ")"
        stv = self.fresh("st")
        self.emit("let %s := Loop.range %d %s %d %s (%s%s)" % (stv, lo.v, hi_term, step, tup, aux, "".join(" " + c for c, _ in caps)))
        for i, nm in enumerate(names):
            self.emit("let %s := %s" % (nm, proj(i, len(names), stv)))
        self.env.pop(ivid, None)

    # ================================================================ extended mode
    # Constructs outside the basic subset.  A function is first translated in basic mode (so that everything the basic
    # subset covers keeps its exact output); when that raises Unsupported and the module allows it, it is translated
    # again in extended mode (`self.ext`), in the partial form (`self.partial`: extra parameter `fuel`, result in Option)
    # when it contains a fuel-bounded loop, a call that ends the process, or a call to a partial function.
    #
    #  * statement lists are translated by `seq`: `return` / `break` / `continue` / process-ending calls anywhere inside
    #    nested `if`s end the current path with a TERMINAL (function result, loop-step result, `none`); the statements
    #    after an `if` with such exits are continued inside the branches that fall through.
    #  * `while`, `for(;;)` and `for` loops whose trip count is not an affine function known before the loop become
    #    `Loop.whileM step fuel state` with a lifted step function `<fn>_loopN : σ → Option (Bool × σ)`.
    #  * counted loops keep the `Loop.range` form; in partial functions their lifted body returns `Option σ` (`Loop.rangeM`).
    #  * `#pragma omp parallel for`: the loop is translated sequentially (clauses dropped).
    #  * local pointers initialised from another pointer are names of the same region; `a[i]` on arrays of fixed-size rows,
    #    run-time sized stack arrays, memcpy/memset with run-time sizes, `floor` on doubles that hold integers.

    def need_partial(self, n):
        if not self.partial:
            raise NeedPartial(n, "needs the partial (fuel / Option) form")

    def pbind(self, call, var):
        self.emit("(%s).bind fun %s =>" % (call, var))
        self.binds += 1

    def pcall(self, n, call):
        """call of a partial function in value position: hoisted into a bind"""
        self.need_partial(n)
        if self.no_hoist:
            raise Unsupported(n, "call that can end the process inside a conditionally evaluated expression")
        v = self.fresh("r")
        self.pbind(call, v)
        return v

    def tuple_of(self, names):
        if not names:
            return "()"
        return names[0] if len(names) == 1 else "(" + ", ".join(names) + ")"

    def proj(self, i, n_, v):
        return v + ".2" * i + (".1" if i < n_ - 1 else "") if n_ > 1 else v

    def tuple_type(self, cats):
        return " × ".join(LEAN_TY[c] for c in cats) if cats else "Unit"

    def row_words(self, n):
        """for a[i]: number of words of one row when the element type is a fixed-size array of field elements"""
        c, ex = classify(qt(n))
        if c == "arr" and ex[0] == "u64" and ex[1]:
            return ex[1]
        return None

    def scaled_index(self, idx, w):
        v = self.ex(idx)
        if isinstance(v, Const):
            if v.v < 0:
                raise Unsupported(idx, "negative index")
            return str(v.v * w)
        if isinstance(v, NatExpr):
            return v.scale(w).t
        return "(%d * %s)" % (w, self.as_nat(v, idx))

    def has_word_factor(self, n):
        n = self.skip(n)
        k = n.get("kind")
        if k in ("ImplicitCastExpr", "CStyleCastExpr", "CXXStaticCastExpr") and n.get("inner"):
            return self.has_word_factor(n["inner"][0])
        if k == "BinaryOperator" and n.get("opcode") == "*":
            return self.has_word_factor(n["inner"][0]) or self.has_word_factor(n["inner"][1])
        if k == "UnaryExprOrTypeTraitExpr" and n.get("name") == "sizeof":
            v = self.ex(n)
            return isinstance(v, Const) and v.v % 8 == 0
        if k == "IntegerLiteral":
            return int(n["value"]) % 8 == 0
        if k == "DeclRefExpr":
            # a `const` local (vardecl): the byte count is the one of its initialiser
            e = self.env.get(n.get("referencedDecl", {}).get("id"))
            if e and e.get("cinit") is not None:
                return self.has_word_factor(e["cinit"])
        return False

    def word_count(self, node, nbytes):
        """memcpy/memset byte count that is not a constant: it must be a product with a multiple of the word size; the
        count of words is the (wrapping, as in C++) byte count divided by 8"""
        if not self.has_word_factor(node):
            raise Unsupported(node, "byte count that is not visibly a multiple of the element size")
        return "((%s).toNat / 8)" % self.as_u64(nbytes)

    def dbl(self, n):
        """expression of type double whose value is an integer (see F64 in Model/TrRt.lean) -> Lean Nat term"""
        n = self.skip(n)
        k = n.get("kind")
        if k == "ImplicitCastExpr" and n.get("castKind") == "IntegralToFloating":
            v = self.ex(n["inner"][0])
            if isinstance(v, Const):
                if v.v < 0:
                    raise Unsupported(n, "negative double")
                return "(F64.ofNat %d)" % v.v
            if classify(qt(n["inner"][0]))[0] != "u64":
                raise Unsupported(n, "conversion of a signed integer to double")
            return "(F64.ofU64 %s)" % self.as_u64(v)
        if k == "BinaryOperator" and n.get("opcode") == "+":
            return "(F64.add %s %s)" % (self.dbl(n["inner"][0]), self.dbl(n["inner"][1]))
        if k == "CallExpr" and self.callee(n).get("name") in ("floor", "__builtin_floor"):
            a = n["inner"][1]
            if classify(qt(a))[0] == "u64":
                # std::floor(integer): the argument is converted to double first
                return "(F64.floor (F64.ofU64 %s))" % self.as_u64(self.ex(a))
            return "(F64.floor %s)" % self.dbl(a)
        raise Unsupported(n, "floating-point expression")

    def find_pointer_aliases(self, body):
        """locals `T *p = q;` with q a pointer parameter / local, p never assigned again"""
        decls, reassigned = {}, set()

        def base_ref(x):
            x = self.skip(x)
            while x.get("kind") in ("ImplicitCastExpr", "CStyleCastExpr") and x.get("inner"):
                x = self.skip(x["inner"][0])
            if x.get("kind") == "DeclRefExpr":
                return x["referencedDecl"]["id"]
            return None

        def walk(x):
            if not isinstance(x, dict):
                return
            if x.get("kind") == "VarDecl" and classify(x.get("type", {}).get("qualType", ""))[0] == "ptr":
                init = [c for c in x.get("inner", []) if "kind" in c]
                if init:
                    r = base_ref(init[0])
                    if r is not None:
                        decls[x["id"]] = r
            if x.get("kind") == "BinaryOperator" and x.get("opcode") == "=":
                r = base_ref(x["inner"][0])
                if r is not None:
                    reassigned.add(r)
            for c in x.get("inner", []):
                walk(c)
        walk(body)
        for vid, tgt in decls.items():
            if vid in reassigned:
                continue
            seen = set()
            while tgt in decls and tgt not in seen:
                seen.add(tgt)
                tgt = decls[tgt]
            self.alias_of[vid] = tgt

    # ---- abrupt exits
    def unwrap_stmt(self, s):
        while isinstance(s, dict) and s.get("kind") in ("ExprWithCleanups", "AttributedStmt") and s.get("inner"):
            s = s["inner"][-1] if s.get("kind") == "AttributedStmt" else s["inner"][0]
        return s

    def abrupt_kind(self, s):
        s = self.unwrap_stmt(s)
        k = s.get("kind")
        if k == "ReturnStmt":
            return "return"
        if k == "BreakStmt":
            return "break"
        if k == "ContinueStmt":
            return "continue"
        if k == "CXXThrowExpr":
            return "abort"
        if k == "CallExpr":
            try:
                if self.callee(s).get("name") in ABORT_FNS:
                    return "abort"
            except Unsupported:
                pass
        return None

    def contains_abrupt(self, stmts):
        """return / break / continue / process-ending call at this loop level (nested ifs and blocks searched, loops not)"""
        for s in stmts:
            s = self.unwrap_stmt(s)
            if not isinstance(s, dict):
                continue
            if self.abrupt_kind(s):
                return True
            k = s.get("kind")
            if k == "CompoundStmt" and self.contains_abrupt(s.get("inner", [])):
                return True
            if k == "IfStmt" and self.contains_abrupt(s["inner"][1:]):
                return True
        return False

    def definitely_exits(self, stmts):
        if not stmts:
            return False
        s = self.unwrap_stmt(stmts[-1])
        if self.abrupt_kind(s):
            return True
        if s.get("kind") == "CompoundStmt":
            return self.definitely_exits(s.get("inner", []))
        if s.get("kind") == "IfStmt" and len(s["inner"]) > 2:
            return self.definitely_exits([s["inner"][1]]) and self.definitely_exits([s["inner"][2]])
        return False

    def flat(self, s):
        s = self.unwrap_stmt(s)
        return s.get("inner", []) if s.get("kind") == "CompoundStmt" else [s]

    def emit_fn_terminal(self, ret):
        info = self.info
        out_terms = []
        if info.ret_cat is not None:
            if ret is None:
                raise Unsupported(self.decl, "missing return")
            out_terms.append(ret)
        for kind, i in info.outs:
            if kind == "param":
                out_terms.append(info.params[i]["name"])
        t = "()" if not out_terms else (out_terms[0] if len(out_terms) == 1 else "(" + ", ".join(out_terms) + ")")
        self.emit(("some " + t) if self.partial else t)

    def emit_term(self, kind, node):
        if kind == "abort":
            self.need_partial(node)
            self.emit("none")
            return
        if kind == "return":
            if self.loop_stack:
                raise Unsupported(node, "return inside a loop")
            inner = [c for c in node.get("inner", []) if "kind" in c]
            ret = None
            if inner:
                if self.ret_cat is None:
                    self.stmt(inner[0])
                else:
                    ret = self.to_mpz(inner[0]) if self.ret_cat == "mpzc" else self.ex_hoist(inner[0])
                    if self.ret_cat == "u64":
                        ret = self.as_u64(ret)
                    elif self.ret_cat in ("s64", "s32"):
                        ret = self.as_cat(ret, self.ret_cat)
                    ret = self.show(ret)
            self.emit_fn_terminal(ret)
            return
        if self.loop_stack:
            self.loop_stack[-1]["term"](kind)
            return
        if kind != "fall":
            raise Unsupported(node or self.decl, "%s outside a loop" % kind)
        self.emit_fn_terminal(None)

    def seq(self, stmts):
        """translate a statement list; every path ends with a terminal"""
        stmts = list(stmts)
        for i, s in enumerate(stmts):
            s0 = self.unwrap_stmt(s)
            kind = self.abrupt_kind(s0)
            if kind:
                self.emit_term(kind, s0)
                return
            k = s0.get("kind")
            if k == "CompoundStmt" and self.contains_abrupt([s0]):
                self.seq(s0.get("inner", []) + stmts[i + 1:])
                return
            if k == "IfStmt" and self.contains_abrupt(s0["inner"][1:]):
                inner = s0["inner"]
                c = self.cond(inner[0])
                then_s = self.flat(inner[1])
                else_s = self.flat(inner[2]) if len(inner) > 2 else []
                rest = stmts[i + 1:]
                if c == "true":
                    self.seq(then_s + ([] if self.definitely_exits(then_s) else rest))
                    return
                if c == "false":
                    self.seq(else_s + rest)
                    return
                saved = dict(self.env)
                self.emit("if %s then" % c)
                self.indent += 1
                self.seq(then_s + ([] if self.definitely_exits(then_s) else rest))
                self.indent -= 1
                self.env = dict(saved)
                self.emit("else")
                self.indent += 1
                self.seq(else_s + ([] if self.definitely_exits(else_s) else rest))
                self.indent -= 1
                self.env = saved
                return
            r = self.stmt(s)
            if r is not None:
                raise Unsupported(s, "return value outside a return statement")
        self.emit_term("fall", None)

    def stmt_ext(self, n):
        k = n.get("kind")
        if k == "WhileStmt":
            inner = [c for c in n.get("inner", [])]
            self.loop_general(n, None, inner[-2], None, self.flat(inner[-1]))
            return None
        if k == "OMPParallelForDirective":
            # the loop is translated sequentially; `num_threads`, schedule and the data-sharing clauses are dropped
            # (race freedom and independence of the order are property C12's business)
            cs = [c for c in n.get("inner", []) if c.get("kind") == "CapturedStmt"]
            if len(cs) != 1:
                raise Unsupported(n, "OpenMP directive shape")
            cd = [c for c in cs[0].get("inner", []) if c.get("kind") == "CapturedDecl"]
            fs = [c for c in (cd[0].get("inner", []) if cd else []) if c.get("kind") == "ForStmt"]
            if len(fs) != 1:
                raise Unsupported(n, "OpenMP directive without a for loop")
            self.forstmt(fs[0])
            return None
        if k in ("BreakStmt", "ContinueStmt", "ReturnStmt", "CXXThrowExpr"):
            raise Unsupported(n, "%s in a position the translator does not follow" % k)
        if k == "CallExpr":
            try:
                nm = self.callee(n).get("name")
            except Unsupported:
                nm = None
            if nm in ABORT_FNS:
                raise Unsupported(n, "process-ending call in a position the translator does not follow")
            return NotImplemented
        if k == "CXXOperatorCallExpr":
            t = qt(n)
            if "ostream" in t:
                return None      # diagnostic output (std::cerr << ...): not modelled
            return NotImplemented
        if k == "UnaryOperator" and n.get("opcode") in ("++", "--"):
            lhs = n["inner"][0]
            if classify(qt(lhs))[0] != "u64":
                raise Unsupported(n, "increment of a non-64-bit value")
            cur = self.ex(lhs)
            self.assign(lhs, "(%s %s 1#64)" % (self.as_u64(cur), "+" if n["opcode"] == "++" else "-"))
            return None
        return NotImplemented

    # ---- loops
    def captures(self, outer_env, body_text, exclude):
        caps = []
        if re.search(r"(?<![A-Za-z0-9_'.])fuel(?![A-Za-z0-9_'])", body_text):
            caps.append(("fuel", "nat"))
        for rid, e in outer_env.items():
            nm = e["name"]
            if nm in exclude or e.get("const") is not None:
                continue
            if re.search(r"(?<![A-Za-z0-9_'.])%s(?![A-Za-z0-9_'])" % re.escape(nm), body_text) and nm not in [c[0] for c in caps]:
                caps.append((nm, e["cat"]))
        return caps

    def lifted_body(self, stmts, term, pre=None):
        """translate a loop body into its own line buffer (indent of a top-level def body)"""
        saved_lines, saved_indent = self.lines, self.indent
        self.lines, self.indent = [], 1
        self.loop_stack.append({"term": term})
        try:
            if pre:
                pre()
            else:
                self.seq(stmts)
        finally:
            self.loop_stack.pop()
            lines = self.lines
            self.lines, self.indent = saved_lines, saved_indent
        return lines

    def new_aux(self):
        self.loopn = getattr(self, "loopn", 0) + 1
        return "%s_loop%d" % (self.fn_lean_name_for_aux, self.loopn)

    def forstmt_ext(self, n):
        snap = (len(self.lines), dict(self.env), self.tmpn, self.binds)
        try:
            return self.forstmt_basic(n)
        except Unsupported as e:
            if isinstance(e, NeedPartial) or e.why not in ("for-init", "for lower bound not constant", "for condition",
                                                           "for condition lhs", "for increment",
                                                           "symbolic for bound with <=/!="):
                raise
        # not a counted loop: general fuel-bounded loop
        del self.lines[snap[0]:]
        self.env, self.tmpn, self.binds = snap[1], snap[2], snap[3]
        inner = n["inner"]
        init, cond, inc, body = inner[0], inner[2], inner[3], inner[4]
        self.loop_general(n, init if init.get("kind") else None, cond if cond.get("kind") else None,
                          inc if inc.get("kind") else None, self.flat(body))

    def for_fold_ext(self, n, ivid, name, lo, hi_term, step, body_stmts):
        """counted loop in extended mode: as the basic fold, plus `continue`, bodies that can end the process, captured
        enclosing loop indices"""
        env_before = dict((k, v) for k, v in self.env.items() if k != ivid)
        self.env[ivid] = {"name": name, "cat": "nat", "const": None, "nat": name}
        vs = [r for r in self.assigned_vars(body_stmts) if r != ivid]
        names = [self.env[r]["name"] for r in vs]
        cats = [self.env[r]["cat"] for r in vs]
        monadic = self.partial
        if not names and not monadic:
            self.env.pop(ivid, None)
            return
        tup = self.tuple_of(names)
        outer_env = dict(self.env)
        old_lo = NAT_LO.get(name)
        NAT_LO[name] = lo.v

        def term(kind):
            if kind == "break":
                raise Unsupported(n, "break in a counted loop")
            self.emit(("some " + tup) if monadic else tup)
        try:
            bl = self.lifted_body(body_stmts, term)
        finally:
            if old_lo is None:
                NAT_LO.pop(name, None)
            else:
                NAT_LO[name] = old_lo
        aux = self.new_aux()
        caps = self.captures(outer_env, "\n".join(bl), set(names) | {name})
        sty = self.tuple_type(cats)
        lines = ["def %s%s (%s : Nat) (st__ : %s) : %s :=" % (
            aux, "".join(" (%s : %s)" % (c, LEAN_TY[t]) for c, t in caps), name, sty,
            ("Option (%s)" % sty) if monadic else sty)]
        for i, nm in enumerate(names):
            lines.append("  let %s := %s" % (nm, self.proj(i, len(names), "st__")))
        lines.extend(bl)
        self.aux_defs = getattr(self, "aux_defs", []) + ["\n".join(lines)]
        self.env = env_before
        stv = self.fresh("st")
        call = "Loop.range%s %d %s %d %s (%s%s)" % ("M" if monadic else "", lo.v, hi_term, step, tup, aux,
                                                    "".join(" " + c for c, _ in caps))
        if monadic:
            self.pbind(call, stv)
        else:
            self.emit("let %s := %s" % (stv, call))
        for i, nm in enumerate(names):
            self.emit("let %s := %s" % (nm, self.proj(i, len(names), stv)))

    def loop_general(self, n, init, cond, inc, body_stmts):
        """while / for(;;) / non-counted for: `Loop.whileM step fuel state`.  step evaluates the condition and one iteration"""
        self.need_partial(n)
        env_before = dict(self.env)
        if init is not None:
            if init.get("kind") != "DeclStmt":
                raise Unsupported(n, "for-init that is not a declaration")
            self.stmt(init)
        if inc is not None and self.contains_abrupt_kind(body_stmts, "continue"):
            raise Unsupported(n, "continue in a for loop with an increment")
        parts = list(body_stmts) + ([inc] if inc is not None else []) + ([cond] if cond is not None else [])
        vs = self.assigned_vars(parts)
        names = [self.env[r]["name"] for r in vs]
        cats = [self.env[r]["cat"] for r in vs]
        tup = self.tuple_of(names)
        outer_env = dict(self.env)

        def term(kind):
            self.emit("some (%s, %s)" % ("false" if kind == "break" else "true", tup))

        def pre():
            c = self.cond(cond) if cond is not None else "true"
            if c == "false":
                self.emit("some (false, %s)" % tup)
                return
            if c != "true":
                self.emit("if %s then" % c)
                self.indent += 1
            self.seq(list(body_stmts) + ([inc] if inc is not None else []))
            if c != "true":
                self.indent -= 1
                self.emit("else")
                self.indent += 1
                self.emit("some (false, %s)" % tup)
                self.indent -= 1
        bl = self.lifted_body(None, term, pre=pre)
        aux = self.new_aux()
        caps = self.captures(outer_env, "\n".join(bl), set(names))
        sty = self.tuple_type(cats)
        lines = ["def %s%s (st__ : %s) : Option (Bool × (%s)) :=" % (
            aux, "".join(" (%s : %s)" % (c, LEAN_TY[t]) for c, t in caps), sty, sty)]
        for i, nm in enumerate(names):
            lines.append("  let %s := %s" % (nm, self.proj(i, len(names), "st__")))
        lines.extend(bl)
        self.aux_defs = getattr(self, "aux_defs", []) + ["\n".join(lines)]
        stv = self.fresh("st")
        self.pbind("Loop.whileM (%s%s) fuel %s" % (aux, "".join(" " + c for c, _ in caps), tup), stv)
        for i, nm in enumerate(names):
            self.emit("let %s := %s" % (nm, self.proj(i, len(names), stv)))
        # variables declared by the loop (init, body) go out of scope
        self.env = dict((k, v) for k, v in self.env.items() if k in env_before)

    def contains_abrupt_kind(self, stmts, kind):
        for s in stmts:
            s = self.unwrap_stmt(s)
            if not isinstance(s, dict):
                continue
            if self.abrupt_kind(s) == kind:
                return True
            k = s.get("kind")
            if k == "CompoundStmt" and self.contains_abrupt_kind(s.get("inner", []), kind):
                return True
            if k == "IfStmt" and self.contains_abrupt_kind(s["inner"][1:], kind):
                return True
        return False

    # ================================================================ mpz mode
    # GMP's C++ interface (gmpxx.h) and the signed fixed-width integers of the conversions (goldilocks_base_field_tools.hpp).
    #   mpz_class / any `__gmp_expr<...>` expression template            -> Int   (exact integers)
    #   mpz_class(uint64_t) / (int) / (long) / (const mpz-expression &)   -> Mpz.ofU64 / the integer / BitVec.toInt / the value
    #   mpz_class(std::string, int radix)                                 -> Mpz.ofString (extern = Model.parseInt); the function
    #                                                                        becomes partial, `none` = std::invalid_argument thrown
    #   a % b (b a non-zero constant)  -> Int.tmod (GMP: mpz_tdiv_r / mpz_tdiv_r_ui: truncated, sign of the dividend)
    #   a + b, a - b, a * b, -a, comparisons -> the Int operations
    #   x.get_ui() / x.get_si() / x.get_str(radix) -> Mpz.getUi / Mpz.getSi / Mpz.getStr (Model/TrMpz.lean)
    #   int64_t / long -> BitVec 64 (s64), int32_t -> BitVec 32 (s32), two's complement; comparisons through BitVec.toInt,
    #   conversions to wider types by sign extension, to int32_t by truncation, unary minus wraps (overflow is UB in C++)
    #   std::string -> String (parameters, locals, results; only whole-value assignment)
    def refine_signed(self, cat, t):
        if cat == "int":
            b = strip_cv(t.strip().rstrip("&").strip())
            if b in ("int64_t", "long", "long long", "__int64_t"):
                return "s64"
            if b in ("int32_t", "__int32_t"):
                return "s32"
        return cat

    def as_cat(self, v, cat):
        """format a compile-time constant for a variable of the given category"""
        if isinstance(v, Const):
            if cat in ("u64", "s64"):
                return "%d#64" % (v.v % (1 << 64))
            if cat == "s32":
                return "%d#32" % (v.v % (1 << 32))
            if cat in ("mpzc", "int"):
                return "(%d : Int)" % v.v
        return v

    def scat(self, n):
        """s64 / s32 when the expression is a signed fixed-width value kept as a bit pattern, else None"""
        n = self.skip(n)
        k = n.get("kind")
        if k == "DeclRefExpr":
            e = self.env.get(n.get("referencedDecl", {}).get("id"))
            return e["cat"] if e and e["cat"] in ("s64", "s32") else None
        if k == "CXXMemberCallExpr":
            me = n["inner"][0]
            return "s64" if me.get("kind") == "MemberExpr" and me.get("name") == "get_si" else None
        if k == "UnaryOperator" and n.get("opcode") in ("-", "+"):
            return self.scat(n["inner"][0])
        if k in ("ImplicitCastExpr", "CStyleCastExpr", "CXXStaticCastExpr", "CXXFunctionalCastExpr") and n.get("inner"):
            ck = n.get("castKind")
            if ck in ("NoOp", "LValueToRValue"):
                return self.scat(n["inner"][0])
            if ck == "IntegralCast":
                s = self.scat(n["inner"][0])
                d = strip_cv(qt(n))
                if d in ("long", "long long") and (s or classify(qt(n["inner"][0]))[0] == "u64"):
                    return "s64"
                if d == "int" and s:
                    return "s32"
        return None

    def vcat(self, n):
        n = self.skip(n)
        return self.scat(n) or classify(qt(n))[0]

    def to_mpz(self, n):
        """an expression converted to mpz_class (constructor argument, operand of an mpz operator) -> Lean Int term"""
        n0 = self.skip(n)
        c = self.vcat(n0)
        v = self.ex_hoist(n0) if c != "mpzc" else self.ex(n0)
        if isinstance(v, Const):
            return "(%d : Int)" % v.v
        if c == "mpzc":
            return v
        if c == "u64":
            return "(Mpz.ofU64 %s)" % v
        if c in ("s64", "s32"):
            return "(BitVec.toInt %s)" % v
        if c == "int":
            return "(%s : Int)" % v
        raise Unsupported(n, "conversion of %s to mpz_class" % qt(n0))

    def rhs_for(self, lhs, rhs):
        if MPZ_MODE and self.ext:
            l0 = self.skip(lhs)
            if l0.get("kind") == "DeclRefExpr":
                e = self.env.get(l0["referencedDecl"]["id"])
                if e and e["cat"] == "mpzc":
                    return self.to_mpz(rhs)
        return self.ex_hoist(rhs)

    def ex_mpz(self, n):
        k = n.get("kind")
        if k == "CXXMemberCallExpr":
            me = n["inner"][0]
            if me.get("kind") == "MemberExpr" and me.get("inner") and self.vcat(me["inner"][0]) == "mpzc":
                obj = self.to_mpz(me["inner"][0])
                name = me.get("name")
                args = [a for a in n["inner"][1:] if a.get("kind") != "CXXDefaultArgExpr"]
                if name == "get_ui" and not args:
                    return "(Mpz.getUi %s)" % obj
                if name == "get_si" and not args:
                    return "(Mpz.getSi %s)" % obj
                if name == "get_str" and len(args) <= 1:
                    radix = self.ex(args[0]) if args else Const(10)
                    return "(Mpz.getStr %s %s)" % (obj, self.as_cat(radix, "int") if isinstance(radix, Const) else "(%s : Int)" % radix)
                raise Unsupported(n, "mpz_class member " + str(name))
            return NotImplemented
        if k == "CXXFunctionalCastExpr" and n.get("castKind") == "ConstructorConversion" and classify(qt(n))[0] == "mpzc":
            return self.to_mpz(n["inner"][0])        # mpz_class(e)
        if k in ("CXXConstructExpr", "CXXTemporaryObjectExpr") and classify(qt(n))[0] == "mpzc":
            args = [a for a in n.get("inner", []) if a.get("kind") != "CXXDefaultArgExpr"]
            if not args:
                return "(0 : Int)"
            if len(args) == 1:
                return self.to_mpz(args[0])
            if len(args) == 2 and self.vcat(args[0]) == "str" and classify(qt(args[1]))[0] == "int":
                # mpz_class(const std::string &, int base): throws std::invalid_argument when the numeral is malformed
                radix = self.ex(args[1])
                return self.pcall(n, "Mpz.ofString %s %s" % (self.ex(args[0]), self.as_cat(radix, "int") if isinstance(radix, Const) else "(%s : Int)" % radix))
            raise Unsupported(n, "mpz_class constructor " + str((n.get("ctorType") or {}).get("qualType")))
        if k in ("ImplicitCastExpr", "CStyleCastExpr", "CXXStaticCastExpr", "CXXFunctionalCastExpr") and \
                n.get("castKind") == "IntegralCast" and n.get("inner"):
            inner = n["inner"][0]
            s = self.scat(inner)
            if s:
                v = self.ex(inner)
                d = strip_cv(qt(n))
                if classify(qt(n))[0] == "u64" or d in ("long", "long long"):
                    return v if s == "s64" else "(BitVec.signExtend 64 %s)" % v
                if d == "int":
                    return "(BitVec.setWidth 32 %s)" % v if s == "s64" else v
                raise Unsupported(n, "integral cast of a signed value to " + qt(n))
            return NotImplemented
        return NotImplemented

    def binop_signed(self, n, op, a, b):
        sa, sb = self.scat(a), self.scat(b)
        if not sa and not sb:
            return NotImplemented
        if op not in ("<", ">", "<=", ">=", "==", "!="):
            raise Unsupported(n, "arithmetic on a signed fixed-width value")

        def side(x, sx):
            v = self.ex(x)
            if isinstance(v, Const):
                return "(%d : Int)" % v.v
            if sx:
                return "(BitVec.toInt %s)" % v
            raise Unsupported(n, "comparison of a signed value with " + qt(x))
        lop = {"==": "=", "!=": "≠", "<=": "≤", ">=": "≥"}.get(op, op)
        return "(decide (%s %s %s))" % (side(a, sa), lop, side(b, sb))

    def const_local_value(self, n):
        """value of a reference to a `const` integer local with a compile-time constant initialiser (vardecl), else None"""
        n = self.skip(n)
        if n.get("kind") == "DeclRefExpr":
            e = self.env.get(n.get("referencedDecl", {}).get("id"))
            if e:
                return e.get("cval")
        return None

    def op_call_mpz(self, n, op, args):
        cats = [self.vcat(a) for a in args]
        if "mpzc" not in cats:
            return NotImplemented
        if len(args) == 2:
            if op == "%":
                d = self.ex(args[1]) if cats[1] != "mpzc" else None
                if not (isinstance(d, Const) and d.v != 0) and not self.const_local_value(args[1]):
                    raise Unsupported(n, "mpz_class %% with a divisor that is not a non-zero constant")
                return "(Int.tmod %s %s)" % (self.to_mpz(args[0]), self.to_mpz(args[1]))
            if op in ("+", "-", "*"):
                return "(%s %s %s)" % (self.to_mpz(args[0]), op, self.to_mpz(args[1]))
            if op in ("<", ">", "<=", ">=", "==", "!="):
                lop = {"==": "=", "!=": "≠", "<=": "≤", ">=": "≥"}.get(op, op)
                return "(decide (%s %s %s))" % (self.to_mpz(args[0]), lop, self.to_mpz(args[1]))
        if len(args) == 1 and op == "-":
            return "(- %s)" % self.to_mpz(args[0])
        if len(args) == 1 and op == "+":
            return self.to_mpz(args[0])
        raise Unsupported(n, "mpz_class operator " + op)

    # ---- asm
    def asm(self, n):
        tr_asm.translate(self, n)

    # ------------------------------------------------------------ whole function
    def translate(self, alias=None):
        d = self.decl
        info = FnInfo()
        info.decl = d
        info.alias = alias
        info.lean_name = self.tr.fn_lean_name(d) + ("".join("_al_%s_%s" % (a, b) for a, b in alias) if alias else "")
        self.fn_lean_name_for_aux = info.lean_name
        fty = d["type"]["qualType"]
        rett = fty.split("(")[0].strip()
        rc = classify(rett)[0]
        if MPZ_MODE and self.ext:
            rc = self.refine_signed(rc, rett)
        if rc == "other":
            raise Unsupported(d, "return type " + rett)
        info.ret_cat = None if rc == "void" else rc
        self.ret_cat = info.ret_cat
        body = [c for c in d.get("inner", []) if c.get("kind") == "CompoundStmt"][0]
        params = [c for c in d.get("inner", []) if c.get("kind") == "ParmVarDecl"]
        used = set()
        for p in params:
            t = p["type"]["qualType"]
            cat, ex = classify(t)
            if MPZ_MODE and self.ext:
                cat = self.refine_signed(cat, t)
            if cat in ("other", "void"):
                raise Unsupported(p, "parameter type " + t)
            nm = lean_ident(p.get("name", "arg"))
            while nm in used:
                nm += "'"
            used.add(nm)
            isref = t.strip().endswith("&")
            if cat == "int" and strip_cv(t.rstrip("&").strip()) in ("uint32_t", "unsigned int", "u_int32_t"):
                cat = "u32"      # a 32-bit unsigned parameter: BitVec 32, zero-extended where it is converted
            if cat in ("ptr", "arr"):
                isconst = ex[1] if cat == "ptr" else ex[2]
                mode = "in" if isconst else "inout"
            elif cat in ("vr4", "vr8"):
                mode = "in" if ex[0] else "inout"
            elif isref and not ("const " in t or " const" in t):
                mode = "inout"
            else:
                mode = "in"
            info.params.append({"name": nm, "cat": cat, "mode": mode, "id": p["id"], "cname": p.get("name", "")})
            self.env[p["id"]] = {"name": nm, "cat": cat, "const": None}
        if self.ext:
            self.find_pointer_aliases(body)
        # non-const references / pointers that the body never writes are inputs
        written = set(self.assigned_vars([body]))
        for p in info.params:
            if p["mode"] == "inout" and p["id"] not in written:
                p["mode"] = "in"
        # aliased call pattern: the merged parameter shares the Lean variable of the kept one
        if alias:
            byname = {p["cname"]: p for p in info.params}
            for keep, merged in alias:
                if keep not in byname or merged not in byname:
                    raise Unsupported(d, "alias names %s/%s are not parameters" % (keep, merged))
                pk, pm = byname[keep], byname[merged]
                if pk["cat"] != pm["cat"]:
                    raise Unsupported(d, "aliased parameters of different kinds")
                self.env[pm["id"]] = self.env[pk["id"]]
                pm["mode"] = "merged"
                if pk["mode"] == "in":
                    pk["mode"] = "in"
        # out-only detection for by-reference scalars/vectors
        merged_keep = set(k for k, _ in (alias or ()))
        for p in info.params:
            if p["mode"] == "inout" and p["cat"] not in ("ptr", "arr", "vr4", "vr8") and p["cname"] not in merged_keep:
                if self.written_before_read(body, p["id"]):
                    p["mode"] = "out"
        for p in info.params:
            if p["mode"] == "out":
                self.emit("let %s : %s := %s" % (p["name"], LEAN_TY[p["cat"]], ZERO_OF[p["cat"]]))
        outs = []
        if info.ret_cat is not None:
            outs.append(("ret", info.ret_cat))
        for i, p in enumerate(info.params):
            if p["mode"] in ("out", "inout"):
                outs.append(("param", i))
        info.outs = outs
        info.partial = self.partial
        self.info = info
        if self.ext:
            # extended mode: every path through the body ends in a terminal emitted by `seq`
            self.seq(body.get("inner", []))
            ret = "__ext__"
        else:
            ret = self.stmt(body)
        out_terms = []
        if ret == "__ext__":
            pass
        elif ret == "__tail__":
            if len(outs) != 1:
                raise Unsupported(d, "tail-if return with out parameters")
        else:
            if info.ret_cat is not None:
                if ret is None:
                    raise Unsupported(d, "missing return")
                out_terms.append(ret)
            for kind, i in outs:
                if kind == "param":
                    out_terms.append(info.params[i]["name"])
            if len(out_terms) == 0:
                self.emit("()")
            elif len(out_terms) == 1:
                self.emit(out_terms[0])
            else:
                self.emit("(" + ", ".join(out_terms) + ")")

        def oty(o):
            if o[0] == "ret":
                return LEAN_TY[o[1]]
            return LEAN_TY[info.params[o[1]]["cat"]]
        rty = " × ".join(oty(o) for o in outs) if outs else "Unit"
        sig = "".join(" (%s : %s)" % (p["name"], LEAN_TY[p["cat"]]) for p in info.params if p["mode"] not in ("out", "merged"))
        if self.partial:
            rty = "Option (%s)" % rty
            sig = " (fuel : Nat)" + sig
        src = "%s::%s  %s" % (d.get("_class"), d["name"], fty)
        text = "/-- `%s` -/\ndef %s%s : %s :=\n%s" % (src, info.lean_name, sig, rty, "\n".join(self.lines))
        if getattr(self, "aux_defs", None):
            text = "\n\n".join(self.aux_defs) + "\n\n" + text
        info.text = text
        return info

    def written_before_read(self, body, pid):
        """True iff the first top-level statement mentioning the variable assigns it without reading it."""
        def mentions(x):
            if isinstance(x, dict):
                if x.get("kind") == "DeclRefExpr" and x.get("referencedDecl", {}).get("id") == pid:
                    return True
                return any(mentions(c) for c in x.get("inner", []))
            return False

        def is_var(x):
            x = self.skip(x)
            if x.get("kind") == "MemberExpr" and x.get("name") == "fe":
                x = self.skip(x["inner"][0])
            return x.get("kind") == "DeclRefExpr" and x["referencedDecl"]["id"] == pid

        for s in body.get("inner", []):
            if not mentions(s):
                continue
            s0 = s
            while s0.get("kind") in ("ExprWithCleanups", "ReturnStmt") and s0.get("inner"):
                s0 = s0["inner"][0]
            k = s0.get("kind")
            if k == "BinaryOperator" and s0["opcode"] == "=" and is_var(s0["inner"][0]) and not mentions(s0["inner"][1]):
                return True
            if k == "CXXOperatorCallExpr":
                c = self.skip(s0["inner"][0])
                if c["referencedDecl"]["name"] == "operator=" and is_var(s0["inner"][1]) and not mentions(s0["inner"][2]):
                    return True
                return False
            if k == "CallExpr":
                rd = self.callee(s0)
                if rd["name"] in INTRIN:
                    return False
                dd = self.ast.resolve_fn(rd["id"])
                if dd is None:
                    return False
                info = self.tr.need_fn(dd)
                args = s0["inner"][1:]
                ok = False
                for p, a in zip(info.params, args):
                    if is_var(a):
                        if p["mode"] == "out":
                            ok = True
                        else:
                            return False
                    elif mentions(a):
                        return False
                return ok
            if k == "GCCAsmStmt":
                outs = tr_asm.output_exprs(self.ast, s0)
                ins = tr_asm.input_exprs(self.ast, s0)
                if any(is_var(o) for o in outs) and not any(mentions(i) for i in ins):
                    return True
                return False
            return False
        return False
