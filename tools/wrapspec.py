"""C17/C16: derive, from the C++ signature of a strided/offset/broadcast wrapper, the *designation* of its operands
(which memory position or register lane feeds lane k, where lane k of the result goes) and from it
  - a Python oracle used by the correspondence campaign, and
  - the Lean statement `<fn>_spec` (generated into Props/C17Gen.lean) proved by one uniform tactic.

The designation is read off parameter TYPES and NAMES only (never the body):
  output      = first parameter (register reference or Element array)
  operands    = the remaining register / Element-array / Element-value parameters in order
  offset_c / stride_dst            -> output;   offset_a, offset1 -> first operand;   offset_b, offset2 -> second operand
  stride (copy family)             -> the nearest preceding array parameter
  scalar offset o : lane k at index k*o (64-bit wrap-around);  offset array o : lane k at index o[k];  none : index k
"""
import re


class NoSpec(Exception):
    pass


def pkind(ctype):
    t = ctype.replace("const ", "").replace("Goldilocks::", "").strip()
    if "__m256i" in t or "__m512i" in t:
        return "reg"
    if t.startswith("Element"):
        if "*" in t or "[" in t:
            return "arr"
        return "val"
    if t.startswith("uint64_t") or t.startswith("unsigned long"):
        if "*" in t or "[" in t:
            return "offarr"
        return "off"
    return "other:" + t


def describe(lean_name, sig):
    cn = sig["c_name"]
    m = re.match(r"(copy|add|sub|mul)_(batch|avx512|avx)$", cn)
    if not m:
        raise NoSpec("not a copy/add/sub/mul wrapper")
    op, fam = m.group(1), m.group(2)
    W = 8 if fam == "avx512" else 4
    ps = [dict(name=p["name"], kind=pkind(p["ctype"])) for p in sig["params"]]
    if any(p["kind"].startswith("other") for p in ps):
        raise NoSpec("unclassified parameter type")
    out = ps[0]
    if out["kind"] not in ("reg", "arr"):
        raise NoSpec("first parameter is not an output")
    data = [p for p in ps[1:] if p["kind"] in ("reg", "arr", "val")]
    need = 1 if op == "copy" else 2
    if len(data) != need:
        raise NoSpec("expected %d data operands, found %d" % (need, len(data)))
    for p in [out] + data:
        p["off"] = None
    for idx, p in enumerate(ps):
        if p["kind"] not in ("off", "offarr"):
            continue
        nm = p["name"]
        tgt = None
        mm = re.match(r"offsets?_?([abc12])$", nm)
        if mm:
            x = mm.group(1)
            tgt = out if x == "c" else (data[0] if x in "a1" else (data[1] if len(data) > 1 else None))
        elif nm == "stride_dst":
            tgt = out
        elif nm == "stride":
            prev = [q for q in ps[:idx] if q["kind"] in ("arr", "reg", "val")]
            tgt = prev[-1] if prev else None
        if tgt is None or tgt["kind"] != "arr" or tgt["off"] is not None:
            raise NoSpec("cannot attach offset parameter '%s'" % nm)
        tgt["off"] = (p["kind"], nm)
    return {"name": lean_name, "op": op, "W": W, "fam": fam, "params": ps, "out": out, "data": data}


# ---------------------------------------------------------------------------------------- Python oracle
M64 = (1 << 64) - 1
P = 0xFFFFFFFF00000001


def positions(opnd, args, W):
    """index (into the array) designated for lane k, or None for reg/val"""
    if opnd["kind"] != "arr":
        return None
    if opnd["off"] is None:
        return list(range(W))
    kind, nm = opnd["off"]
    if kind == "off":
        return [(k * args[nm]) & M64 for k in range(W)]
    return [args[nm][k] for k in range(W)]


def lane_values(opnd, args, W):
    if opnd["kind"] == "reg":
        return list(args[opnd["name"]][:W])
    if opnd["kind"] == "val":
        return [args[opnd["name"]]] * W
    pos = positions(opnd, args, W)
    arr = args[opnd["name"]]
    return [arr[i] for i in pos]


def oracle(desc, args):
    """returns (kind, lanes, out_positions): the field value (mod p; exact for copy) lane k must have"""
    W = desc["W"]
    vs = [lane_values(d, args, W) for d in desc["data"]]
    op = desc["op"]
    if op == "copy":
        lanes = vs[0]
    elif op == "add":
        lanes = [(a + b) % P for a, b in zip(*vs)]
    elif op == "sub":
        lanes = [(a - b) % P for a, b in zip(*vs)]
    else:
        lanes = [(a * b) % P for a, b in zip(*vs)]
    return lanes, positions(desc["out"], args, W)


# ---------------------------------------------------------------------------------------- Lean statements
def lean_opnd(opnd, k):
    """Lean term for the raw 64-bit word lane k of the operand designates"""
    n = opnd["name"]
    if opnd["kind"] == "reg":
        return "(%s.get ⟨%d, by decide⟩)" % (n, k)
    if opnd["kind"] == "val":
        return n
    return "(%s %s)" % (n, lean_pos(opnd, k))


def lean_pos(opnd, k):
    if opnd["off"] is None:
        return "%d" % k
    kind, nm = opnd["off"]
    if kind == "off":
        return "(%d#64 * %s).toNat" % (k, nm)
    return "(%s %d).toNat" % (nm, k)


LEAN_TY = {"ptr": "Region", "u64": "BitVec 64", "v4": "V4", "v8": "V8", "elem": "BitVec 64"}
KERNEL = {("add", "avx"): "Gen.Avx2.add_avx__vVV", ("sub", "avx"): "Gen.Avx2.sub_avx__vVV", ("mul", "avx"): "Gen.Avx2.mult_avx",
          ("add", "avx512"): "Gen.Avx512.add_avx512__wWW", ("sub", "avx512"): "Gen.Avx512.sub_avx512__wWW",
          ("mul", "avx512"): "Gen.Avx512.mult_avx512",
          ("add", "batch"): "Gen.Scalar.add__eEE", ("sub", "batch"): "Gen.Scalar.sub__eEE", ("mul", "batch"): "Gen.Scalar.mul__eEE"}


def pos_fn(opnd):
    if opnd["off"] is None:
        return "(fun k => k)"
    kind, nm = opnd["off"]
    if kind == "off":
        return "(fun k => (BitVec.ofNat 64 k * %s).toNat)" % nm
    return "(fun k => (%s k).toNat)" % nm


def lane_fn(opnd, V):
    """operand as a function of the lane number"""
    n = opnd["name"]
    if opnd["kind"] == "reg":
        return "(%s.getN %s)" % (V, n)
    if opnd["kind"] == "val":
        return "(fun _ => %s)" % n
    return "(fun k => %s (%s k))" % (n, pos_fn(opnd))


def vec_term(opnd, V):
    if opnd["kind"] == "reg":
        return opnd["name"]
    return "(%s.ofFn %s)" % (V, lane_fn(opnd, V))


def lean_statement(desc, sig, ns):
    """(binders, lhs, rhs) of the structural equality for one overload"""
    V = "V8" if desc["W"] == 8 else "V4"
    W = desc["W"]
    binders, args = [], []
    for q in sig["lean_params"]:
        if q["mode"] == "out":
            continue
        ty = LEAN_TY.get(q["cat"])
        if ty is None:
            raise NoSpec("parameter category %s" % q["cat"])
        binders.append("(%s : %s)" % (q["name"], ty))
        args.append(q["name"])
    lhs = "%s.%s %s" % (ns, desc["name"], " ".join(args))
    out, data, op, fam = desc["out"], desc["data"], desc["op"], desc["fam"]
    if fam == "batch":
        if op == "copy":
            val = lane_fn(data[0], V)
        else:
            val = "(fun k => %s (%s k) (%s k))" % (KERNEL[(op, fam)], lane_fn(data[0], V), lane_fn(data[1], V))
        rhs = "writeSeq %s %s %s %d" % (out["name"], pos_fn(out), val, W)
        return binders, lhs, rhs
    if op == "copy":
        res_vec = vec_term(data[0], V)
        res_lane = lane_fn(data[0], V)
    else:
        res_vec = "(%s %s %s)" % (KERNEL[(op, fam)], vec_term(data[0], V), vec_term(data[1], V))
        res_lane = "(%s.getN %s)" % (V, res_vec)
    if out["kind"] == "reg":
        rhs = res_vec
    else:
        rhs = "writeSeq %s %s %s %d" % (out["name"], pos_fn(out), res_lane, W)
    return binders, lhs, rhs


def emit_lean(status):
    """text of Props/C17Gen.lean and the list of (theorem, lean fn, c signature) it contains"""
    out = ["-- GENERATED by tools/wrapspec.py from the C++ SIGNATURES (parameter types and names) of the current source. Do not edit.",
           "-- One structural equality per strided / offset / broadcast overload: the wrapper IS the lane kernel applied to the",
           "-- operands its parameters designate, written to the positions its output parameters designate (lane 0 first).",
           "import GoldilocksVerif.Lemmas.WrapTac", "import GoldilocksVerif.Gen.WrapBatch", "import GoldilocksVerif.Gen.WrapAvx2",
           "import GoldilocksVerif.Gen.WrapAvx512", "set_option maxRecDepth 4096", "namespace GoldilocksVerif.C17Gen", "open GoldilocksVerif", ""]
    index, skipped = [], []
    for mod in ("WrapBatch", "WrapAvx2", "WrapAvx512"):
        sigs = (status["modules"].get(mod) or {}).get("sigs") or {}
        for name, sig in sigs.items():
            try:
                d = describe(name, sig)
                binders, lhs, rhs = lean_statement(d, sig, "Gen." + mod)
            except NoSpec as e:
                skipped.append({"fn": name, "module": mod, "why": str(e)})
                continue
            ctext = "%s(%s)" % (sig["c_name"], ", ".join("%s %s" % (p["ctype"], p["name"]) for p in sig["params"]))
            out.append("/-- `%s` -/" % ctext)
            out.append("theorem %s_spec %s :\n    %s =\n      %s := by\n  wrap_proof Gen.%s.%s\n" % (name, " ".join(binders), lhs, rhs, mod, name))
            index.append({"theorem": name + "_spec", "fn": name, "module": mod, "c": ctext, "line": sig.get("line")})
    out += ["end GoldilocksVerif.C17Gen", ""]
    return "\n".join(out), index, skipped
