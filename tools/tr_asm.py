"""GNU extended inline asm (x86-64, AT&T syntax) -> Lean let-chains over GoldilocksVerif/Isa/X86.lean.

The template string, constraints and clobbers are cut from the source text by the statement's
source range (clang's JSON AST does not carry them); operand expressions come from the AST.
"""
import re

REG64 = ["rax", "rbx", "rcx", "rdx", "rsi", "rdi", "r8", "r9", "r10", "r11", "r12", "r13", "r14", "r15"]
REG32 = {"eax": "rax", "ebx": "rbx", "ecx": "rcx", "edx": "rdx", "esi": "rsi", "edi": "rdi",
         "r8d": "r8", "r9d": "r9", "r10d": "r10", "r11d": "r11"}
CONSTRAINT_REG = {"a": "rax", "b": "rbx", "c": "rcx", "d": "rdx", "S": "rsi", "D": "rdi"}


class AsmError(Exception):
    pass


def _strip_comments(s):
    out = []
    i, n = 0, len(s)
    while i < n:
        c = s[i]
        if c == '"':
            j = i + 1
            while j < n and s[j] != '"':
                if s[j] == "\\":
                    j += 1
                j += 1
            out.append(s[i:j + 1])
            i = j + 1
        elif s.startswith("//", i):
            j = s.find("\n", i)
            i = n if j < 0 else j
        elif s.startswith("/*", i):
            j = s.find("*/", i)
            i = n if j < 0 else j + 2
        else:
            out.append(c)
            i += 1
    return "".join(out)


def _unescape(s):
    return s.replace("\\n", "\n").replace("\\t", "\t").replace('\\"', '"')


def parse_stmt_text(text):
    """-> (template, outputs[(constraint, exprtext)], inputs[...], clobbers[str])"""
    t = _strip_comments(text)
    m = re.match(r"\s*(__asm__|asm)\s*(volatile|__volatile__)?\s*\(", t)
    if not m:
        raise AsmError("not an asm statement: " + t[:40])
    body = t[m.end():]
    # cut at the matching ')'
    depth, i, n = 1, 0, len(body)
    sections, cur = [], []
    while i < n:
        c = body[i]
        if c == '"':
            j = i + 1
            while body[j] != '"':
                if body[j] == "\\":
                    j += 1
                j += 1
            cur.append(body[i:j + 1])
            i = j + 1
            continue
        if c == "(":
            depth += 1
        elif c == ")":
            depth -= 1
            if depth == 0:
                break
        if c == ":" and depth == 1:
            sections.append("".join(cur))
            cur = []
        else:
            cur.append(c)
        i += 1
    sections.append("".join(cur))
    while len(sections) < 4:
        sections.append("")
    template = "".join(_unescape(x) for x in re.findall(r'"((?:[^"\\]|\\.)*)"', sections[0]))

    def ops(sec):
        res = []
        for mm in re.finditer(r'"([^"]*)"\s*\(', sec):
            # expression up to the matching paren
            d, j = 1, mm.end()
            while d:
                if sec[j] == "(":
                    d += 1
                elif sec[j] == ")":
                    d -= 1
                j += 1
            res.append((mm.group(1), sec[mm.end():j - 1].strip()))
        return res
    clob = [x.strip("%") for x in re.findall(r'"([^"]*)"', sections[3])]
    return template, ops(sections[1]), ops(sections[2]), clob


def _split_ops(ast, n):
    text = ast.source_text(n["range"])
    template, outs, ins, clob = parse_stmt_text(text)
    exprs = [c for c in n.get("inner", []) if "kind" in c]
    if len(exprs) != len(outs) + len(ins):
        raise AsmError("operand count mismatch: %d exprs, %d+%d constraints" % (len(exprs), len(outs), len(ins)))
    return template, outs, ins, clob, exprs[:len(outs)], exprs[len(outs):]


def output_exprs(ast, n):
    return _split_ops(ast, n)[4]


def input_exprs(ast, n):
    return _split_ops(ast, n)[5]


def parse_template(template):
    """-> list of ('label', name) | ('ins', mnemonic, [operands])  operands: ('reg',r64,width) ('op',N) ('imm',v)"""
    items = []
    for raw in re.split(r"[\n;]", template):
        s = raw.strip()
        if not s:
            continue
        m = re.match(r"^(\w+):\s*(.*)$", s)
        if m:
            items.append(("label", m.group(1)))
            s = m.group(2).strip()
            if not s:
                continue
        parts = s.split(None, 1)
        mn = parts[0]
        ops = []
        if len(parts) > 1:
            for o in parts[1].split(","):
                o = o.strip()
                if o.startswith("%%"):
                    r = o[2:]
                    if r in REG64:
                        ops.append(("reg", r, 64))
                    elif r in REG32:
                        ops.append(("reg", REG32[r], 32))
                    else:
                        raise AsmError("register " + r)
                elif re.match(r"^%\d+$", o):
                    ops.append(("op", int(o[1:])))
                elif o.startswith("$"):
                    ops.append(("imm", int(o[1:], 0)))
                elif re.match(r"^\d+[fb]$", o):
                    ops.append(("lbl", o[:-1], o[-1]))
                else:
                    raise AsmError("operand " + o)
        items.append(("ins", mn, ops))
    return items


def translate(ctx, n):
    """emit Lean lines into ctx for the GCCAsmStmt n"""
    from tr_cxx import Unsupported
    try:
        template, outs, ins, clob, oexprs, iexprs = _split_ops(ctx.ast, n)
        items = parse_template(template)
    except AsmError as e:
        raise Unsupported(n, "asm: " + str(e))
    nops = len(outs) + len(ins)
    # operand table
    optab = []
    outregs = []
    for (c, _), e in zip(outs, oexprs):
        cc = c.replace("=", "").replace("+", "")
        early = "&" in cc
        cc = cc.replace("&", "")
        if "+" in c:
            raise Unsupported(n, "asm: read-write output operand")
        if cc in CONSTRAINT_REG:
            optab.append({"kind": "outreg", "reg": CONSTRAINT_REG[cc], "early": early, "expr": e})
            outregs.append(CONSTRAINT_REG[cc])
        else:
            raise Unsupported(n, "asm: output constraint " + c)
    invals = {}
    for k, ((c, _), e) in enumerate(zip(ins, iexprs)):
        idx = len(outs) + k
        if c == "r":
            nm = "op%d" % idx
            ctx.emit("let %s : BitVec 64 := %s" % (nm, ctx.as_u64(ctx.ex(e))))
            optab.append({"kind": "inreg", "name": nm})
        elif c == "m":
            nm = "op%d" % idx
            ctx.emit("let %s : BitVec 64 := %s" % (nm, ctx.as_u64(ctx.ex(e))))
            optab.append({"kind": "mem", "name": nm})
        else:
            raise Unsupported(n, "asm: input constraint " + c)
    clobregs = set(x for x in clob if x in REG64)
    allowed_write = set(outregs) | clobregs

    defined = set()     # registers holding a defined value
    cf_defined = [False]
    last_input_read = [-1]
    first_out_write = [None]

    def rname(r):
        return "r_" + r

    def read(o, pos, width=64):
        if o[0] == "reg":
            if o[1] not in defined:
                raise Unsupported(n, "asm: read of undefined register " + o[1])
            if o[2] == 32:
                return "(X86.mov32 %s)" % rname(o[1])
            return rname(o[1])
        if o[0] == "op":
            e = optab[o[1]]
            if e["kind"] == "outreg":
                if e["reg"] not in defined:
                    raise Unsupported(n, "asm: read of output before write")
                return rname(e["reg"])
            if e["kind"] == "inreg":
                last_input_read[0] = pos
            return e["name"]
        if o[0] == "imm":
            return "%d#64" % (o[1] % (1 << 64))
        raise Unsupported(n, "asm: operand")

    def dst_reg(o, pos):
        if o[0] == "reg":
            r = o[1]
        elif o[0] == "op" and optab[o[1]]["kind"] == "outreg":
            r = optab[o[1]]["reg"]
        else:
            raise Unsupported(n, "asm: write to non-register operand")
        if r not in allowed_write:
            raise Unsupported(n, "asm: register %s written but neither output nor clobbered" % r)
        if r in outregs and first_out_write[0] is None:
            first_out_write[0] = pos
        return r

    def width(o):
        return o[2] if o[0] == "reg" else 64

    def need_cf():
        if not cf_defined[0]:
            raise Unsupported(n, "asm: carry flag read before set")

    def emit_ins(mn, ops, pos, written):
        if mn in ("xor", "xorq") and len(ops) == 2 and ops[0][0] == "reg" and ops[0] == ops[1]:
            r = dst_reg(ops[1], pos)
            ctx.emit("let %s : BitVec 64 := 0#64" % rname(r))
            ctx.emit("let cf : Bool := false")
            defined.add(r); cf_defined[0] = True; written.add(r); written.add("cf")
            return
        if mn in ("mov", "movq", "movl"):
            w = min(width(ops[0]), width(ops[1]))
            if width(ops[0]) != width(ops[1]) and ops[0][0] == "reg" and ops[1][0] == "reg":
                raise Unsupported(n, "asm: mov width mismatch")
            src = read((ops[0][0], ops[0][1], 64) if ops[0][0] == "reg" else ops[0], pos)
            r = dst_reg(ops[1], pos)
            if w == 32:
                ctx.emit("let %s : BitVec 64 := X86.mov32 %s" % (rname(r), src))
            else:
                ctx.emit("let %s : BitVec 64 := %s" % (rname(r), src))
            defined.add(r); written.add(r)
            return
        if mn in ("add", "sub", "addq", "subq", "adc", "adcq", "xor", "xorq"):
            if width(ops[0]) != 64 or width(ops[1]) != 64:
                raise Unsupported(n, "asm: 32-bit arithmetic")
            src = read(ops[0], pos)
            d = read(ops[1], pos)
            r = dst_reg(ops[1], pos)
            base = mn.rstrip("q") if mn.endswith("q") and mn != "adcq" else mn
            base = {"addq": "add", "subq": "sub", "adcq": "adc", "xorq": "xor"}.get(mn, mn)
            if base == "adc":
                need_cf()
                f = "X86.adc64 %s %s cf" % (d, src)
            else:
                f = "X86.%s64 %s %s" % (base, d, src)
            ctx.emit("let fl : BitVec 64 × Bool := %s" % f)
            ctx.emit("let %s : BitVec 64 := fl.1" % rname(r))
            ctx.emit("let cf : Bool := fl.2")
            defined.add(r); cf_defined[0] = True; written.add(r); written.add("cf")
            return
        if mn == "cmovc":
            need_cf()
            src = read(ops[0], pos)
            d = read(ops[1], pos)
            r = dst_reg(ops[1], pos)
            ctx.emit("let %s : BitVec 64 := X86.cmovc64 cf %s %s" % (rname(r), d, src))
            written.add(r)
            return
        if mn in ("mul", "mulq"):
            src = read(ops[0], pos)
            if "rax" not in defined:
                raise Unsupported(n, "asm: mul with undefined rax")
            for r in ("rax", "rdx"):
                if r not in allowed_write:
                    raise Unsupported(n, "asm: mul writes %s which is neither output nor clobbered" % r)
                if r in outregs and first_out_write[0] is None:
                    first_out_write[0] = pos
            ctx.emit("let ml : BitVec 64 × BitVec 64 × Bool := X86.mul64 %s %s" % (rname("rax"), src))
            ctx.emit("let %s : BitVec 64 := ml.1" % rname("rdx"))
            ctx.emit("let %s : BitVec 64 := ml.2.1" % rname("rax"))
            ctx.emit("let cf : Bool := ml.2.2")
            defined.update(("rax", "rdx")); cf_defined[0] = True
            written.update(("rax", "rdx", "cf"))
            return
        if mn in ("rol", "rolq"):
            if ops[0][0] != "imm":
                raise Unsupported(n, "asm: rol by register")
            need = read(ops[1], pos)
            r = dst_reg(ops[1], pos)
            ctx.emit("let fl : BitVec 64 × Bool := X86.rol64 %s %d %s" % (need, ops[0][1], "cf" if cf_defined[0] else "false"))
            ctx.emit("let %s : BitVec 64 := fl.1" % rname(r))
            ctx.emit("let cf : Bool := fl.2")
            cf_defined[0] = True; written.add(r); written.add("cf")
            return
        raise Unsupported(n, "asm: instruction " + mn)

    def regs_read_from(k):
        rs = set()
        for it in items[k:]:
            if it[0] == "ins":
                for o in it[2]:
                    if o[0] == "reg":
                        rs.add(o[1])
                    elif o[0] == "op" and optab[o[1]]["kind"] == "outreg":
                        rs.add(optab[o[1]]["reg"])
                if it[1] in ("mul", "mulq"):
                    rs.add("rax")
                if it[1] in ("cmovc", "adc", "adcq", "jnc", "jc"):
                    rs.add("cf")
        return rs

    def run(lo, hi, written):
        k = lo
        while k < hi:
            it = items[k]
            if it[0] == "label":
                k += 1
                continue
            mn, ops = it[1], it[2]
            if mn in ("jnc", "jc"):
                need_cf()
                if not ops or ops[0][0] != "lbl" or ops[0][2] != "f":
                    raise Unsupported(n, "asm: only forward local jumps are supported")
                tgt = None
                for j in range(k + 1, len(items)):
                    if items[j] == ("label", ops[0][1]):
                        tgt = j
                        break
                if tgt is None or tgt > hi:
                    raise Unsupported(n, "asm: jump target not found in block")
                live = (regs_read_from(tgt) | set(outregs))
                # translate the skipped block into a sub-buffer
                saved_lines = ctx.lines
                saved_def, saved_cf = set(defined), cf_defined[0]
                ctx.lines = []
                ctx.indent += 2
                w2 = set()
                run(k + 1, tgt, w2)
                ctx.indent -= 2
                blk = ctx.lines
                ctx.lines = saved_lines
                join = sorted(x for x in w2 if x in live)
                # registers first defined inside the block are not defined after the join
                for r in list(defined):
                    if r not in saved_def:
                        defined.discard(r)
                cf_defined[0] = saved_cf
                if join:
                    names = ["cf" if x == "cf" else rname(x) for x in join]
                    for x in join:
                        if x != "cf" and x not in saved_def:
                            raise Unsupported(n, "asm: register defined on one path only")
                    tup = names[0] if len(names) == 1 else "(" + ", ".join(names) + ")"
                    skipc = "(!cf)" if mn == "jnc" else "cf"
                    ctx.emit("let %s := if %s then %s else" % (tup, skipc, tup))
                    ctx.lines.extend(blk)
                    ctx.lines.append("  " * (ctx.indent + 2) + tup)
                    written.update(join)
                k = tgt
                continue
            emit_ins(mn, ops, k, written)
            k += 1

    run(0, len(items), set())
    # early-clobber discipline: an output register written before the last read of a register input
    for e in optab:
        if e["kind"] == "outreg" and not e["early"]:
            if first_out_write[0] is not None and first_out_write[0] <= last_input_read[0]:
                raise Unsupported(n, "asm: output written before last input read but not early-clobber (&)")
    for e in optab:
        if e["kind"] == "outreg":
            if e["reg"] not in defined:
                raise Unsupported(n, "asm: output register never written")
            ctx.assign(e["expr"], rname(e["reg"]))
