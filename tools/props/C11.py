"""C11 — AVX512 lane kernels. proof: Props/C11.lean over Gen/Avx512.lean; tie: regeneration + execution on AVX512F hardware."""
from common import *
import props.C02 as C02

PID = "C11"
MODULE = "GoldilocksVerif.Props.C11"


def specs():
    S = {}
    S["toCanonical_avx512"] = (1, None, lambda o, a: o[0] == a % P)
    S["add_avx512__wWW"] = (2, None, lambda o, a, b: o[0] % P == (a + b) % P)
    S["add_avx512_b_c"] = (2, "b_c", lambda o, a, b: o[0] % P == (a + b) % P)
    S["sub_avx512__wWW"] = (2, None, lambda o, a, b: o[0] % P == (a - b) % P)
    S["sub_avx512_b_c"] = (2, "b_c", lambda o, a, b: o[0] % P == (a - b) % P)
    S["mult_avx512"] = (2, None, lambda o, a, b: o[0] % P == (a * b) % P)
    S["mult_avx512_8"] = (2, "b_8", lambda o, a, b: o[0] % P == (a * b) % P)
    S["mult_avx512_128"] = (2, None, lambda o, a, b: (o[0] << 64) + o[1] == a * b)
    S["mult_avx512_72"] = (2, "b_32", lambda o, a, b: (o[0] << 64) + o[1] == a * b and o[0] < (1 << 32))
    S["reduce_avx512_128_64"] = (2, None, lambda o, h, l: o[0] % P == ((h << 64) + l) % P)
    S["reduce_avx512_96_64"] = (2, "a_32", lambda o, h, l: o[0] % P == ((h << 64) + l) % P)
    S["square_avx512"] = (1, None, lambda o, a: o[0] % P == (a * a) % P)
    S["square_avx512_128"] = (1, None, lambda o, a: (o[0] << 64) + o[1] == a * a)
    return S


def gen_lane(rng, tweak, pos):
    if tweak == "b_c" and pos == 1:
        return gen_word(rng) % P
    return C02.gen_lane(rng, tweak, pos)


def make_cases(seed, n_per_kernel, names, W=8):
    rng = Rng(seed ^ 0xC11)
    S = specs()
    cases = []
    for name in names:
        if name not in S:
            continue
        nin, tweak, pred = S[name]
        for _ in range(n_per_kernel):
            ins = [[gen_lane(rng, tweak, k) for _ in range(W)] for k in range(nin)]
            sel = rng.below(4)
            if (name.startswith("mult_avx512") or name.startswith("square") or name.startswith("reduce")) and sel < 2 and tweak is None and nin >= 2:
                for j in range(W):
                    ins[0][j], ins[1][j] = gen_pair_mul_band(rng) if sel == 0 else gen_pair_limbs(rng)
            line = name + " " + " ".join(hx(v) for reg in ins for v in reg)

            def expect(vals, ins=ins, pred=pred, nin=nin):
                nout = len(vals) // W
                for j in range(W):
                    o = [vals[k * W + j] for k in range(nout)]
                    if not pred(o, *[ins[k][j] for k in range(nin)]):
                        return False, "lane %d violates the kernel's specification (inputs %s)" % (j, [hex(ins[k][j]) for k in range(nin)])
                return True, ""
            nt = any(v >= P for reg in ins for v in reg)
            cases.append({"line": line, "key": name, "expect": expect, "tag": ("band" if nt else None)})
    return cases


def run(tier, seed):
    res = Result(PID, tier, seed)
    res.rule = ("per kernel: boundary-directed lane values satisfying the documented operand requirement (canonical second "
                "operand, multiplier < 2^8); each vector = 8 independent lane cases; non-trivial = some lane in [p, 2^64)")
    res.assumptions = ["register operands are values in the model; the in-place call patterns f(x, x, b) / f(x, a, x) (output register object = an input register object) are exercised on the implementation side (variants __ra<o>_<k>), not proved",
                       "intrinsic semantics of Isa/Avx512.lean (executed on this machine's AVX512F unit in this run)",
                       "build configuration -D__AVX512__ -mavx512f (never selected by the shipped test build)"]
    st = run_gen()
    standard_proof_phase(res, MODULE, "C11_", st, ["Scalar", "Avx512"], thorough=(tier == "thorough"))
    drv, err = build_driver()
    if err:
        res.broken.append(("model driver build", err))
        drv = NO_MODEL
    names = (st.get("modules", {}).get("Avx512", {}) or {}).get("names", []) + (st.get("modules", {}).get("Avx512", {}) or {}).get("untranslated", [])
    missing = [k for k in specs() if k not in names]
    if missing:
        res.broken.append(("kernels missing from the translated module", ", ".join(missing)))
    n = 1500 if tier == "quick" else 60000
    for fl in (["O1"] if tier == "quick" else ["O1", "O3"]):
        h, err = build_harness(fl)
        if err:
            res.broken.append(("harness build (%s)" % fl, err))
            continue
        if drv:
            corr_campaign(res, h, drv, with_reg_alias(make_cases(seed + len(fl), n, names), st), fl)
    return res.finish()
