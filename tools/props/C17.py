"""C17 — strided / offset / broadcast base-field wrappers and bulk copies move the right data.

proof : Props/C17Gen.lean (one structural equality per overload, statement generated from the C++ SIGNATURE, body
        translated from the current source) + Props/C17.lean (meaning of the equalities, kernels through C01/C02/C11,
        parcpy/parSetZero for every size / thread count / chunk order).
tie   : bodies are regenerated from the source (tr_cxx.py); correspondence runs every overload of the implementation
        against the generated model and against an oracle derived from the signature (tools/wrapspec.py), in guard-page
        mode with exact-extent arrays (a read or write one element outside the designated extent faults).
"""
from common import *
import wrapspec as ws

PID = "C17"
MODULE = "GoldilocksVerif.Props.C17"
GENMOD = "GoldilocksVerif.Props.C17Gen"
MODS = ["WrapBatch", "WrapAvx2", "WrapAvx512"]
HAND_COVERED = {"set_avx": "C17_set_load_store", "load_avx512_a": "C17_set_load_store", "store_avx512_a": "C17_set_load_store"}
STRIDES = [0, 1, 1, 2, 3, 3, 5, 17]


def all_sigs(st):
    out = {}
    for m in MODS:
        for n, sg in ((st.get("modules", {}).get(m) or {}).get("sigs") or {}).items():
            out[n] = (m, sg)
    return out


def make_case(rng, name, sig, desc, big=False, alias=None):
    """one request line + checker for an overload.  alias = [k, o, scalar name, result-array name]: the variant `<name>__as<k>`
    whose scalar argument is element j of the result array itself (`f(out, out[j], …)`): the designated scalar is the value
    out[j] holds at the call"""
    W = desc["W"]
    args = {}
    opnds = [desc["out"]] + desc["data"]
    # offsets first
    for o in opnds:
        if o["kind"] == "arr" and o["off"] is not None:
            kind, nm = o["off"]
            if kind == "off":
                args[nm] = 1000 + rng.below(24) if big else rng.choice(STRIDES)
            else:
                L = rng.choice([W, W, W + 3, 4 * W, 64])
                pat = rng.below(5)
                if pat == 0:
                    idx = list(range(W))
                elif pat == 1:
                    idx = list(range(W - 1, -1, -1))
                elif pat == 2:   # permutation of a spread-out set
                    idx = [(i * (L // W if L >= W else 1)) % L for i in range(W)]
                    for i in range(W - 1, 0, -1):
                        j = rng.below(i + 1)
                        idx[i], idx[j] = idx[j], idx[i]
                elif pat == 3:   # with duplicates
                    idx = [rng.below(max(1, L // 2)) for _ in range(W)]
                else:
                    idx = [rng.below(L) for _ in range(W)]
                args[nm] = idx
    # arrays sized EXACTLY to the designated extent
    for o in opnds:
        if o["kind"] == "arr":
            pos = ws.positions(o, args, W)
            n = max(pos) + 1
            args[o["name"]] = [gen_word(rng) for _ in range(n)]
        elif o["kind"] == "reg":
            if o is desc["out"]:
                continue
            args[o["name"]] = [gen_word(rng) for _ in range(W)]
        elif o["kind"] == "val":
            args[o["name"]] = gen_word(rng)
    alias_j = None
    if alias:
        outarr = args[alias[3]]
        alias_j = rng.below(len(outarr)) if rng.below(4) else 0
        args[alias[2]] = outarr[alias_j]
        name = "%s__as%d" % (name, alias[0])
    toks = []
    for q in sig["lean_params"]:
        if q["mode"] == "out":
            continue
        v = args[q["name"]]
        if alias and q["name"] == alias[2]:
            toks.append(hx(alias_j))
        elif q["cat"] == "ptr":
            toks.append("[ " + " ".join(hx(x) for x in v) + " ]")
        elif q["cat"] in ("v4", "v8"):
            toks.append(" ".join(hx(x) for x in v))
        else:
            toks.append(hx(v))
    line = "!^%s %s" % (name, " ".join(toks))
    lanes, outpos = ws.oracle(desc, args)
    exact = desc["op"] == "copy"

    def same(x, y):
        return x == y if exact else x % P == y % P

    if desc["out"]["kind"] == "reg":
        def expect(vals):
            return (len(vals) == W and all(same(vals[k], lanes[k]) for k in range(W)),
                    "lanes " + " ".join(hx(x) for x in lanes) + (" (exact)" if exact else " (mod p)"))
    else:
        old = list(args[desc["out"]["name"]])

        def expect(vals):
            if len(vals) != len(old):
                return False, "%d words" % len(old)
            cand = {}
            for k in range(W):
                cand.setdefault(outpos[k], []).append(lanes[k])
            for j in range(len(old)):
                if j in cand:
                    if not any(same(vals[j], c) for c in cand[j]):
                        return False, "position %d one of %s%s" % (j, [hx(c) for c in cand[j]], " (exact)" if exact else " (mod p)")
                elif vals[j] != old[j]:
                    return False, "position %d unchanged (%x)" % (j, old[j])
            return True, ""
    strides = sorted(str(args[o["off"][1]]) if o["off"][0] == "off" else "idx" for o in opnds if o["kind"] == "arr" and o["off"])
    tag = "%s|%s" % (name, ",".join(strides))
    return {"line": line, "key": name, "tag": tag, "expect": expect,
            "note": "scalar argument aliases result element %d" % alias_j if alias else None}


def parcopy_cases(rng, tier):
    cases = []
    sizes = list(range(0, 20)) + [31, 32, 33, 64, 100] + ([255, 256, 1000, 4097] if tier == "thorough" else [])
    nts = [-(1 << 31), -7, -1, 0, 1, 2, 3, 4, 5, 7, 8, 16, 33, 64, 1000]
    for size in sizes:
        for nt in (nts if tier == "thorough" else [rng.choice(nts) for _ in range(5)] + [0, -1, 1, 3]):
            src = [gen_word(rng) for _ in range(size)]
            slack = rng.below(3)
            dst = [gen_word(rng) | 1 for _ in range(size + slack)]
            ntw = nt & M64
            exp = src + dst[size:]
            for fn in ("parcpy", "parcpy_rev"):
                cases.append({"line": "!^%s %x [ %s ] [ %s ]" % (fn, ntw, " ".join(hx(x) for x in dst), " ".join(hx(x) for x in src)),
                              "key": "parcpy", "tag": "parcpy|size%s nt%s" % ("0" if size == 0 else ("<nt" if 0 < nt and size < nt else ">0"), "<1" if nt < 1 else ">=1"),
                              "expect": (lambda v, e=exp: (v == e, "src copied to dst[0..size), rest of dst unchanged"))})
            z = rng.below(size + 1) if rng.below(3) == 0 else size
            expz = [0] * z + dst[z:]
            cases.append({"line": "!^parsetzero %x %x [ %s ]" % (z, ntw, " ".join(hx(x) for x in dst)), "key": "parSetZero",
                          "tag": "parsetzero|size%s nt%s" % ("0" if z == 0 else ">0", "<1" if nt < 1 else ">=1"),
                          "expect": (lambda v, e=expz: (v == e, "dst[0..size) zero, rest unchanged"))})
    return cases


def run(tier, seed):
    res = Result(PID, tier, seed)
    res.rule = ("every translated copy/add/sub/mul _batch/_avx/_avx512 overload x {scalar strides 0,1,2,3,5,17 and 1000+, index arrays "
                "identity/reversed/permuted/with duplicates/random} x boundary-directed operand words; arrays sized EXACTLY to the "
                "designated extent and mapped against a PROT_NONE page (forked child) so any out-of-extent access faults; whole output "
                "array returned so stray writes are seen; parcpy/parSetZero over sizes 0..20,31..100 (thorough: ..4097) x int thread "
                "counts incl. INT_MIN, negative, 0, > size; distinct = distinct (overload, stride pattern)")
    res.assumptions = ["operand designation is derived from parameter TYPES and NAMES (offset_a/offset_b/offset_c/offsets1/stride...), see tools/wrapspec.py",
                       "distinct pointer arguments designate non-overlapping memory (Region model); aliasing of wrapper POINTER arguments is not covered; a scalar argument taken from the result array itself (f(out, out[j], ...)) IS exercised (variants __as<k>: implementation called with the aliased element, model and oracle with its value at the call)",
                       "parcpy/parSetZero: size + num_threads - 1 < 2^64 (the C++ chunk computation would wrap otherwise)"]
    st = run_gen()
    wsinfo = st.get("wrapspec") or {}
    if wsinfo.get("error"):
        res.broken.append(("statement generation (tools/wrapspec.py)", wsinfo["error"]))
    index = wsinfo.get("theorems", [])
    sigs = all_sigs(st)
    # coverage: every translated wrapper has a statement
    have = {t["fn"] for t in index}
    for n in sorted(sigs):
        if n not in have and n not in HAND_COVERED:
            why = [s["why"] for s in wsinfo.get("skipped", []) if s["fn"] == n]
            res.broken.append(("overload %s has no generated statement" % n, "; ".join(why) or "not classified"))
    # generated module first, so that a failing overload is named
    failing = set()
    ok, out, dt = build_props(GENMOD)
    res.extra["lake_build_gen_s"] = round(dt, 1)
    gen_file = os.path.join(LEAN, "GoldilocksVerif", "Props", "C17Gen.lean")
    if not ok:
        starts = []
        for i, l in enumerate(open(gen_file).read().splitlines(), 1):
            m = re.match(r"theorem (\w+)_spec", l)
            if m:
                starts.append((i, m.group(1)))
        for e in lean_errors(out):
            m = re.search(r"C17Gen\.lean:(\d+):", e)
            if m:
                ln = int(m.group(1))
                cur = [n for i, n in starts if i <= ln]
                if cur:
                    failing.add(cur[-1])
        for n in sorted(failing):
            c = next((t["c"] for t in index if t["fn"] == n), n)
            res.broken.append(("structural equality %s_spec no longer checks" % n, "overload: %s\n(wrapper body no longer equals kernel-on-designated-operands)" % c))
        if not failing:
            res.broken.append(("lake build " + GENMOD, out[-3000:]))
    standard_proof_phase(res, MODULE, "C17_", st, MODS, thorough=(tier == "thorough"))
    gen_names = [t["theorem"] for t in index]
    res.obligations = list(res.obligations) + gen_names
    if ok:
        ax, raw = print_axioms(GENMOD, "GoldilocksVerif.C17Gen", gen_names)
        for n in gen_names:
            a = ax.get(n)
            if a is None:
                res.broken.append(("#print axioms %s" % n, raw[-1500:]))
            elif set(a) - ALLOWED_AXIOMS:
                res.broken.append(("axioms of %s" % n, ", ".join(a)))
            else:
                res.discharged.append(n)
        bad = audit_sources(GENMOD)
        if bad:
            res.broken.append(("source audit of generated statements", "\n".join(bad)))
    res.extra["overloads"] = {"translated": len(sigs), "with_generated_statement": len(index), "hand_stated": sorted(HAND_COVERED)}
    # ---- correspondence + oracle
    drv, err = build_driver()
    if err:
        res.broken.append(("model driver build", err))
        drv = NO_MODEL
    per = 6 if tier == "quick" else 120
    for fl in (["O1"] if tier == "quick" else ["O1", "O3"]):
        h, err = build_harness(fl)
        if err:
            res.broken.append(("harness build (%s)" % fl, err))
            continue
        rng = Rng(seed ^ 0xC17 ^ len(fl))
        cases = []
        for n in sorted(sigs):
            m, sg = sigs[n]
            try:
                d = ws.describe(n, sg)
            except ws.NoSpec:
                continue
            reps = per * (10 if n in failing else 1)
            for r in range(reps):
                cases.append(make_case(rng, n, sg, d, big=(r % 6 == 5)))
            # call patterns in which the broadcast scalar is an element of the result array (`mul_batch(v, v[0], v)`)
            for al in sg.get("scalar_alias") or []:
                if not sg.get("untranslated") and al[2] in [o.get("name") for o in d["data"]] and d["out"].get("name") == al[3]:
                    for r in range(max(2, reps // 2)):
                        cases.append(make_case(rng, n, sg, d, big=(r % 6 == 5), alias=al))
        cases = with_reg_alias(cases, st, every=3)
        cases += parcopy_cases(rng, tier)
        corr_campaign(res, h, drv, cases, fl)
    # parcpy / parSetZero must transfer exactly `size` elements also when the OpenMP runtime GRANTS fewer members than
    # requested (nested region, thread limit) or runs the members in another order: stand-in runtime of the C12 check
    hs, err = build_harness("ompseq")
    if err:
        res.broken.append(("harness build (ompseq)", err))
    else:
        rng = Rng(seed ^ 0xC17AA)
        cases = []
        for c in parcopy_cases(rng, "quick"):
            for cap in (1, 2, 0):
                cc = dict(c)
                cc["line"] = "@0:8:%x:%d %s" % (rng.below(1 << 30), cap, c["line"].lstrip("!^"))
                cc["tag"] = c["tag"] + "|granted<=%s" % (cap or "all")
                cases.append(cc)
        corr_campaign(res, hs, drv, cases, "ompseq")
    return res.finish()
