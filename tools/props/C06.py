"""C06 — Poseidon permutation: scalar = AVX2 = AVX512 = spec. proof: Props/C06.lean over the translated
hash_full_result_seq / hash_full_result / hash_full_result_avx512; tie: regeneration + CPU correspondence."""
from common import *
from props.pos_common import *

PID = "C06"
MODULE = "GoldilocksVerif.Props.C06"


def gen_state(rng):
    k = rng.below(6)
    if k == 0:
        return [rng.choice([0, P, 1, P - 1, M64]) for _ in range(12)]
    if k == 1:
        return [P + rng.below(0xFFFFFFFF) for _ in range(12)]
    return [gen_word(rng) for _ in range(12)]


def make_cases(seed, n):
    rng = Rng(seed ^ 0xC06)
    cases = []
    z12 = " ".join(["0"] * 12)
    z24 = " ".join(["0"] * 24)
    kat = [list(range(12)), [P - 1] * 12]
    for i in range(n):
        st = kat[i] if i < len(kat) else gen_state(rng)
        st2 = gen_state(rng)
        ref, ref2 = perm(st), perm(st2)
        tag = "nc" if any(x >= P for x in st) else None
        for fn in ("Pos_hash_full_result_seq", "Pos_hash_full_result"):
            cases.append({"line": "%s [ %s ] [ %s ]" % (fn, z12, " ".join(hx(x) for x in st)), "key": fn, "tag": tag,
                          "expect": (lambda v, ref=ref: (canon(v[:12]) == ref, "reference permutation"))})
        for fn in ("Pos_hash_seq", "Pos_hash"):
            cases.append({"line": "%s [ 0 0 0 0 ] [ %s ]" % (fn, " ".join(hx(x) for x in st)), "key": fn, "tag": tag,
                          "expect": (lambda v, ref=ref: (canon(v[:4]) == ref[:4], "first four elements of the permutation"))})
        il = []
        for blk in range(3):
            il += st[4 * blk:4 * blk + 4] + st2[4 * blk:4 * blk + 4]

        def chk512(v, ref=ref, ref2=ref2):
            ok = len(v) >= 24
            for blk in range(3):
                ok = ok and canon(v[8 * blk:8 * blk + 4]) == ref[4 * blk:4 * blk + 4] and canon(v[8 * blk + 4:8 * blk + 8]) == ref2[4 * blk:4 * blk + 4]
            return ok, "reference permutation on both interleaved states"
        cases.append({"line": "Pos_hash_full_result_avx512 [ %s ] [ %s ]" % (z24, " ".join(hx(x) for x in il)),
                      "key": "Pos_hash_full_result_avx512", "tag": tag, "expect": chk512})
        cases.append({"line": "Pos_hash_avx512 [ 0 0 0 0 0 0 0 0 ] [ %s ]" % " ".join(hx(x) for x in il), "key": "Pos_hash_avx512", "tag": tag,
                      "expect": (lambda v, ref=ref, ref2=ref2: (canon(v[:4]) == ref[:4] and canon(v[4:8]) == ref2[:4], "two capacity-sized hashes"))})
    return cases


def backend_search(res, h, seed, tier, fl):
    """in-process search of the implementation for a state on which the three backends disagree (harness op `possearch`);
    the budget is raised when a proof obligation or the correspondence is already broken"""
    per = 100000 if tier == "quick" else 3000000
    if res.broken:
        per = max(per, 4000000)
    lines = ["possearch %x %x" % ((seed * 1000003 + 7919 * k + 1) & M64, per) for k in range(NPROC)]
    out = run_parallel(h, lines, timeout=3000)
    res.extra["backend_search_states_" + fl] = per * NPROC
    res.evaluations = getattr(res, "evaluations", 0)
    for ln, r in zip(lines, out):
        v = parse_reply(r)
        if v is None:
            res.broken.append(("backend search (%s)" % fl, "line: %s\nreply: %s" % (ln, r)))
        elif v and v[0] == 1:
            stt = " ".join(hx(x) for x in v[1:13])
            res.failures.append({"key": "Pos_hash_full_result", "lines": ["Pos_hash_full_result_seq [ %s ] [ %s ]" % (" ".join(["0"] * 12), stt),
                                                                         "Pos_hash_full_result [ %s ] [ %s ]" % (" ".join(["0"] * 12), stt)],
                                 "expected": "the same 12 field elements from hash_full_result_seq, hash_full_result and hash_full_result_avx512",
                                 "observed": "backends disagree on this state (found by possearch, %s build)" % fl,
                                 "note": "search seed line: " + ln})
            break


def run(tier, seed):
    res = Result(PID, tier, seed)
    res.rule = ("12-element states over boundary words (all-zero, all p-1, all 2^64-1, non-canonical band) and random words; "
                "the suite's known-answer inputs first; every state goes through seq, AVX2 and (paired) AVX512 and is compared "
                "with an independent Python permutation on the constants read from the header; non-trivial = a non-canonical word")
    res.assumptions = ["reference = tools/poseidon_ref.py (add C; 3x[x^7,+C,M]; x^7,+C,P; 22 partial rounds with S; 3x[x^7,+C,M]; x^7,M)"]
    st = run_gen()
    standard_proof_phase(res, MODULE, "C06_", st, ["Scalar", "Avx2", "Avx512", "Avx2Mat", "Avx512Mat", "PosConsts", "PosScalar", "PosAvx2", "PosAvx512"],
                         thorough=(tier == "thorough"))
    drv, err = build_driver()
    if err:
        res.broken.append(("model driver build", err))
        drv = NO_MODEL
    n = 120 if tier == "quick" else 6000
    for fl in (["O1"] if tier == "quick" else ["O1", "O3", "asan"]):
        h, err = build_harness(fl)
        if err:
            res.broken.append(("harness build (%s)" % fl, err))
            continue
        if drv:
            corr_campaign(res, h, drv, make_cases(seed + len(fl), n if fl != "asan" else max(20, n // 10)), fl)
        if fl != "asan":
            backend_search(res, h, seed, tier, fl)
    return res.finish()
