"""C05 — extendPol is the low-degree extension onto the shifted coset (same machinery as C03, extendPol calls)."""
from common import *
import props.C03 as C03

PID = "C05"
MODULE = "GoldilocksVerif.Props.C05"


def extend_histories(seed, tier):
    """short histories of extendPol calls on ONE object with growing, shrinking and repeated N: every call must still be the
    low-degree extension (the coefficient cache must never be reused for another N)"""
    rng = Rng(seed ^ 0xC05)
    cases = []
    for _ in range(60 if tier == "quick" else 400):
        s = rng.choice([3, 4, 5])
        calls = []
        for _c in range(2 + rng.below(3)):
            d = rng.below(s + 1)
            n = 1 << d
            e = min(d + rng.below(3), 6)
            ncols = rng.choice([1, 2, 3])
            mode = rng.choice((0, 1))
            rows = n if mode == 1 else (1 << e)
            calls.append((2, n, 1 << e, ncols, rng.below(e + 3), rng.below(ncols + 2), rng.below(2), mode, C03.nc.gen_data(rng, rows * ncols)))
        ns = [c[1] for c in calls]
        tag = "hist:len=%d,%s" % (len(calls), "shrinks" if any(b < a for a, b in zip(ns, ns[1:])) else ("grows" if any(b > a for a, b in zip(ns, ns[1:])) else "same"))
        cases.append({"line": C03.nc.seq_line(1 << s, rng.choice([1, 2, 3]), calls), "key": "extendPol-history", "calls": calls, "tag": tag})
    return cases


def run(tier, seed):
    # thorough: two builds only (the Lean model re-executes every transform for every build: extendPol is the costliest)
    res = C03.run_generic(PID, MODULE, "C05_", [2], tier, seed, "extendPol (N <= N_ext incl. N = 1 and N_ext = N)",
                          thorough_flavours=("O1", "asan"))
    drv, err = build_driver()
    h, herr = build_harness("O1")
    if h and not herr:
        C03.nc.run_cases(res, h, drv if not err else NO_MODEL, extend_histories(seed, tier), "O1")
    return res.finish()
