"""C05 — extendPol is the low-degree extension onto the shifted coset (same machinery as C03, extendPol calls)."""
from common import *
import props.C03 as C03

PID = "C05"
MODULE = "GoldilocksVerif.Props.C05"


def run(tier, seed):
    return C03.run_generic(PID, MODULE, "C05_", [2], tier, seed, "extendPol (N <= N_ext incl. N = 1 and N_ext = N)").finish()
