"""C14 — AVX512 12-wide kernels on two interleaved states. proof: Props/C14.lean over Gen/Avx512Mat.lean."""
from common import *
import props.C13 as C13

PID = "C14"
MODULE = "GoldilocksVerif.Props.C14"
W = 8


def states_of(regs):
    """(a0,a1,a2) 8-lane registers -> two 12-element states (lanes 0-3 / 4-7)"""
    s0 = [regs[j][k] for j in range(3) for k in range(4)]
    s1 = [regs[j][4 + k] for j in range(3) for k in range(4)]
    return s0, s1


def dot(st, M, off):
    return sum(st[m] * M[off + m] for m in range(12)) % P


def kernel_table():
    T = {}
    for var, is8 in (("", False), ("_8", True)):
        T["spmv_avx512_4x12" + var] = (12, is8, lambda s, M, o: all(
            o[4 * h + i] % P == (s[h][i] * M[i] + s[h][4 + i] * M[4 + i] + s[h][8 + i] * M[8 + i]) % P
            for h in range(2) for i in range(4)))
        T["mmult_avx512_4x12" + var] = (48, is8, lambda s, M, o: all(
            o[4 * h + i] % P == dot(s[h], M, 12 * i) for h in range(2) for i in range(4)))
        T["mmult_avx512" + var] = (144, is8, lambda s, M, o: all(
            o[8 * r + 4 * h + i] % P == dot(s[h], M, 48 * r + 12 * i) for r in range(3) for h in range(2) for i in range(4)))
    # dot_avx512(Element c[2], a0,a1,a2, b): output region c (2 words) comes first in the reply
    T["dot_avx512"] = (12, False, lambda s, M, o: o[0] % P == dot(s[0], M, 0) and o[1] % P == dot(s[1], M, 0))
    return T


def gen_state_word(rng, mode):
    if mode == 1:      # D4-style: products equal to 2^64-1
        return rng.choice([0, 0x5555555555555555, 0x5555555555555555, 1])
    return C13.gen_state_word(rng)


def gen_coeff(rng, is8, mode):
    if mode == 1:
        return rng.choice([0, 3, 3, 1])
    return C13.gen_coeff(rng, is8)


def make_cases(seed, n, names, T):
    rng = Rng(seed ^ 0xC14)
    cases = []
    for name in names:
        if name not in T:
            continue
        mlen, is8, chk = T[name]
        for _ in range(n):
            mode = 1 if rng.below(3) == 0 else 0
            regs = [[gen_state_word(rng, mode) for _ in range(W)] for _ in range(3)]
            M = [gen_coeff(rng, is8, mode) for _ in range(mlen)]
            if mlen % 12 == 0 and rng.below(5) == 0:
                C13.directed_sum(rng, regs, M, mlen, 2)
            if name == "dot_avx512":
                line = "%s [ 0 0 ] %s [ %s ]" % (name, " ".join(hx(v) for r in regs for v in r), " ".join(hx(v) for v in M))
            else:
                line = "%s %s [ %s ]" % (name, " ".join(hx(v) for r in regs for v in r), " ".join(hx(v) for v in M))

            def expect(vals, regs=regs, M=M, chk=chk):
                try:
                    ok = chk(states_of(regs), M, vals)
                except IndexError:
                    ok = False
                return ok, "integer matrix-vector products (two interleaved states) reduced mod p"
            band = sum(1 for j in range(3) for k in range(W) if (regs[j][k] * M[(4 * j + k % 4) % mlen]) % (1 << 64) >= P)
            cases.append({"line": line, "key": name, "expect": expect, "tag": ("band%d" % min(band, 4) if band else None)})
    return cases


def run(tier, seed):
    res = Result(PID, tier, seed)
    res.rule = ("pairs of states interleaved in three 8-lane registers x coefficient arrays; one third of the cases use the "
                "pattern state in {0, 0x5555555555555555, 1} x coefficient in {0, 3, 1} so that two or more addends of a lane "
                "are 2^64-1 (in [p,2^64)); non-trivial = at least one lane product in the non-canonical band")
    res.assumptions = ["register operands are values in the model; the in-place call patterns f(x, x, b) / f(x, a, x) (output register object = an input register object) are exercised on the implementation side (variants __ra<o>_<k>), not proved",
                       "intrinsic semantics of Isa/Avx512.lean incl. permutex2var/unpack (executed on AVX512F hardware in this run)"]
    st = run_gen()
    standard_proof_phase(res, MODULE, "C14_", st, ["Scalar", "Avx512", "Avx512Mat"], thorough=(tier == "thorough"))
    drv, err = build_driver()
    if err:
        res.broken.append(("model driver build", err))
        drv = NO_MODEL
    names = (st.get("modules", {}).get("Avx512Mat", {}) or {}).get("names", []) + (st.get("modules", {}).get("Avx512Mat", {}) or {}).get("untranslated", [])
    T = kernel_table()
    missing = [k for k in T if k not in names]
    if missing:
        res.broken.append(("kernels missing from the translated module", ", ".join(missing)))
    n = 400 if tier == "quick" else 20000
    for fl in (["O1"] if tier == "quick" else ["O1", "O3", "asan"]):
        h, err = build_harness(fl)
        if err:
            res.broken.append(("harness build (%s)" % fl, err))
            continue
        if drv:
            corr_campaign(res, h, drv, with_reg_alias(make_cases(seed + len(fl), n if fl != "asan" else n // 10, names, T), st), fl)
    return res.finish()
