"""C01 — scalar field ops exact mod p on every representation.
proof: Props/C01.lean over Gen/Scalar.lean (regenerated from the asm blocks);
tie: regeneration + CPU correspondence of the generated definitions with the compiled functions."""
from common import *

PID = "C01"
MODULE = "GoldilocksVerif.Props.C01"

BIN = {  # op -> spec on canonical result
    "add__eEE": lambda a, b: (a + b) % P, "add__rEE": lambda a, b: (a + b) % P,
    "sub__eEE": lambda a, b: (a - b) % P, "sub__rEE": lambda a, b: (a - b) % P,
    "mul__eEE": lambda a, b: (a * b) % P, "mul__rEE": lambda a, b: (a * b) % P,
    "mulScalar__eEE": lambda a, b: (a * b) % P, "mulScalar__rEE": lambda a, b: (a * b) % P,
    "alias_add_oa": lambda a, b: (a + b) % P, "alias_add_ob": lambda a, b: (a + b) % P,
    "alias_sub_oa": lambda a, b: (a - b) % P, "alias_sub_ob": lambda a, b: (a - b) % P,
    "alias_mul_oa": lambda a, b: (a * b) % P, "alias_mul_ob": lambda a, b: (a * b) % P,
}
UN = {
    "square__rE": lambda a: (a * a) % P, "square__eE": lambda a: (a * a) % P,
    "neg__rE": lambda a: (-a) % P, "neg__eE": lambda a: (-a) % P,
    "inc": lambda a: (a + 1) % P, "dec": lambda a: (a - 1) % P,
    "toU64__rE": lambda a: a % P, "toU64__eE": lambda a: a % P,
    "alias_add_ab": lambda a: (2 * a) % P, "alias_add_oab": lambda a: (2 * a) % P,
    "alias_sub_ab": lambda a: 0, "alias_sub_oab": lambda a: 0,
    "alias_mul_ab": lambda a: (a * a) % P, "alias_mul_oab": lambda a: (a * a) % P,
}


def path_tag(op, a, b):
    """which carry path the operands take (mirror of the asm, for the coverage statistics only)"""
    base = op.split("__")[0].replace("alias_", "").split("_")[0]
    if base in ("add",):
        s = a + b
        c1 = s >> 64
        s2 = (s & M64) + (0xFFFFFFFF if c1 else 0)
        return "add:c1=%d,c2=%d" % (c1, s2 >> 64)
    if base in ("sub", "neg", "dec"):
        b1 = 1 if a < b else 0
        d = (a - b) & M64
        b2 = 1 if (b1 and d < 0xFFFFFFFF) else 0
        return "sub:b1=%d,b2=%d" % (b1, b2)
    if base in ("mul", "square", "mulScalar"):
        p = a * b
        hi, lo = p >> 64, p & M64
        hl, hh = hi & 0xFFFFFFFF, hi >> 32
        rdx = hl * 0xFFFFFFFF + (1 << 32)
        c = (lo + rdx) >> 64
        r2 = ((lo + rdx) & M64) + (0xFFFFFFFF if c else 0)
        br = 1 if r2 < hh + (1 << 32) else 0
        return "mul:c=%d,b=%d" % (c, br)
    return "un:" + ("nc" if a >= P else "c")


def gen_cases(seed, n):
    rng = Rng(seed ^ 0xC01)
    lines, meta = [], []
    bops = sorted(BIN)
    uops = sorted(UN)
    for i in range(n):
        if rng.below(4) == 0:
            op = rng.choice(uops)
            a = gen_word(rng)
            lines.append("%s %s" % (op, hx(a)))
            meta.append((op, a, None))
        else:
            op = rng.choice(bops)
            k = rng.below(8)
            if k == 0 and "mul" in op:
                a, b = gen_pair_mul_band(rng)
            elif k in (2, 3) and ("mul" in op or "square" in op):
                a, b = gen_pair_limbs(rng)
            elif k == 1:   # sums/differences that cross a carry boundary by ±1
                a = gen_word(rng)
                t = rng.choice([1 << 64, (1 << 64) - 0xFFFFFFFF, P, 2 * P, (1 << 64) + 0xFFFFFFFF]) + rng.below(5) - 2
                b = (t - a) & M64 if "sub" not in op else (a - (t & 0xFFFFFFFF) - rng.below(3)) & M64
            else:
                a, b = gen_word(rng), gen_word(rng)
            lines.append("%s %s %s" % (op, hx(a), hx(b)))
            meta.append((op, a, b))
    return lines, meta


def correspondence(res, harness, driver, seed, n, flavour):
    lines, meta = gen_cases(seed, n)
    impl = run_parallel(harness, lines)
    model = run_parallel(driver, lines)
    for ln, (op, a, b), ri, rm in zip(lines, meta, impl, model):
        key = ln
        tag = path_tag(op, a, b if b is not None else (a if "square" in op or "ab" in op else (1 if op in ("inc", "dec") else 0)))
        nontriv = tag if not tag.endswith("c1=0,c2=0") and not tag.endswith("b1=0,b2=0") and not tag.endswith("c=0,b=0") and tag != "un:c" else None
        res.note_case(key, nontriv)
        exp = BIN[op](a, b) if b is not None else UN[op](a)
        okspec = False
        if ri.startswith("ok "):
            try:
                v = int(ri.split()[1], 16)
                okspec = (v % P) == exp
            except Exception:
                okspec = False
        if not okspec:
            res.failures.append({"key": op, "lines": [ln], "expected": "canonical %x" % exp, "observed": ri,
                                 "note": "implementation (%s build) vs (a op b) mod p" % flavour})
        if ri != rm:
            res.broken.append(("correspondence %s: implementation != generated model" % op,
                               "line: %s\nimpl : %s\nmodel: %s" % (ln, ri, rm)))
        else:
            res.traces += 1
    if len(res.samples) < 8:
        res.samples.extend({"line": l, "impl": i, "model": m} for l, i, m in list(zip(lines, impl, model))[:8])
    # de-duplicate broken correspondence entries (keep first few)
    seen, out = set(), []
    for w, d in res.broken:
        if w in seen:
            continue
        seen.add(w)
        out.append((w, d))
    res.broken = out


def run(tier, seed):
    res = Result(PID, tier, seed)
    res.rule = ("boundary-directed operand pairs from one SplitMix64 stream (carry/borrow boundaries, non-canonical band, "
                "products solved onto reduction boundaries, all aliasing patterns); a case is non-trivial when it takes a "
                "carry/borrow path or has a non-canonical operand; distinct = distinct (path, operands)")
    res.assumptions = ["USE_MONTGOMERY == 0 and GOLDILOCKS_DEBUG == 0 (as in the header; translator sees preprocessed code)",
                       "aliasing: the generated functions are value functions because inputs are copied to registers before the "
                       "early-clobber output is written (checked by tr_asm); aliasing patterns are also executed"]
    st = run_gen()
    standard_proof_phase(res, MODULE, "C01_", st, ["Scalar"], thorough=(tier == "thorough"))
    n = 60000 if tier == "quick" else 3000000
    drv, err = build_driver()
    if err:
        res.broken.append(("model driver build", err))
        drv = NO_MODEL
    flavours = ["O1"] if tier == "quick" else ["O1", "O3", "asan"]
    for fl in flavours:
        h, err = build_harness(fl)
        if err:
            res.broken.append(("harness build (%s)" % fl, err))
            continue
        if drv:
            correspondence(res, h, drv, seed + len(fl), n if fl != "asan" else n // 10, fl)
    res.extra["flavours"] = flavours
    return res.finish()
