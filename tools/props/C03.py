"""C03 — NTT computes the DFT for every size and configuration. proof: Props/C03.lean; model Model/Ntt.lean (hand-written,
function by function); tie: correspondence over all small shapes + sampled larger ones, each compared with the O(n^2) definition."""
from common import *
import props.ntt_common as nc

PID = "C03"
MODULE = "GoldilocksVerif.Props.C03"
OPS = [0]
PREFIX = "C03_"


def larger_cases(seed, ops, tier):
    rng = Rng(seed ^ 0x303)
    cases = []
    for _ in range(12 if tier == "quick" else 300):
        s = rng.choice([7, 8, 9, 10] if tier == "quick" else [7, 8, 9, 10, 11, 12])
        d = rng.choice([s, s, s - 1, s - 3, rng.below(s + 1)])
        n = 1 << d
        op = rng.choice(ops)
        e = min(d + rng.below(3), 10 if tier == "quick" else 12)
        next_ = (1 << e) if op == 2 else 0
        ncols = rng.choice([1, 2, 3, 7])
        nphase = rng.choice([0, 1, 2, 3, 4, 5, d, d + 1, M64])
        nblock = rng.choice([0, 1, 2, 3, ncols, ncols + 1, M64])
        mode = rng.choice((0, 1, 2) if op != 2 else (0, 1))
        rows = n if (op != 2 or mode == 1) else next_
        data = nc.gen_data(rng, rows * ncols)
        calls = [(op, n, next_, ncols, nphase, nblock, rng.below(2), mode, data)]
        cases.append({"line": nc.seq_line(1 << s, rng.choice([1, 2, 3, 5, 16]), calls), "key": ["NTT", "INTT", "extendPol"][op],
                      "calls": calls, "tag": "big:s=%d,d=%d" % (s, d)})
    # wide matrices (row buffers, chunked copies): few rows, column counts around powers of two
    for ncols in ([64, 127, 128, 129, 256] if tier == "quick" else [31, 32, 33, 64, 127, 128, 129, 255, 256, 257, 384]):
        for d in (2, 3):
            for op in ops:
                for nphase in (1, 2, 3):
                    for mode in ((0, 1) if op == 2 else (0, 1, 2)):
                        n = 1 << d
                        e = d + 1
                        next_ = (1 << e) if op == 2 else 0
                        rows = n if (op != 2 or mode == 1) else next_
                        data = nc.gen_data(rng, rows * ncols)
                        nblock = rng.choice([1, 1, 2, 3])
                        calls = [(op, n, next_, ncols, nphase, nblock, rng.below(2), mode, data)]
                        cases.append({"line": nc.seq_line(1 << (d + rng.below(2)), rng.choice([1, 2, 5]), calls), "key": ["NTT", "INTT", "extendPol"][op],
                                      "calls": calls, "tag": "wide:ncols=%d,d=%d,ph=%d,m=%d" % (ncols, d, nphase, mode)})
    return cases


def run_generic(PID, MODULE, PREFIX, OPS, tier, seed, what, thorough_flavours=("O1", "O3", "asan")):
    res = Result(PID, tier, seed)
    res.rule = ("%s: every (object size 2^s, transform size 2^d <= 2^s, ncols, nphase in 0..d+2 (and 2^64-1), nblock, caller buffer or "
                "none, destination = source / other / NULL) with s <= %d, boundary-valued matrices, thread counts 1,2,3,5,16, plus "
                "sampled sizes up to 2^%d; every output element compared with the O(n^2) definition on Python integers and with the "
                "Lean model; distinct = distinct shape tuple" % (what, 4 if tier == "quick" else 6, 10 if tier == "quick" else 12))
    res.assumptions = ["hand model Model/Ntt.lean is tied to the code by execution on the listed shapes — and ALSO by bridge theorems: the functions are regenerated from the source on every run and proved equal to the hand model (C03_generated_*), so the theorems hold for the current text, not only on the executed cases (1 <= n <= 2^30)",
                       "index arithmetic on Nat: exact for log2 n <= 30; n = 2^31, 2^32 are out of reach here (DESIGN.md §6)"]
    st = run_gen()
    standard_proof_phase(res, MODULE, PREFIX, st, ["Scalar", "NttGen"], thorough=(tier == "thorough"))
    drv, err = build_driver()
    if err:
        res.broken.append(("model driver build", err))
        drv = NO_MODEL
    for fl in (["O1"] if tier == "quick" else list(thorough_flavours)):
        h, err = build_harness(fl)
        if err:
            res.broken.append(("harness build (%s)" % fl, err))
            continue
        if drv:
            cases = nc.single_call_cases(seed + len(fl), OPS, tier if fl != "asan" else "quick") + larger_cases(seed + len(fl), OPS, tier)
            nc.run_cases(res, h, drv, cases, fl)
    return res


def run(tier, seed):
    return run_generic(PID, MODULE, PREFIX, OPS, tier, seed, "forward transform").finish()
