"""shared reference + generators for C03 (NTT), C04 (INTT), C05 (extendPol), C19 (object reuse)"""
from common import *
import re

_W = None


def Wtab():
    global _W
    if _W is None:
        txt = open(os.path.join(SRC, "goldilocks_base_field.cpp")).read()
        m = re.search(r"Goldilocks::W\[33\]\s*=\s*\{(.*?)\};", txt, re.S)
        _W = [int(x, 0) for x in re.findall(r"fromU64\((0x[0-9a-fA-F]+|\d+)", m.group(1))]
    return _W


def log2(n):
    return n.bit_length() - 1


def dft(rows, ncols, n, inverse=False):
    """rows: flat list n*ncols -> flat list"""
    w = Wtab()[log2(n)] % P
    if inverse:
        w = pow(w, P - 2, P)
    out = [0] * (n * ncols)
    pw = [pow(w, k, P) for k in range(n)]
    ninv = pow(n, P - 2, P)
    for k in range(n):
        for c in range(ncols):
            acc = 0
            for j in range(n):
                acc += rows[j * ncols + c] * pw[(j * k) % n]
            acc %= P
            if inverse:
                acc = acc * ninv % P
            out[k * ncols + c] = acc
    return out


def lde(rows, ncols, n, next_):
    coef = dft([x % P for x in rows[:n * ncols]], ncols, n, inverse=True)
    wext = Wtab()[log2(next_)] % P
    out = [0] * (next_ * ncols)
    for k in range(next_):
        x = 7 * pow(wext, k, P) % P
        for c in range(ncols):
            acc = 0
            for j in reversed(range(n)):
                acc = (acc * x + coef[j * ncols + c]) % P
            out[k * ncols + c] = acc
    return out


def call_tokens(op, n, next_, ncols, nphase, nblock, buf, mode, data):
    return "%x %x %x %x %x %x %x %x [ %s ]" % (op, n, next_, ncols, nphase & M64, nblock & M64, buf, mode, " ".join(hx(x) for x in data))


def expected_call(op, n, next_, ncols, mode, data):
    """reference output words of one call (canonical)"""
    d = [x % P for x in data]
    if op == 0:
        out = dft(d, ncols, n)
    elif op == 1:
        out = dft(d, ncols, n, inverse=True)
    else:
        out = lde(d, ncols, n, next_)
    exp = list(out)
    if mode == 1 and op != 2:
        exp += d            # source unchanged
    return exp


def seq_line(obj, thr, calls):
    return "nttseq %x %x %x %s" % (obj, thr, len(calls), " ".join(call_tokens(*c) for c in calls))


def check_seq(calls):
    exp = []
    for (op, n, next_, ncols, nphase, nblock, buf, mode, data) in calls:
        if n == 0 or ncols == 0:
            # no-op: destination keeps its content; harness prints whatever is there (sentinel for `other`)
            exp.append(None)
        else:
            exp.append(expected_call(op, n, next_, ncols, mode, data))
    return exp


def make_expect(calls):
    exps = check_seq(calls)

    def chk(v):
        pos = 0
        for (op, n, next_, ncols, nphase, nblock, buf, mode, data), e in zip(calls, exps):
            rows = next_ if op == 2 else n
            ln = rows * ncols + (n * ncols if (mode == 1 and op != 2) else 0)
            got = v[pos:pos + ln]
            pos += ln
            if e is None:
                # no-op call: source (if printed) must be unchanged
                continue
            if [x % P for x in got] != e:
                return False, "call %s: reference transform (and unchanged source)" % (["NTT", "INTT", "extendPol"][op])
        return pos == len(v), "exact reply length"
    return chk


def gen_data(rng, n):
    return [gen_word(rng) for _ in range(n)]


def single_call_cases(seed, ops, tier):
    """exhaustive small shapes for single calls"""
    rng = Rng(seed)
    cases = []
    smax = 4 if tier == "quick" else 6
    for s in range(0, smax + 1):
        for d in range(0, s + 1):
            n = 1 << d
            for op in ops:
                exts = [0] if op != 2 else list(range(d, min(smax, d + 2) + 1))
                for e in exts:
                    next_ = (1 << e) if op == 2 else 0
                    for ncols in ([1, 3] if tier == "quick" else [1, 2, 3, 5]):
                        dd = e if op == 2 else d
                        phases = list(range(0, dd + 3)) + ([M64] if tier != "quick" else [])
                        for nphase in phases:
                            for nblock in ([0, 1, 2, ncols + 1] if tier != "quick" else [1, 2]):
                                for buf in (0, 1):
                                    if tier == "quick" and buf == 1 and rng.below(2):
                                        continue
                                    modes = (0, 1, 2) if op != 2 else (0, 1)
                                    for mode in modes:
                                        if tier == "quick" and rng.below(3) == 0:
                                            continue
                                        rows = n if (op != 2 or mode == 1) else next_
                                        data = gen_data(rng, rows * ncols)
                                        obj = 1 << s
                                        if op == 2 and (1 << e) > obj:
                                            pass   # extendPol builds its own object for N_Extended; only N must fit
                                        calls = [(op, n, next_, ncols, nphase, nblock, buf, mode, data)]
                                        cases.append({"line": seq_line(obj, rng.choice([1, 2, 3, 5, 16]), calls),
                                                      "key": ["NTT", "INTT", "extendPol"][op], "calls": calls,
                                                      "tag": "s=%d,d=%d,ph=%s,nb=%d,m=%d" % (s, d, nphase if nphase < 100 else "max", nblock, mode)})
    # size 0 / zero columns are no-ops
    for op in ops:
        if op == 2:
            continue
        for (n, ncols) in ((0, 3), (4, 0)):
            calls = [(op, n, 0, ncols, 3, 1, 0, 1, [])]
            cases.append({"line": seq_line(16, 2, calls), "key": ["NTT", "INTT"][op] + "-noop", "calls": calls, "tag": "noop"})
    return cases


def gen_line(l):
    """the same request answered by the model GENERATED from ntt_goldilocks.cpp/.hpp (Gen/NttGen.lean, Driver/NttG.lean)"""
    l = l.lstrip("!")
    return "nttseqg" + l[len("nttseq"):] if l.startswith("nttseq ") else l


def run_cases(res, harness, driver, cases, flavour, timeout=900):
    lines = [c["line"] for c in cases]
    impl = run_parallel(harness, lines, timeout=timeout)
    model = run_parallel(driver, [l.lstrip("!") for l in lines], timeout=timeout)
    # the generated model is run against the first build flavour only (the implementation's replies of the other flavours are
    # compared with the hand model and the reference; keeps the thorough tier's time)
    gen = run_parallel(driver, [gen_line(l) for l in lines], timeout=timeout) if flavour == "O1" else list(impl)
    ngen = 0
    for c, ri, rg in zip(cases, impl, gen):
        if (ri or "").strip() != (rg or "").strip():
            res.broken.append(("correspondence %s: implementation != GENERATED model (Gen/NttGen.lean, translated from ntt_goldilocks.cpp/.hpp)" % c["key"],
                               "shape: %s\nline: %s\nimpl     : %s\ngenerated: %s" % (c.get("tag"), gen_line(c["line"])[:400], (ri or "")[:300], (rg or "")[:300])))
        else:
            ngen += 1
    if flavour == "O1":
        res.extra["generated_model_agreements"] = res.extra.get("generated_model_agreements", 0) + ngen
    for c, ri, rm in zip(cases, impl, model):
        res.note_case(c["line"][:300], c.get("tag"))
        v = parse_reply(ri)
        if v is None:
            ok, exp = False, "a result (no abort / crash)"
        else:
            ok, exp = make_expect(c["calls"])(v)
        if not ok:
            fk = c["key"] + ("" if v is not None else ":" + " ".join((ri or "").split()[:3]))
            res.failures.append({"key": fk, "lines": [c["line"][:8000]], "expected": exp, "observed": (ri or "")[:400],
                                 "note": "implementation (%s build) vs the O(n^2) definition; shape %s" % (flavour, c.get("tag"))})
        if (ri or "").strip() != (rm or "").strip():
            res.broken.append(("correspondence %s: implementation != model" % c["key"],
                               "shape: %s\nline: %s\nimpl : %s\nmodel: %s" % (c.get("tag"), c["line"][:400], (ri or "")[:300], (rm or "")[:300])))
        else:
            res.traces += 1
    res.samples.extend({"line": l[:200], "impl": (i or "")[:100], "model": (m or "")[:100]} for l, i, m in list(zip(lines, impl, model))[:5])
    dedup_broken(res)
