"""C15 — conversions and predicates. proof: Props/C15.lean over Model/Conv.lean (+ generated toU64/equal/is*) and, through the
bridge theorems of Lemmas/BridgeConv.lean (`C15_generated_*`), over Gen/ConvGen.lean = the conversions TRANSLATED from
goldilocks_base_field_tools.hpp on every run (mpz mode of tools/tr_cxx.py; DESIGN.CONV.md);
tie: correspondence with the compiled conversions (GMP included) on boundary-directed integers in every radix, for the hand
model AND for the generated functions."""
from common import *

PID = "C15"
MODULE = "GoldilocksVerif.Props.C15"
DIG = "0123456789abcdefghijklmnopqrstuvwxyz"


def to_radix(n, radix, rng):
    if n == 0:
        return "0"
    neg = n < 0
    n = abs(n)
    ds = []
    while n:
        d = DIG[n % radix]
        if rng.below(4) == 0:
            d = d.upper()
        ds.append(d)
        n //= radix
    return ("-" if neg else "") + "".join(reversed(ds))


def gen_int(rng):
    k = rng.below(12)
    base = rng.choice([0, P, -P, 2 * P, -2 * P, 1 << 64, -(1 << 64), 1 << 63, -(1 << 63), 1 << 31, -(1 << 31), (P - 1) // 2, -(P - 1) // 2, 3 * P, -3 * P, 1 << 128, -(1 << 128)])
    if k < 6:
        return base + rng.below(7) - 3
    if k < 8:
        return (rng.next() - (1 << 63))
    if k < 10:
        bits = 65 + rng.below(336)
        v = 0
        for _ in range((bits + 63) // 64):
            v = (v << 64) | rng.next()
        v &= (1 << bits) - 1
        return -v if rng.below(2) else v
    return -(P + 1 + rng.below(1 << 20)) if rng.below(2) else (rng.choice(BOUNDARY))


def centred(v):
    v %= P
    return v - P if v > (P - 1) // 2 else v


def s64(v):
    return v & M64


def make_cases(seed, n):
    rng = Rng(seed ^ 0xC15)
    cases = []

    def add(line, key, chk, tag=None):
        cases.append({"line": line, "key": key, "expect": chk, "tag": tag})
    for i in range(n):
        k = rng.below(12)
        if k < 3:
            x = gen_int(rng)
            radix = rng.choice([10, 10, 16, 2, 36, 2 + rng.below(35)])
            fn = "fromString" if rng.below(2) else "fromScalar"
            add("%s %x s:%s" % (fn, radix, to_radix(x, radix, rng)), fn,
                (lambda v, x=x: (len(v) == 1 and v[0] % P == x % P and v[0] < P, "residue %x" % (x % P))),
                "neg<-p" if x < -P else ("big" if abs(x) > (1 << 64) else ("neg" if x < 0 else None)))
            cases[-1]["int"] = x
        elif k == 3:
            x = rng.choice([0, 1, -1, (1 << 63) - 1, -(1 << 63), (P - 1) // 2, -(P - 1) // 2, -((P - 1) // 2) - 1, 1 << 62]) + rng.below(3) - 1 if rng.below(2) else rng.next() - (1 << 63)
            x = max(-(1 << 63), min((1 << 63) - 1, x))
            add("fromS64 %x" % s64(x), "fromS64", (lambda v, x=x: (len(v) == 1 and v[0] % P == x % P, "residue of %d" % x)),
                "neg" if x < 0 else None)
        elif k == 4:
            x = rng.choice([0, 1, -1, (1 << 31) - 1, -(1 << 31), -(1 << 31) + 1, 1 << 30]) if rng.below(2) else (rng.next() & 0xFFFFFFFF) - (1 << 31)
            add("fromS32 %x" % (x & 0xFFFFFFFF), "fromS32", (lambda v, x=x: (len(v) == 1 and v[0] % P == x % P, "residue of %d" % x)),
                "neg" if x < 0 else None)
        elif k == 5:
            a = gen_word(rng)
            add("toS64 %x" % a, "toS64", (lambda v, a=a: (len(v) == 1 and v[0] == s64(centred(a)), "centred %d" % centred(a))),
                "nc" if a >= P else None)
        elif k in (6, 7):
            c = rng.choice([0, 1, -1, (1 << 31) - 1, 1 << 31, -(1 << 31), -(1 << 31) - 1, -(1 << 31) + 1, (1 << 31) + 1]) if rng.below(3) else centred(gen_word(rng))
            a = c % P
            if rng.below(4) == 0 and a + P <= M64:
                a += P
            cc = centred(a)
            okk = -(1 << 31) <= cc < (1 << 31)
            add("toS32 %x" % a, "toS32", (lambda v, okk=okk, cc=cc: ((v == [1, s64(cc)]) if okk else (v == [0]), "ok=%s value %d" % (okk, cc))),
                "edge" if abs(abs(cc) - (1 << 31)) <= 1 else None)
        elif k == 8:
            a = gen_word(rng)
            radix = rng.choice([10, 16, 2, 36, 2 + rng.below(35)])
            exp = to_radix(a % P, radix, Rng(0)).lower() if True else ""
            cases.append({"line": "toString %x %x" % (a, radix), "key": "toString", "expect": None, "tag": None, "expect_str": "ok s:" + to_radix(a % P, radix, Rng(1 << 62)).lower()})
        elif k == 9:   # round trips through the generated/hand ops are checked by the theorems; execute int -> field -> int here
            x = rng.choice([-(1 << 31), (1 << 31) - 1, 0, -1, 5, -77]) if rng.below(2) else (rng.next() & 0xFFFFFFFF) - (1 << 31)
            add("rt32 %x" % (x & 0xFFFFFFFF), "rt32", (lambda v, x=x: (v == [1, s64(x)], "round trip of %d" % x)), "edge" if x == -(1 << 31) else None)
        elif k == 10:
            a, b = gen_word(rng), gen_word(rng)
            if rng.below(2):
                b = (a % P) + (P if (a % P) + P <= M64 and rng.below(2) else 0)
            add("equal %x %x" % (a, b), "equal", (lambda v, a=a, b=b: (v == [1 if a % P == b % P else 0], "equal iff same residue")),
                "same-class" if a % P == b % P and a != b else None)
        else:
            a = rng.choice([0, P, 1, P + 1, P - 1, 2 * P - 1 if 2 * P - 1 <= M64 else P - 1, gen_word(rng)])
            fn = rng.choice(["isZero", "isOne", "isNegone"])
            tgt = {"isZero": 0, "isOne": 1, "isNegone": P - 1}[fn]
            add("%s %x" % (fn, a), fn, (lambda v, a=a, tgt=tgt: (v == [1 if a % P == tgt else 0], "predicate on the residue class")),
                "nc" if a >= P else None)
    return cases


GEN_PREFIX = "g_"      # wire names of the ConvGen entries (tools/modules.py: dispatch_prefix)
BAD_NUMERALS = [(10, "12a"), (10, ""), (10, "-"), (10, "1-2"), (10, "--5"), (2, "102"), (16, "fg"), (36, "a_b"), (8, "78"),
                (10, "0x10"), (10, "5."), (35, "z")]


def generated_cases(cases, names, seed):
    """the requests of the hand-modelled conversions addressed to the TRANSLATED functions of Gen/ConvGen.lean (every
    overload): implementation vs generated model vs specification on the same inputs.  `result` reference parameters
    that the C++ reads or may leave untouched (toS64, toS32) are inputs of the generated function: a random previous
    value is passed and must come back unchanged when toS32 fails."""
    rng = Rng(seed ^ 0x6C15)
    out = []

    def emit(c, nm, toks, expect=None, expect_str=None, **kw):
        g = {"line": "%s%s %s" % (GEN_PREFIX, nm, " ".join(toks)), "key": c["key"] + "/generated:" + nm, "tag": c.get("tag"),
             "expect": expect if expect is not None else c.get("expect")}
        if expect_str is not None:
            g["expect_str"] = expect_str
        g.update(kw)
        out.append(g)
    for c in cases:
        toks = c["line"].split()
        op = toks[0]
        for nm in names:
            if op in ("fromS64", "fromS32") and nm.startswith(op + "__"):
                emit(c, nm, toks[1:])
            elif op == "fromString" and nm.startswith("fromString__"):
                emit(c, nm, [toks[2], toks[1]])                       # (in1, radix)
            elif op == "fromScalar" and nm.startswith("fromScalar__") and "int" in c:
                x = c["int"]
                emit(c, nm, ["s:%s%x" % ("-" if x < 0 else "", abs(x))])       # the mpz_class argument itself
            elif op == "toS64" and nm == "toS64__rE":
                emit(c, nm, toks[1:])
            elif op == "toS64" and nm.startswith("toS64__") and nm != "toS64__rE":
                emit(c, nm, [hx(rng.next()), toks[1]])                  # (result before the call, in1)
            elif op == "toS32" and nm == "toS32":
                r0 = rng.next() & 0xFFFFFFFF
                r0s = r0 - (1 << 32) if r0 >> 31 else r0
                e0 = c["expect"]
                emit(c, nm, [hx(r0), toks[1]],
                     expect=(lambda v, e0=e0, r0s=r0s: ((e0([1, v[1]]) if (len(v) == 2 and v[0] == 1) else
                                                        ((e0([0])[0] and v == [0, s64(r0s)]), e0([0])[1] + "; result untouched on failure"))
                                                       if len(v) == 2 else (False, "flag and value"))))
            elif op == "toString" and nm.startswith("toString__"):
                emit(c, nm, toks[1:], expect_str=c["expect_str"])
    # numerals the parser refuses: the C++ constructor throws std::invalid_argument (nobody catches it: SIGABRT in the
    # forked child), the generated function returns `none`
    for nm in names:
        if nm.startswith("fromString__"):
            for radix, txt in BAD_NUMERALS:
                out.append({"line": "!%s%s s:%s %x" % (GEN_PREFIX, nm, txt, radix), "key": "fromString-refusal/generated:" + nm,
                            "tag": "refused", "expect": None, "refusal": True})
    return out


def campaign(res, harness, driver, cases, flavour):
    lines = [c["line"] for c in cases]
    impl = run_parallel(harness, lines)
    model = run_parallel(driver, lines)
    for c, ri, rm in zip(cases, impl, model):
        res.note_case(c["line"], c.get("tag"))
        if c.get("refusal"):
            # process ended on both sides: uncaught exception (abort) vs `none`
            if ri == "err signal 6" and rm == "err exit 255":
                res.traces += 1
            else:
                res.broken.append(("correspondence %s: implementation != generated model" % c["key"],
                                   "line: %s\nimpl : %s (expected err signal 6 = uncaught std::invalid_argument)\nmodel: %s "
                                   "(expected err exit 255 = none)" % (c["line"][:500], (ri or "")[:300], (rm or "")[:300])))
            continue
        if "expect_str" in c:
            if ri != c["expect_str"]:
                res.failures.append({"key": c["key"], "lines": [c["line"]], "expected": c["expect_str"], "observed": ri,
                                     "note": "implementation (%s) vs canonical numeral" % flavour})
        elif c["expect"] is not None:
            v = parse_reply(ri)
            ok, exp = (False, "a value") if v is None else c["expect"](v)
            if not ok:
                res.failures.append({"key": c["key"], "lines": [c["line"]], "expected": exp, "observed": ri,
                                     "note": "implementation (%s build) vs specification" % flavour})
        if ri != rm:
            res.broken.append(("correspondence %s: implementation != model" % c["key"],
                               "line: %s\nimpl : %s\nmodel: %s" % (c["line"][:500], (ri or "")[:300], (rm or "")[:300])))
        else:
            res.traces += 1
    res.samples.extend({"line": l[:200], "impl": i, "model": m} for l, i, m in list(zip(lines, impl, model))[:6])
    dedup_broken(res)


def run(tier, seed):
    res = Result(PID, tier, seed)
    res.rule = ("integers around 0, ±p, ±2p, ±3p, ±2^31, ±2^63, ±2^64, ±2^128 and up to 400 bits, both signs, written in radix "
                "2..36 with mixed-case digits, as strings and as mpz; every type boundary of int32/int64; outward conversions "
                "on boundary words incl. non-canonical ones; predicates on both members of a residue class; "
                "non-trivial = negative / below -p / beyond 2^64 / non-canonical / type-boundary case")
    res.assumptions = ["GMP is modelled, not verified: `%` on mpz_class = truncated remainder, get_ui = low 64 bits of |x|, "
                       "numeral parsing = the integer the numeral denotes (only well-formed numerals are generated for the "
                       "hand model; a dozen refused numerals for the generated fromString)",
                       "C15_generated_*: about Gen/ConvGen.lean, translated from goldilocks_base_field_tools.hpp on every run "
                       "(mpz_class arithmetic -> Int, get_ui/get_si stated in Model/TrMpz.lean); GMP's numeral parser and "
                       "printer stay modelled (externs Mpz.ofString = Model.parseInt, Mpz.getStr = Model.toDigitsR); the "
                       "generated functions are executed against the code as well"]
    st = run_gen()
    standard_proof_phase(res, MODULE, "C15_", st, ["Scalar", "ConvGen"], thorough=(tier == "thorough"))
    gen_names = [nm for nm in (st.get("modules", {}).get("ConvGen", {}) or {}).get("names", []) if "_loop" not in nm]
    drv, err = build_driver()
    if err:
        res.broken.append(("model driver build", err))
        drv = NO_MODEL
    n = 6000 if tier == "quick" else 400000
    for fl in (["O1"] if tier == "quick" else ["O1", "O3", "asan"]):
        h, err = build_harness(fl)
        if err:
            res.broken.append(("harness build (%s)" % fl, err))
            continue
        if drv:
            cases = make_cases(seed + len(fl), n if fl != "asan" else n // 10)
            campaign(res, h, drv, cases + generated_cases(cases[:max(2000, len(cases) // 4)], gen_names, seed), fl)
    return res.finish()
