"""C08 — Merkle tree buffer and root. proof: Props/C08.lean over Model/Sponge.lean (generic leaf/node hash);
tie: correspondence with merkletree_{seq,avx,avx512}, the batch variants and the default wrappers."""
from common import *
from props.pos_common import *

PID = "C08"
MODULE = "GoldilocksVerif.Props.C08"


def make_cases(seed, tier):
    rng = Rng(seed ^ 0xC08)
    cases = []
    rows_l = [1, 2, 4, 8] if tier == "quick" else [1, 2, 4, 8, 16, 32]
    cols_l = [0, 1, 4, 5, 9] if tier == "quick" else list(range(0, 10)) + [12, 16, 17, 33]
    for rows in rows_l:
        for cols in cols_l:
            for dim in (1, 3):
                if rows * cols * dim > (900 if tier == "quick" else 1600):
                    continue      # the Lean model executes every permutation: keep the thorough tier within ~15 minutes
                inp = [gen_word(rng) for _ in range(rows * cols * dim)]
                rws = [inp[i * cols * dim:(i + 1) * cols * dim] for i in range(rows)]
                thr = rng.choice([1, 2, 3, 16, 0])
                tree = merkle([sponge(r) for r in rws])
                for v in (0, 1, 2, 3):
                    cases.append({"line": "!mt %x %x %x %x %x [ %s ]" % (v, rows, cols, dim, thr, " ".join(hx(x) for x in inp)),
                                  "key": "merkletree/%d" % v, "tag": "rows=%d" % rows,
                                  "expect": (lambda o, t=tree: (canon(o) == t and len(o) == len(t), "reference tree of %d elements" % len(t)))})
                for batch in sorted(set([1, 2, 3, 4, 7, max(cols, 1), cols + 1])):
                    if rng.below(4 if tier == "quick" else 2) != 0:
                        continue
                    btree = merkle([batch_leaf(r, cols, dim, batch) for r in rws])
                    for v in (0, 1, 2, 3):
                        cases.append({"line": "!mtb %x %x %x %x %x %x [ %s ]" % (v, rows, cols, dim, batch, thr, " ".join(hx(x) for x in inp)),
                                      "key": "merkletree_batch/%d" % v, "tag": "rows=%d,batch" % rows,
                                      "expect": (lambda o, t=btree: (canon(o) == t and len(o) == len(t), "reference batched tree"))})
    for n in (1, 2, 4, 8, 1 << 20):
        cases.append({"line": "treesize %x" % n, "key": "getTreeNumElements", "tag": None,
                      "expect": (lambda o, n=n: (o == [4 * (2 * n - 1)], "4*(2n-1)"))})
    return cases


MT_GEN = {0: "Pos_merkletree_seq", 1: "Pos_merkletree_avx", 2: "Pos_merkletree_avx512", 3: "Pos_merkletree"}
MTB_GEN = {0: "Pos_merkletree_batch_seq", 1: "Pos_merkletree_batch_avx", 2: "Pos_merkletree_batch_avx512", 3: "Pos_merkletree_batch"}


def generated_cases(cases, every=1):
    """the requests of the hand-modelled builders addressed to the TRANSLATED builders (module MerkleGen): the tree buffer is
    passed as a region of exactly getTreeNumElements(rows) sentinel words and returned whole"""
    out = []
    for idx, c in enumerate(cases):
        toks = c["line"].lstrip("!").split()
        if toks[0] not in ("mt", "mtb") or idx % every:
            continue
        v, rows, cols, dim = int(toks[1], 16), int(toks[2], 16), int(toks[3], 16), int(toks[4], 16)
        tn = 4 * (2 * rows - 1) if rows else 0
        tree = "[ %s ]" % " ".join(["a5a5"] * tn)
        if toks[0] == "mt":
            thr, inp = toks[5], " ".join(toks[6:])
            line = "!%s %s %s %x %x %s %x" % (MT_GEN[v], tree, inp, cols, rows, thr, dim)
        else:
            batch, thr, inp = toks[5], toks[6], " ".join(toks[7:])
            line = "!%s %s %s %x %x %s %s %x" % (MTB_GEN[v], tree, inp, cols, rows, batch, thr, dim)
        g = dict(c)
        g["line"] = line
        g["key"] = c["key"] + "/generated"
        out.append(g)
    return out


def campaign(res, harness, driver, cases, flavour):
    lines = [c["line"] for c in cases]
    impl = run_parallel(harness, lines, timeout=900)
    model = run_parallel(driver, [l.lstrip("!") for l in lines], timeout=900)
    for c, ri, rm in zip(cases, impl, model):
        res.note_case(c["line"][:200], c.get("tag"))
        v = parse_reply(ri)
        ok, exp = (False, "a tree buffer (no crash, no redzone damage)") if v is None else c["expect"](v)
        if not ok:
            res.failures.append({"key": c["key"] + ("" if v is not None else ":" + " ".join((ri or "").split()[:4])),
                                 "lines": [c["line"][:6000]], "expected": exp, "observed": (ri or "")[:600],
                                 "note": "implementation (%s build) vs reference tree" % flavour})
        if ri != rm:
            res.broken.append(("correspondence %s: implementation != model" % c["key"],
                               "line: %s\nimpl : %s\nmodel: %s" % (c["line"][:300], (ri or "")[:300], (rm or "")[:300])))
        else:
            res.traces += 1
    res.samples.extend({"line": l[:160], "impl": (i or "")[:100], "model": (m or "")[:100]} for l, i, m in list(zip(lines, impl, model))[:5])
    dedup_broken(res)


def run(tier, seed):
    res = Result(PID, tier, seed)
    res.rule = ("shape grid rows in {1,2,4,8,16(,32,64)} x cols in {0..17} x dim in {1,3} x batch in {1,2,3,4,7,cols,cols+1} x "
                "backend in {seq, avx, avx512, default wrapper} x threads in {0,1,2,3,16}; every element of the tree buffer is "
                "compared, buffers are exact-size with redzones, each call runs in a forked child; distinct = distinct shape")
    res.assumptions = ["rows a power of two (as the property states); hand model tied to the code by execution on the listed shapes — and ALSO by bridge theorems: the functions are regenerated from the source on every run and proved equal to the hand model (C08_generated_*), so the theorems hold for the current text, not only on the executed cases",
                       "the six builders and the two default wrappers are also TRANSLATED from the C++ on every run (Gen/MerkleGen.lean: "
                       "OpenMP loops sequentially, while loop fuel-bounded, floor() on doubles holding integers) and executed against "
                       "the code on the same grid",
                       "C08_generated_merkletree_seq / C08_generated_merkletree_avx_is_tree: for rows = 2^k (k <= 48), rows*cols*dim < 2^64 "
                       "and fuel > rows, cols*dim the translated builder returns Model.merkleTree (leaf = sponge over the translated "
                       "permutation, node = translated hash) in the first 4(2 rows - 1) words and writes nothing else",
                       "C08_generated_merkletree_batch_seq / _batch_avx: the same with leaf = Model.batchLeaf (batch_size >= 1, "
                       "cols + batch_size < 2^62, fuel > 4(cols+1)); C08_generated_merkletree_avx512 / _batch_avx512 / _default / "
                       "_batch_default (the wrappers call the AVX512 builders in this build): the leaf level is the pair digests "
                       "linearHash512 perm512List (row_2m ++ row_2m+1) (rows = 1: the one-state digest), then the same pairwise levels; "
                       "that the pair digests are the two one-row sponges (i.e. Model.merkleTree) is proved under the bit-for-bit "
                       "interleaving hypothesis on the translated two-state permutation only (C06 has it at field level): *_is_tree"]
    st = run_gen()
    standard_proof_phase(res, MODULE, "C08_", st, ["PosScalar", "PosAvx2", "PosAvx512", "LinearHashGen", "MerkleGen"], thorough=(tier == "thorough"))
    drv, err = build_driver()
    if err:
        res.broken.append(("model driver build", err))
        drv = NO_MODEL
    for fl in (["O1"] if tier == "quick" else ["O1", "asan"]):
        h, err = build_harness(fl)
        if err:
            res.broken.append(("harness build (%s)" % fl, err))
            continue
        if drv:
            cases = make_cases(seed + len(fl), tier)
            campaign(res, h, drv, cases + generated_cases(cases, every=(2 if tier == "quick" else 1)), fl)
    # the tree must not depend on how many members the OpenMP runtime GRANTS (nested region, thread limit) nor on their
    # order: the same grid, 5 threads requested, on the stand-in runtime of the C12 check granting 1, 2 or all, permuted
    hs, err = build_harness("ompseq")
    if err:
        res.broken.append(("harness build (ompseq)", err))
    elif drv:
        rng = Rng(seed ^ 0xC08AA)
        cases = []
        for c in make_cases(seed + 77, "quick"):
            toks = c["line"].lstrip("!").split()
            if toks[0] == "mt":
                toks[5] = "5"
            elif toks[0] == "mtb":
                toks[6] = "5"
            else:
                continue
            if rng.below(3):
                continue
            cc = dict(c)
            cap = rng.choice([1, 2, 0])
            cc["line"] = "@0:8:%x:%d %s" % (rng.below(1 << 30), cap, " ".join(toks))
            cc["tag"] = (c.get("tag") or "") + "|granted<=%s" % (cap or "all")
            cases.append(cc)
        campaign(res, hs, drv, cases, "ompseq")
    return res.finish()
