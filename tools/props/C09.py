"""C09 — scalar cubic extension F_p[x]/(x^3-x-1). proof: Props/C09.lean over Gen/Ext.lean (translated, incl. the aliased
call patterns) and the hand models of inv/div/mulScalar/batchInverse (Model/Ext.lean); tie: regeneration + correspondence."""
from common import *

PID = "C09"
MODULE = "GoldilocksVerif.Props.C09"


def kmul(a, b):
    a0, a1, a2 = a
    b0, b1, b2 = b
    t3 = a1 * b2 + a2 * b1
    t4 = a2 * b2
    return ((a0 * b0 + t3) % P, (a0 * b1 + a1 * b0 + t3 + t4) % P, (a0 * b2 + a1 * b1 + a2 * b0 + t4) % P)


def kadd(a, b):
    return tuple((x + y) % P for x, y in zip(a, b))


def ksub(a, b):
    return tuple((x - y) % P for x, y in zip(a, b))


def canon(v):
    return tuple(x % P for x in v)


def gen_e3(rng):
    k = rng.below(8)
    if k == 0:
        return (rng.choice([0, P]), rng.choice([0, P]), gen_word(rng))
    if k == 1:
        return (rng.choice([1, P + 1]), rng.choice([0, P]), rng.choice([0, P]))
    if k == 2:
        return (1, gen_word(rng), gen_word(rng))
    if k in (3, 4):
        # coefficients tied by small linear relations (a1 = -a2, a0 = a1, a0 + a1 + a2 = 0, ...): reaches special-case
        # branches guarded by a relation between coefficients, which independent random coefficients never satisfy
        u, v = gen_word(rng) % P, gen_word(rng) % P
        pool = [0, 1, P - 1, u, (P - u) % P, v, (P - v) % P, (u + v) % P, (P - (u + v) % P) % P, (u + 1) % P, (2 * u) % P]
        e = [rng.choice(pool) for _ in range(3)]
        if rng.below(2):
            j = rng.below(3)
            e[(j + 1) % 3] = (P - e[j]) % P
        # any representation
        return tuple(x + P if (x < (1 << 64) - P and rng.below(4) == 0) else x for x in e)
    return (gen_word(rng), gen_word(rng), gen_word(rng))


def w3(e):
    return " ".join(hx(x) for x in e)


def make_cases(seed, n, names):
    rng = Rng(seed ^ 0xC09)
    cases = []

    def add(line, key, chk, tag=None):
        cases.append({"line": line, "key": key, "expect": chk, "tag": tag})

    def reg(e):
        return "[ %s ]" % w3(e)
    eq3 = lambda exp: (lambda v: (len(v) >= 3 and canon(v[:3]) == canon(exp), "coefficients %s" % [hex(x) for x in canon(exp)]))
    bin_ops = {"add": kadd, "sub": ksub, "mul": kmul}
    for i in range(n):
        a, b = gen_e3(rng), gen_e3(rng)
        s = gen_word(rng)
        k = rng.below(16)
        nc = "nc" if any(x >= P for x in a + b) else None
        dead = reg((0xDEAD, 0xDEAD, 0xDEAD))
        if k == 0:
            add("G3_add__a3A3A3 %s %s %s" % (dead, reg(a), reg(b)), "add", eq3(kadd(a, b)), nc)
        elif k == 1:
            add("G3_sub__a3a3a3 %s %s %s" % (dead, reg(a), reg(b)), "sub", eq3(ksub(a, b)), nc)
        elif k == 2:
            add("G3_mul__a3a3a3 %s %s %s" % (dead, reg(a), reg(b)), "mul", eq3(kmul(a, b)), nc)
        elif k == 3:
            add("G3_square %s %s" % (dead, reg(a)), "square", eq3(kmul(a, a)), nc)
            add("G3_neg %s %s" % (dead, reg(a)), "neg", eq3(ksub((0, 0, 0), a)), nc)
        elif k == 4:   # mixed with base element / integer
            add("G3_add__a3A3E %s %s %s" % (dead, reg(a), hx(s)), "add-base", eq3(kadd(a, (s, 0, 0))), nc)
            add("G3_add__a3EA3 %s %s %s" % (dead, hx(s), reg(a)), "add-base", eq3(kadd(a, (s, 0, 0))), nc)
            add("G3_add__a3A3U %s %s %s" % (dead, reg(a), hx(s)), "add-int", eq3(kadd(a, (s, 0, 0))), nc)
            add("G3_sub__a3a3E %s %s %s" % (dead, reg(a), hx(s)), "sub-base", eq3(ksub(a, (s, 0, 0))), nc)
            add("G3_sub__a3Ea3 %s %s %s" % (dead, hx(s), reg(a)), "sub-base", eq3(ksub((s, 0, 0), a)), nc)
            add("G3_sub__a3a3e %s %s %s" % (dead, reg(a), hx(s)), "sub-int", eq3(ksub(a, (s, 0, 0))), nc)
        elif k == 5:
            add("G3_mul__a3a3e %s %s %s" % (dead, reg(a), hx(s)), "mul-base", eq3(kmul(a, (s, 0, 0))), nc)
            add("G3_mul__a3Ea3 %s %s %s" % (dead, hx(s), reg(a)), "mul-base", eq3(kmul(a, (s, 0, 0))), nc)
            add("G3_mul__a3a3E %s %s %s" % (dead, reg(a), hx(s)), "mul-int", eq3(kmul(a, (s, 0, 0))), nc)
            add("G3_mul__ppp %s %s %s" % (dead, reg(a), reg(b)), "mul-ptr", eq3(kmul(a, b)), nc)
        elif k == 6:
            op = rng.choice(["add", "sub", "mul"])
            mode = rng.choice(["oa", "ob", "ab", "oab"])
            if mode in ("oa", "ob"):
                add("g3al_%s_%s %s %s" % (op, mode, w3(a), w3(b)), "alias-" + op, eq3(bin_ops[op](a, b)), "alias")
            else:
                add("g3al_%s_%s %s" % (op, mode, w3(a)), "alias-" + op, eq3(bin_ops[op](a, a)), "alias")
            add("g3al_neg_oa %s" % w3(a), "alias-neg", eq3(ksub((0, 0, 0), a)), "alias")
            add("g3al_square_oa %s" % w3(a), "alias-square", eq3(kmul(a, a)), "alias")
        elif k == 7:
            add("G3_isOne %s" % reg(a), "isOne", (lambda v, a=a: (v == [1 if canon(a) == (1, 0, 0) else 0], "isOne iff (1,0,0)")),
                "one-like" if a[0] % P == 1 else None)
        elif k in (8, 9):
            if canon(a) == (0, 0, 0):
                add("!g3inv %s" % w3(a), "inv-zero", None, "zero")
                cases[-1]["expect_err"] = "err exit 255"
            else:
                add("!g3inv %s" % w3(a), "inv", (lambda v, a=a: (len(v) == 3 and kmul(canon(v), canon(a)) == (1, 0, 0), "a * inv(a) = 1")), nc)
        elif k == 10:
            if s % P == 0:
                s = 5
            si = pow(s % P, P - 2, P)
            add("!g3div %s %s" % (w3(a), hx(s)), "div", eq3(kmul(a, (si, 0, 0))), nc)
        elif k == 11:
            x = rng.choice([0, 1, -1, P, -P, -P - 1, 1 << 64, -(1 << 70) - 3]) + rng.below(5) if rng.below(2) else rng.next() - (1 << 63)
            add("g3mulScalar %s s:%d" % (w3(a), x), "mulScalar", eq3(kmul(a, (x % P, 0, 0))), "neg" if x < 0 else None)
        else:
            ln = 1 + rng.below(rng.choice([3, 9, 66]))
            es = []
            while len(es) < ln:
                e = gen_e3(rng)
                if canon(e) != (0, 0, 0):
                    es.append(e)

            def chk(v, es=es):
                if len(v) != 3 * len(es):
                    return False, "3*size words"
                for j, e in enumerate(es):
                    if kmul(canon(v[3 * j:3 * j + 3]), canon(e)) != (1, 0, 0):
                        return False, "res[%d] * src[%d] = 1" % (j, j)
                return True, ""
            add("!g3batchinv [ %s ]" % " ".join(w3(e) for e in es), "batchInverse", chk, "len%d" % min(ln, 4))
    # long batches (a size-dependent path, e.g. a parallel split of the batch, only shows there): lengths that no small
    # thread count divides
    for ln in ([1025, 1543] if n <= 4000 else [1025, 1543, 2051, 4099, 1024]):
        es = []
        while len(es) < ln:
            e = gen_e3(rng)
            if canon(e) != (0, 0, 0):
                es.append(e)

        def chk(v, es=es):
            if len(v) != 3 * len(es):
                return False, "3*size words"
            for j, e in enumerate(es):
                if kmul(canon(v[3 * j:3 * j + 3]), canon(e)) != (1, 0, 0):
                    return False, "res[%d] * src[%d] = 1" % (j, j)
            return True, ""
        add("!g3batchinv [ %s ]" % " ".join(w3(e) for e in es), "batchInverse", chk, "len>=1024")
    return cases


def generated_cases(cases):
    """the requests of the hand-modelled inv / div / batchInverse addressed to the TRANSLATED functions (module ExtInvGen)"""
    out = []
    dead = "[ dead dead dead ]"
    for c in cases:
        toks = c["line"].lstrip("!").split()
        lines = []
        if toks[0] == "g3inv":
            lines = ["!G3_inv___a3a3 %s [ %s ]" % (dead, " ".join(toks[1:4])), "!G3_inv___pp %s [ %s ]" % (dead, " ".join(toks[1:4]))]
        elif toks[0] == "g3div":
            lines = ["!G3_div %s [ %s ] %s" % (dead, " ".join(toks[1:4]), toks[4])]
        elif toks[0] == "g3batchinv":
            ws = toks[2:-1]
            lines = ["!G3_batchInverse [ %s ] [ %s ] %x" % (" ".join(["a5a5"] * len(ws)), " ".join(ws), len(ws) // 3)]
        for l in lines:
            g = dict(c)
            g["line"] = l
            g["key"] = c["key"] + "/generated:" + l.split()[0].lstrip("!")
            out.append(g)
    return out


def campaign(res, harness, driver, cases, flavour):
    lines = [c["line"] for c in cases]
    impl = run_parallel(harness, lines)
    model = run_parallel(driver, [l.lstrip("!") for l in lines])
    for c, ri, rm in zip(cases, impl, model):
        res.note_case(c["line"], c.get("tag"))
        if "expect_err" in c:
            if ri != c["expect_err"]:
                res.failures.append({"key": c["key"], "lines": [c["line"]], "expected": c["expect_err"], "observed": ri,
                                     "note": "refusal on zero (%s build)" % flavour})
        elif c["expect"] is not None:
            v = parse_reply(ri)
            ok, exp = (False, "a value") if v is None else c["expect"](v)
            if not ok:
                res.failures.append({"key": c["key"], "lines": [c["line"][:3000]], "expected": exp, "observed": (ri or "")[:1500],
                                     "note": "implementation (%s build) vs schoolbook arithmetic mod x^3-x-1" % flavour})
        if ri != rm:
            res.broken.append(("correspondence %s: implementation != model" % c["key"],
                               "line: %s\nimpl : %s\nmodel: %s" % (c["line"][:1000], (ri or "")[:500], (rm or "")[:500])))
        else:
            res.traces += 1
    res.samples.extend({"line": l[:200], "impl": (i or "")[:120], "model": (m or "")[:120]} for l, i, m in list(zip(lines, impl, model))[:6])
    dedup_broken(res)


def run(tier, seed):
    res = Result(PID, tier, seed)
    res.rule = ("coefficient triples over boundary words incl. non-canonical representations of 0 and 1; every overload of "
                "add/sub/mul/neg/square (extension, base element, integer, pointer forms), all aliasing patterns, isOne on "
                "one-like elements (1,x,y), inv/div in a forked child (zero refused), mulScalar with negative / huge decimal "
                "strings, batchInverse for lengths 1..66; non-trivial = non-canonical coefficient, aliasing, zero, or length>1")
    res.assumptions = ["hand models of inv/div/mulScalar/batchInverse (Model/Ext.lean) are tied to the code by execution on the listed cases — and ALSO by bridge theorems: the functions are regenerated from the source on every run and proved equal to the hand model (C09_generated_*), so the theorems hold for the current text, not only on the executed cases",
                       "spec = schoolbook polynomial arithmetic over integers reduced mod p and x^3 = x + 1",
                       "C09_generated_*: about Gen/ExtInvGen.lean (inv, div, batchInverse translated from the C++ on every run, "
                       "fuel-bounded); the generated functions are executed against the code as well"]
    st = run_gen()
    standard_proof_phase(res, MODULE, "C09_", st, ["Scalar", "Ext", "InvGen", "ExtInvGen", "ConvGen", "ExtScalarGen"], thorough=(tier == "thorough"))
    drv, err = build_driver()
    if err:
        res.broken.append(("model driver build", err))
        drv = NO_MODEL
    names = (st.get("modules", {}).get("Ext", {}) or {}).get("names", []) + (st.get("modules", {}).get("Ext", {}) or {}).get("untranslated", [])
    n = 2500 if tier == "quick" else 150000
    for fl in (["O1"] if tier == "quick" else ["O1", "O3", "asan"]):
        h, err = build_harness(fl)
        if err:
            res.broken.append(("harness build (%s)" % fl, err))
            continue
        if drv:
            cases = make_cases(seed + len(fl), n if fl != "asan" else n // 10, names)
            campaign(res, h, drv, cases + generated_cases(cases), fl)
    return res.finish()
