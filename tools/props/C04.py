"""C04 — INTT is the exact inverse transform in every configuration (same machinery as C03, inverse calls + round trips)."""
from common import *
import props.ntt_common as nc
import props.C03 as C03

PID = "C04"
MODULE = "GoldilocksVerif.Props.C04"


def roundtrip_cases(seed, tier):
    rng = Rng(seed ^ 0x404)
    cases = []
    for _ in range(60 if tier == "quick" else 1500):
        s = rng.below(6)
        d = rng.below(s + 1)
        n = 1 << d
        ncols = rng.choice([1, 2, 3])
        data = nc.gen_data(rng, n * ncols)
        first = rng.below(2)
        p1, p2 = rng.below(d + 3), rng.below(d + 3)
        b1, b2 = rng.below(ncols + 2), rng.below(ncols + 2)
        # two calls in place on the same data: x -> T(x) -> T^-1(T(x)) ; the second call's input is the first's output
        mid = nc.expected_call(first, n, 0, ncols, 0, data)
        calls = [(first, n, 0, ncols, p1, b1, rng.below(2), 0, data), (1 - first, n, 0, ncols, p2, b2, rng.below(2), 0, mid)]
        # the harness feeds `mid` (canonical) to the second call; the reference of the second call is x canonicalised
        cases.append({"line": nc.seq_line(1 << s, rng.choice([1, 2, 3, 16]), calls), "key": "roundtrip", "calls": calls,
                      "tag": "rt:s=%d,d=%d,%s" % (s, d, "NTT-INTT" if first == 0 else "INTT-NTT")})
    return cases


def run(tier, seed):
    res = C03.run_generic(PID, MODULE, "C04_", [1], tier, seed, "inverse transform")
    drv, derr = build_driver()
    if derr:
        res.broken.append(("model driver build", derr))
        drv = NO_MODEL
    h, _ = build_harness("O1")
    if drv and h:
        nc.run_cases(res, h, drv, roundtrip_cases(seed, tier), "O1")
    return res.finish()
