"""C13 — AVX2 12-wide dot / sparse / dense kernels. proof: Props/C13.lean over Gen/Avx2Mat.lean."""
from common import *

PID = "C13"
MODULE = "GoldilocksVerif.Props.C13"
W = 4
GENMOD = "Avx2Mat"
PREFIX = "C13_"


def state_of(regs):
    """(a0,a1,a2) registers -> the 12-element state a[4j+k] = a_j[k]"""
    return [regs[j][k] for j in range(3) for k in range(W)]


def dot(state, M, off):
    return sum(state[m] * M[off + m] for m in range(12)) % P


def kernel_table(suffix_avx="avx"):
    """name -> (matrix length, is8bit, checker(state, M, out words) -> bool)"""
    T = {}
    for var, is8 in (("", False), ("_a", False), ("_8", True)):
        T["spmv_%s_4x12%s" % (suffix_avx, var)] = (12, is8, lambda st, M, o: all(
            o[i] % P == (st[i] * M[i] + st[4 + i] * M[4 + i] + st[8 + i] * M[8 + i]) % P for i in range(4)))
        T["mmult_%s_4x12%s" % (suffix_avx, var)] = (48, is8, lambda st, M, o: all(
            o[i] % P == dot(st, M, 12 * i) for i in range(4)))
        T["mmult_%s%s" % (suffix_avx, var)] = (144, is8, lambda st, M, o: all(
            o[4 * r + i] % P == dot(st, M, 48 * r + 12 * i) for r in range(3) for i in range(4)))
    for var in ("", "_a"):
        T["dot_%s%s" % (suffix_avx, var)] = (12, False, lambda st, M, o: o[0] % P == dot(st, M, 0))
    return T


def gen_state_word(rng):
    k = rng.below(6)
    if k == 0:
        return 0x5555555555555555       # 3 * this = 2^64 - 1: products land in [p, 2^64)
    if k == 1:
        return P + rng.below(0xFFFFFFFF)
    return gen_word(rng)


def gen_coeff(rng, is8):
    if is8:
        return rng.choice([0, 1, 2, 3, 127, 128, 254, 255, rng.below(256)])
    k = rng.below(5)
    if k == 0:
        return 3
    return gen_word(rng)


def directed_sum(rng, regs, M, mlen, halves):
    """horizontal-sum family: coefficient 1 on the first block of every 12-coefficient row and 0 elsewhere makes every row sum
    the plain sum a0[0]+a0[1]+a0[2]+a0[3] of four chosen lane values; those are set so that the sum lands within 2^33 of a
    multiple of 2^64 (from below or above): reaches lost carries of lazy / 128-bit accumulations (~2^-30 for random data)"""
    for r in range(mlen // 12):
        for m in range(12):
            M[12 * r + m] = 1 if m < 4 else 0
    for h in range(halves):
        v = [rng.choice([P - 1, M64, P, P + 1, M64 - 0xFFFFFFFF, gen_word(rng), gen_word(rng)]) for _ in range(3)]
        k = rng.choice([1, 2, 3])
        delta = rng.choice([0, 1, 2, 0xFFFFFFFE, 0xFFFFFFFF, 0x100000000, rng.below(1 << 33)])
        t = k * (1 << 64) - delta if rng.below(4) else k * (1 << 64) + delta
        v3 = (t - sum(v)) & M64
        for i in range(3):
            regs[0][4 * h + i] = v[i]
        regs[0][4 * h + 3] = v3


def make_cases(seed, n, names, T):
    rng = Rng(seed ^ 0xC13)
    cases = []
    for name in names:
        if name not in T:
            continue
        mlen, is8, chk = T[name]
        for _ in range(n):
            regs = [[gen_state_word(rng) for _ in range(W)] for _ in range(3)]
            M = [gen_coeff(rng, is8) for _ in range(mlen)]
            if mlen % 12 == 0 and rng.below(5) == 0:
                directed_sum(rng, regs, M, mlen, 1)
            elif not is8 and rng.below(6) == 0:
                # "short coefficient" family: every coefficient of the array in one narrow class (all < 2^8, all < 2^16, all in
                # [2^31, 2^32), all < 2^32) with large state words: a fast path keyed on the size of the coefficients (e.g. a
                # lazily reduced kernel that is only exact for small ones) shows here and never for random 64-bit coefficients
                lo, hi = rng.choice([(0, 1 << 8), (0, 1 << 16), (1 << 31, 1 << 32), (0, 1 << 32), ((1 << 32) - 16, 1 << 32)])
                M = [lo + rng.below(hi - lo) for _ in range(mlen)]
                if rng.below(2):
                    regs = [[M64 - rng.below(1 << 20) if rng.below(4) else gen_state_word(rng) for _ in range(W)] for _ in range(3)]
            line = "%s %s [ %s ]" % (name, " ".join(hx(v) for r in regs for v in r), " ".join(hx(v) for v in M))

            def expect(vals, regs=regs, M=M, chk=chk):
                st = state_of(regs)
                try:
                    ok = chk(st, M, vals)
                except IndexError:
                    ok = False
                return ok, "integer matrix-vector product reduced mod p"
            band = sum(1 for j in range(3) for k in range(W) if (regs[j][k] * M[(4 * j + k) % mlen]) % (1 << 64) >= P)
            cases.append({"line": line, "key": name, "expect": expect, "tag": ("band%d" % min(band, 3) if band else None)})
    return cases


def run(tier, seed):
    res = Result(PID, tier, seed)
    res.rule = ("random/boundary states in three registers x coefficient arrays (8-bit variants: entries < 256); states include "
                "0x5555555555555555 with coefficient 3 so that several addends of one lane are in [p,2^64); non-trivial = at "
                "least one lane product whose low 64 bits are in the non-canonical band")
    res.assumptions = ["register operands are values in the model; the in-place call patterns f(x, x, b) / f(x, a, x) (output register object = an input register object) are exercised on the implementation side (variants __ra<o>_<k>), not proved",
                       "intrinsic semantics of Isa/Avx2.lean incl. permute2f128/unpack (executed against this CPU in this run)",
                       "aligned variants are given 64-byte aligned buffers by the harness"]
    st = run_gen()
    standard_proof_phase(res, MODULE, PREFIX, st, ["Scalar", "Avx2", GENMOD], thorough=(tier == "thorough"))
    drv, err = build_driver()
    if err:
        res.broken.append(("model driver build", err))
        drv = NO_MODEL
    names = (st.get("modules", {}).get(GENMOD, {}) or {}).get("names", []) + (st.get("modules", {}).get(GENMOD, {}) or {}).get("untranslated", [])
    T = kernel_table("avx")
    missing = [k for k in T if k not in names]
    if missing:
        res.broken.append(("kernels missing from the translated module", ", ".join(missing)))
    n = 400 if tier == "quick" else 20000
    for fl in (["O1"] if tier == "quick" else ["O1", "O3", "asan"]):
        h, err = build_harness(fl)
        if err:
            res.broken.append(("harness build (%s)" % fl, err))
            continue
        if drv:
            corr_campaign(res, h, drv, with_reg_alias(make_cases(seed + len(fl), n if fl != "asan" else n // 10, names, T), st), fl)
    return res.finish()
