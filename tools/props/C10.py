"""C10 — inverse, division, power. proof: Props/C10.lean over the hand model Model/Inv.lean (loops over the generated
scalar ops); tie: correspondence of the model with Goldilocks::inv/div/exp incl. the refusal on the zero class."""
from common import *

PID = "C10"
MODULE = "GoldilocksVerif.Props.C10"


def fib_like(rng):
    """operands maximising Euclid's step count: consecutive Fibonacci-like numbers below p"""
    a, b = 1 + rng.below(3), 1 + rng.below(5)
    while a + b < P:
        a, b = b, a + b
    return rng.choice([a, b, P - a, P - b])


def make_cases(seed, n):
    rng = Rng(seed ^ 0xC10)
    cases = []
    zeros = [0, P]
    for i in range(n):
        k = rng.below(10)
        if k == 0:
            a = rng.choice(zeros)
            cases.append({"line": "!inv %s" % hx(a), "key": "inv", "tag": "zero-class",
                          "expect": (lambda v: (False, "process ended (exit 255)"))})
            cases[-1]["expect_err"] = "err exit 255"
            continue
        if k == 1:
            a, b = gen_word(rng), rng.choice(zeros)
            cases.append({"line": "!div %s %s" % (hx(a), hx(b)), "key": "div", "tag": "zero-class", "expect": None})
            cases[-1]["expect_err"] = "err exit 255"
            continue
        if k in (2, 3, 4):
            a = fib_like(rng) if rng.below(3) == 0 else gen_word(rng)
            if a % P == 0:
                a = 7
            cases.append({"line": "!inv %s" % hx(a), "key": "inv", "tag": ("nc" if a >= P else None),
                          "expect": (lambda v, a=a: (len(v) == 1 and v[0] < P and (v[0] * a) % P == 1, "canonical inverse of %x" % a))})
            continue
        if k in (5, 6):
            a, b = gen_word(rng), gen_word(rng)
            if b % P == 0:
                b = P + 5
            cases.append({"line": "!div %s %s" % (hx(a), hx(b)), "key": "div", "tag": ("nc" if b >= P or a >= P else None),
                          "expect": (lambda v, a=a, b=b: (len(v) == 1 and (v[0] * b - a) % P == 0, "div*b == a"))})
            # the reference-parameter forms with the output aliasing an operand
            al = rng.choice(["div_oa", "div_ob", "div_oab", "inv_oa", "exp_oa"])
            if al in ("div_oa", "div_ob"):
                cases.append({"line": "!%s %s %s" % (al, hx(a), hx(b)), "key": al, "tag": "alias",
                              "expect": (lambda v, a=a, b=b: (len(v) == 1 and (v[0] * b - a) % P == 0, "div*b == a (aliased output)"))})
            elif al == "div_oab":
                cases.append({"line": "!div_oab %s" % hx(b), "key": al, "tag": "alias",
                              "expect": (lambda v: (len(v) == 1 and v[0] % P == 1, "x/x == 1 (all three aliased)"))})
            elif al == "inv_oa":
                cases.append({"line": "!inv_oa %s" % hx(b), "key": al, "tag": "alias",
                              "expect": (lambda v, b=b: (len(v) == 1 and (v[0] * b) % P == 1, "inv*b == 1 (aliased output)"))})
            else:
                e = rng.choice([0, 1, 2, 5, P - 1, gen_word(rng)])
                cases.append({"line": "exp_oa %s %s" % (hx(a), hx(e)), "key": al, "tag": "alias",
                              "expect": (lambda v, a=a, e=e: (len(v) == 1 and v[0] % P == pow(a % P, e, P), "b^e (aliased output)"))})
            continue
        b = gen_word(rng)
        e = rng.choice([0, 1, 2, 3, P - 2, P - 1, P, (1 << 64) - 1, 1 << 63, (1 << 32), gen_word(rng), rng.below(1 << 16)])
        cases.append({"line": "exp %s %s" % (hx(b), hx(e)), "key": "exp", "tag": ("e=%d" % e if e < 4 else ("nc" if b >= P else "big")),
                      "expect": (lambda v, b=b, e=e: (len(v) == 1 and v[0] % P == pow(b % P, e, P), "b^e mod p"))})
    return cases


def generated_cases(cases, names):
    """the same requests addressed to the TRANSLATED functions (module InvGen, tools/tr_cxx.py extended mode): every
    overload whose generated name starts with inv_/div_/exp_ gets the request of the hand-modelled operation, so the
    implementation is compared with the generated model (and, again, with the specification)"""
    out = []
    for c in cases:
        toks = c["line"].lstrip("!").split()
        for nm in names:
            if nm.startswith(toks[0] + "_") and "_al_" not in nm and "_loop" not in nm:
                g = dict(c)
                g["line"] = "!%s %s" % (nm, " ".join(toks[1:]))
                g["key"] = c["key"] + "/generated:" + nm
                out.append(g)
    return out


def campaign(res, harness, driver, cases, flavour):
    lines = [c["line"] for c in cases]
    impl = run_parallel(harness, lines)
    model = run_parallel(driver, [l.lstrip("!") for l in lines])
    for c, ri, rm in zip(cases, impl, model):
        res.note_case(c["line"], c.get("tag"))
        if "expect_err" in c:
            if ri != c["expect_err"]:
                res.failures.append({"key": c["key"] + "-zero", "lines": [c["line"]], "expected": c["expect_err"],
                                     "observed": ri, "note": "refusal on the zero class (%s build)" % flavour})
        elif c["expect"] is not None:
            v = parse_reply(ri)
            ok, exp = (False, "a value") if v is None else c["expect"](v)
            if not ok:
                res.failures.append({"key": c["key"], "lines": [c["line"]], "expected": exp, "observed": ri,
                                     "note": "implementation (%s build) vs specification" % flavour})
        if ri != rm:
            res.broken.append(("correspondence %s: implementation != hand model" % c["key"],
                               "line: %s\nimpl : %s\nmodel: %s" % (c["line"], ri, rm)))
        else:
            res.traces += 1
    res.samples.extend({"line": l, "impl": i, "model": m} for l, i, m in list(zip(lines, impl, model))[:6])
    dedup_broken(res)


def run(tier, seed):
    res = Result(PID, tier, seed)
    res.rule = ("inv/div on boundary words, both representations 0 and p of zero (forked child, exit status observed), "
                "Fibonacci-like operands (longest Euclid runs); exp with exponents 0,1,2,3,p-2,p-1,p,2^63,2^64-1 and random; "
                "non-trivial = non-canonical operand, zero class, or extreme exponent")
    res.assumptions = ["hand model Model/Inv.lean mirrors goldilocks_base_field.cpp:106-138 and _scalar.hpp:232-252; agreement "
                       "is established by execution on the listed cases and, for every input, by the bridge theorems C10_generated_* about the functions regenerated from the source on every run", "exit(-1) is modelled as `none`; the diagnostic text on "
                       "stderr is not compared",
                       "C10_generated_*: about Gen/InvGen.lean, regenerated from the C++ on every run (fuel-bounded loops; "
                       "the theorems hold for every fuel >= 129 resp. 64); the generated functions are executed against the "
                       "code as well (driver fuel 2^40)"]
    st = run_gen()
    standard_proof_phase(res, MODULE, "C10_", st, ["Scalar", "InvGen"], thorough=(tier == "thorough"))
    gen_names = (st.get("modules", {}).get("InvGen", {}) or {}).get("names", [])
    drv, err = build_driver()
    if err:
        res.broken.append(("model driver build", err))
        drv = NO_MODEL
    n = 3000 if tier == "quick" else 200000
    for fl in (["O1"] if tier == "quick" else ["O1", "O3"]):
        h, err = build_harness(fl)
        if err:
            res.broken.append(("harness build (%s)" % fl, err))
            continue
        if drv:
            cases = make_cases(seed + len(fl), n)
            campaign(res, h, drv, cases + generated_cases(cases[:max(600, n // 5)], gen_names), fl)
    # the refusal of the zero class must not depend on assertions being compiled in: a slice of the same requests
    # (zero class first) on a -DNDEBUG build
    h, err = build_harness("ndebug")
    if err:
        res.broken.append(("harness build (ndebug)", err))
    elif drv:
        cases = make_cases(seed + 77, 600)
        zero = [c for c in cases if "expect_err" in c]
        campaign(res, h, drv, zero + cases[:300], "ndebug")
    return res.finish()
