"""C07 — linear_hash is the rate-8 capacity-4 sponge. proof: Props/C07.lean over Model/Sponge.lean (generic permutation);
tie: correspondence of the model (instantiated with the translated permutations) with linear_hash_seq/linear_hash/_avx512."""
from common import *
from props.pos_common import *

PID = "C07"
MODULE = "GoldilocksVerif.Props.C07"


def make_cases(seed, lengths, guard=True):
    pre = "!^" if guard else ""   # forked child, input region ending at a PROT_NONE page: over-reads raise SIGSEGV
    rng = Rng(seed ^ 0xC07)
    cases = []
    for n in lengths:
        inp = [gen_word(rng) for _ in range(n)]
        inp2 = [gen_word(rng) for _ in range(n)]
        d1, d2 = sponge(inp), sponge(inp2)
        tag = "len%%8=%d%s" % (n % 8, "<=4" if n <= 4 else "")
        for fn in ("lh_seq", "lh_avx"):
            cases.append({"line": pre + "%s [ %s ]" % (fn, " ".join(hx(x) for x in inp)), "key": fn, "tag": tag,
                          "expect": (lambda v, d=d1: (canon(v) == d, "sponge digest"))})
        cases.append({"line": pre + "lh_avx512 %x [ %s ]" % (n, " ".join(hx(x) for x in inp + inp2)), "key": "lh_avx512", "tag": tag,
                      "expect": (lambda v, a=d1, b=d2: (canon(v) == a + b, "both sponge digests"))})
        # the same inputs through the TRANSLATED functions (module LinearHashGen): output region of exactly 4 (8) words with a
        # sentinel content, input region of exactly n (2n) words
        for fn in ("Pos_linear_hash_seq", "Pos_linear_hash"):
            cases.append({"line": pre + "%s [ a5 a5 a5 a5 ] [ %s ] %x" % (fn, " ".join(hx(x) for x in inp), n), "key": fn + "/generated",
                          "tag": tag, "expect": (lambda v, d=d1: (canon(v) == d, "sponge digest"))})
        cases.append({"line": pre + "Pos_linear_hash_avx512 [ a5 a5 a5 a5 a5 a5 a5 a5 ] [ %s ] %x" % (" ".join(hx(x) for x in inp + inp2), n),
                      "key": "Pos_linear_hash_avx512/generated", "tag": tag,
                      "expect": (lambda v, a=d1, b=d2: (canon(v) == a + b, "both sponge digests"))})
    return cases


def run(tier, seed):
    res = Result(PID, tier, seed)
    res.rule = ("every input length 0..40 and 63,64,65,127,128,129 (thorough: also 0..300 and 1000), boundary-valued elements; "
                "every call runs in a forked child with its input region ending at a PROT_NONE guard page (ASan build with exact-size "
                "heap blocks in the thorough tier) so that a read beyond the declared length is detected; distinct = distinct (length mod 8, <=4 pass-through, variant)")
    res.assumptions = ["hand model Model/Sponge.lean tied to the code by execution on the listed lengths and by the bridge theorems below; the theorem covers all lengths",
                       "C07_generated_*: about Gen/LinearHashGen.lean (linear_hash_seq, linear_hash, linear_hash_avx512 translated from the "
                       "C++ on every run, fuel-bounded while loop): for every fuel > size they return the digest(s) of the hand model "
                       "instantiated with the translated permutation (locality of the three translated permutations is proved); "
                       "that the two AVX512 digests are two sponges additionally needs C06's interleaving statement bit for bit"]
    st = run_gen()
    standard_proof_phase(res, MODULE, "C07_", st, ["PosScalar", "PosAvx2", "PosAvx512", "LinearHashGen"], thorough=(tier == "thorough"))
    drv, err = build_driver()
    if err:
        res.broken.append(("model driver build", err))
        drv = NO_MODEL
    lengths = list(range(0, 41)) + [63, 64, 65, 127, 128, 129]
    if tier == "thorough":
        lengths += list(range(41, 301)) + [1000]
    for fl in (["O1"] if tier == "quick" else ["O1", "O3", "asan"]):
        h, err = build_harness(fl)
        if err:
            res.broken.append(("harness build (%s)" % fl, err))
            continue
        if drv:
            corr_campaign(res, h, drv, make_cases(seed + len(fl), lengths, guard=(fl != "asan")), fl)
    return res.finish()
