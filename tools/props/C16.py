"""C16 — every batched / AVX2 / AVX512 cubic-extension variant equals the scalar operation.

proof : Props/C16Gen.lean (one theorem per overload; the STATEMENT is generated from the C++ signature by tools/extspec.py:
        for element k the three written coefficients, read in ZMod p, are the K3 sum / difference / product of the k-th
        designated operands; array outputs are sequential writes at exactly the designated positions; the BODY is translated
        from the current source) + Props/C16.lean (meaning: frame, link to the scalar Goldilocks3 routines through C09,
        copies).
tie   : bodies regenerated from the source (tr_cxx.py); correspondence runs every overload of the implementation against
        the generated model and against the oracle derived from the signature, in guard-page mode with exact-extent
        arrays (a read or write one element outside the designated extent faults).
"""
from common import *
import extspec as xs

PID = "C16"
MODULE = "GoldilocksVerif.Props.C16"
GENMOD = "GoldilocksVerif.Props.C16Gen"
MODS = ["ExtWrap"]
STRIDES = [0, 1, 2, 3, 3, 5, 17]
WINDOW_LO = (1 << 64) - (1 << 31)      # products reduced to [2^64-2^31, 2^64) are the narrowest non-canonical band


def all_sigs(st):
    out = {}
    for m in MODS:
        for n, sg in ((st.get("modules", {}).get(m) or {}).get("sigs") or {}).items():
            if sg.get("class") == "Goldilocks3" and re.search(r"_(batch|avx|avx512)$", sg.get("c_name") or ""):
                out[n] = (m, sg)
    return out


# ---------------------------------------------------------------------------------------- operand words
def gen_pair_window(rng):
    """canonical (x, y) whose exact integer product is < 2^64 and lies in [2^64 - 2^31, 2^64): the vector reductions
    return it unchanged, i.e. as a non-canonical representation in the top 2^31 values (probability ~2^-33 for uniform
    operands; the doubling E+E of such a value is where a one-correction adder with a small-operand contract breaks)"""
    x = 2 + rng.below((1 << 31) - 2)
    if rng.below(3) == 0:
        x = rng.choice([2, 3, 5, 7, 0xFFFF, 0x10001, 0x7FFFFFFF, 0x40000001])
    lo = (WINDOW_LO + x - 1) // x
    hi = M64 // x
    y = lo + rng.below(hi - lo + 1)
    assert x < P and y < P and WINDOW_LO <= x * y <= M64
    return (x, y) if rng.below(2) else (y, x)


def gen_pair(rng):
    k = rng.below(8)
    if k < 2:
        return gen_pair_limbs(rng)
    if k < 4:
        return gen_pair_mul_band(rng)
    if k < 6:
        return gen_pair_window(rng)
    return gen_word(rng), gen_word(rng)


def fill_operands(rng, desc, args, directed):
    """operand words for every element; for products, coefficient pairs are boundary-directed"""
    W = desc["W"]
    ops = desc["operands"]
    vals = []     # per operand: list over k of list over coefficient
    for o in ops:
        n = 1 if o["const"] or o["kind"] in ("val", "e3") else W
        vals.append([[gen_word(rng) for _ in range(o["dim"])] for _ in range(n)])
    if desc["op"] == "mul" and directed:
        a, b = ops
        na, nb = len(vals[0]), len(vals[1])

        def partner(x0):
            """a canonical word whose integer product with the (already fixed) x0 lies in the top window, if one exists"""
            if 2 <= x0 < (1 << 31):
                lo = (WINDOW_LO + x0 - 1) // x0
                return lo + rng.below(M64 // x0 - lo + 1)
            return None
        for k in range(max(na, nb)):
            if rng.below(5) == 0:
                continue
            i, j = rng.below(a["dim"]), rng.below(b["dim"])
            if a["dim"] == 3 and b["dim"] == 3 and rng.below(3) == 0:
                i = j = 1            # E = a1*b1 is the product the recombination doubles
            x, y = gen_pair(rng)
            ka, kb = (k if na > 1 else 0), (k if nb > 1 else 0)
            if k == 0 or (na > 1 and nb > 1):
                vals[0][ka][i], vals[1][kb][j] = x, y
                if rng.below(2):
                    # the other coefficients zero (either representation): the Karatsuba-style sums (a0+a1), (b0+b1), ...
                    # then equal the directed words, so the directed product also appears as A, B or C
                    for t in range(a["dim"]):
                        if t != i:
                            vals[0][ka][t] = rng.choice([0, 0, P])
                    for t in range(b["dim"]):
                        if t != j:
                            vals[1][kb][t] = rng.choice([0, 0, P])
            elif na == 1:            # a is shared and fixed by element 0: adapt b's word
                q = partner(vals[0][0][i])
                vals[1][kb][j] = q if (q is not None and rng.below(2)) else y
            else:
                q = partner(vals[1][0][j])
                vals[0][ka][i] = q if (q is not None and rng.below(2)) else x
    # place them
    for o, v in zip(ops, vals):
        if o["kind"] == "val":
            args[o["name"]] = v[0][0]
        elif o["kind"] == "e3":
            args[o["name"]] = list(v[0])
        elif o["kind"] == "reg":
            args[o["name"]] = [v[k][0] for k in range(W)]
        elif o["kind"] == "vreg":
            args[o["name"]] = [[v[k][i] for k in range(W)] for i in range(3)]
        elif o["kind"] == "regs3":
            for i, nm in enumerate(o["names"]):
                args[nm] = [v[k][i] for k in range(W)]
        else:
            n = xs.opnd_extent(o, args, W)
            arr = [gen_word(rng) for _ in range(n)]
            # elements in increasing k: a later element wins a shared position (stride 0 / duplicates), and the oracle
            # reads the array, so every reading stays consistent
            for k in range(W):
                kk = 0 if o["const"] else k
                for i in range(o["dim"]):
                    arr[xs.opnd_pos(o, args, k, i)] = v[kk][i]
            args[o["name"]] = arr


def idx_array(rng, W, span):
    pat = rng.below(5)
    L = rng.choice([W, W + 3, 4 * W, 64])
    if pat == 0:
        idx = [k * span for k in range(W)]
    elif pat == 1:
        idx = [(W - 1 - k) * span for k in range(W)]
    elif pat == 2:
        idx = [((i * max(1, L // W)) % L) * span for i in range(W)]
        for i in range(W - 1, 0, -1):
            j = rng.below(i + 1)
            idx[i], idx[j] = idx[j], idx[i]
    elif pat == 3:
        idx = [rng.below(max(1, L // 2)) for _ in range(W)]
    else:
        idx = [rng.below(L) for _ in range(W)]
    return idx


def make_case(rng, name, sig, desc, big=False, directed=True):
    """one request line + checker for an overload"""
    W = desc["W"]
    args = {}
    out = desc["out"]
    holders = [o for o in desc["operands"] if o["kind"] == "arr" and o.get("stride")] + ([out] if out.get("stride") else [])
    for o in holders:
        kind, nm, w = o["stride"]
        span = 3 if (o is out or o.get("dim") == 3) else 1
        if kind == "stride":
            args[nm] = (1000 + rng.below(24)) if big else rng.choice(STRIDES)
        else:
            args[nm] = idx_array(rng, W, span if rng.below(2) else 1)
    fill_operands(rng, desc, args, directed)
    if desc["chal"]:
        ch = desc["chal"]
        sums = [xs.chal_sums(desc, args, k) for k in range(W)]

        def rep(v):
            return v + P if (rng.below(3) == 0 and v + P <= M64) else v
        if ch["kind"] == "arr":
            args[ch["name"]] = [rep(s) for s in sums[0]]
        else:
            for i, nm in enumerate(ch["names"]):
                args[nm] = [rep(sums[k][i]) for k in range(W)]
    if out["kind"] == "arr":
        args[out["name"]] = [gen_word(rng) for _ in range(xs.out_extent(out, args, W))]
    elif out["kind"] == "vreg":
        args[out["name"]] = [[gen_word(rng) for _ in range(W)] for _ in range(3)]
    toks = []
    for q in sig["lean_params"]:
        if q["mode"] in ("out", "merged"):
            continue
        v = args[q["name"]]
        if q["cat"] in ("ptr", "arr"):
            toks.append("[ " + " ".join(hx(x) for x in v) + " ]")
        elif q["cat"] in ("v4", "v8"):
            toks.append(" ".join(hx(x) for x in v))
        elif q["cat"] in ("vr4", "vr8"):
            toks.append(" ".join(hx(x) for r in v for x in r))
        else:
            toks.append(hx(v))
    line = "!^%s %s" % (name, " ".join(toks))
    want = xs.oracle(desc, args)
    exact = desc["op"] == "copy"

    def same(x, y):
        return x == y if exact else x % P == y % P
    how = " (exact)" if exact else " (mod p)"
    if out["kind"] == "arr":
        old = list(args[out["name"]])
        cand = {}
        for k in range(W):
            for i in range(3):
                cand.setdefault(xs.out_pos(out, args, k, i), []).append(want[k][i])

        def expect(vals):
            if len(vals) != len(old):
                return False, "%d words" % len(old)
            for j in range(len(old)):
                if j in cand:
                    if not any(same(vals[j], c) for c in cand[j]):
                        return False, "position %d: one of %s%s" % (j, [hx(c) for c in cand[j]], how)
                elif vals[j] != old[j]:
                    return False, "position %d unchanged (%x)" % (j, old[j])
            return True, ""
    else:
        def expect(vals):
            if len(vals) != 3 * W:
                return False, "%d words" % (3 * W)
            for i in range(3):
                for k in range(W):
                    if not same(vals[i * W + k], want[k][i]):
                        return False, "coefficient %d of element %d = %x%s" % (i, k, want[k][i], how)
            return True, ""
    strides = []
    for o in holders:
        kind, nm, w = o["stride"]
        strides.append(str(args[nm]) if kind == "stride" else "idx")
    tag = "%s|%s" % (name, ",".join(strides))
    return {"line": line, "key": name, "tag": tag, "expect": expect}


def describe_all(sigs):
    descs, bad = {}, {}
    for n in sorted(sigs):
        try:
            descs[n] = xs.describe(n, sigs[n][1])
        except xs.NoSpec as e:
            bad[n] = str(e)
    return descs, bad


def run(tier, seed):
    res = Result(PID, tier, seed)
    res.rule = ("every translated add/sub/mul/copy _batch/_avx/_avx512 overload of Goldilocks3 x {scalar strides 0,1,2,3,5,17 and 1000+, "
                "index arrays identity/reversed/permuted/with duplicates/random, unit or element spans} x boundary-directed operand "
                "words (products: limb patterns, reduction-boundary bands and the top non-canonical window [2^64-2^31,2^64)); arrays "
                "sized EXACTLY to the designated extent and mapped against a PROT_NONE page (forked child) so any out-of-extent "
                "access faults; whole output array returned so stray writes are seen; colliding output positions accepted in any "
                "order; distinct = distinct (overload, stride pattern)")
    res.assumptions = ["operand designation is derived from the routine NAME (op, shape, family) and parameter TYPES and NAMES, see tools/extspec.py",
                       "distinct pointer / register-array arguments designate non-overlapping memory (Region model); aliasing of wrapper arguments is not covered",
                       "challenge products (mul_batch(result,a,b,b_), mul_avx(c0_,..,aux0_,aux1_,aux2_)) are specified under the hypothesis that the extra operand holds the sums b0+b1, b0+b2, b1+b2 (as field elements)",
                       "the READ footprint is established by the guard-page runs (the Lean model is a total function of the region contents); the theorems show that the result depends only on the designated words"]
    st = run_gen()
    xinfo = st.get("extspec") or {}
    if xinfo.get("error"):
        res.broken.append(("statement generation (tools/extspec.py)", xinfo["error"]))
    index = xinfo.get("theorems", [])
    sigs = all_sigs(st)
    have = {t["fn"] for t in index}
    for n in sorted(sigs):
        if n not in have:
            why = [s["why"] for s in xinfo.get("skipped", []) if s["fn"] == n]
            res.broken.append(("overload %s has no generated statement" % n, "; ".join(why) or "not classified"))
    failing = set()
    ok, out, dt = build_props(GENMOD)
    res.extra["lake_build_gen_s"] = round(dt, 1)
    if not ok:
        for part in sorted(set(t.get("file") for t in index if t.get("file"))):
            gen_file = os.path.join(LEAN, "GoldilocksVerif", "Props", part)
            starts = []
            try:
                for i, l in enumerate(open(gen_file).read().splitlines(), 1):
                    m = re.match(r"theorem (\w+)_spec", l)
                    if m:
                        starts.append((i, m.group(1)))
            except OSError:
                continue
            for e in lean_errors(out):
                m = re.search(re.escape(part) + r":(\d+):", e)
                if m:
                    ln = int(m.group(1))
                    cur = [n for i, n in starts if i <= ln]
                    if cur:
                        failing.add(cur[-1])
        for n in sorted(failing):
            c = next((t["c"] for t in index if t["fn"] == n), n)
            res.broken.append(("theorem %s_spec no longer checks" % n,
                               "overload: %s\n(the translated body no longer computes the scalar operation on the designated operands / writes the designated positions)" % c))
        if not failing:
            res.broken.append(("lake build " + GENMOD, out[-3000:]))
    standard_proof_phase(res, MODULE, "C16_", st, MODS, thorough=(tier == "thorough"))
    gen_names = [t["theorem"] for t in index]
    res.obligations = list(res.obligations) + gen_names
    if ok:
        ax, raw = print_axioms(GENMOD, "GoldilocksVerif.C16Gen", gen_names)
        for n in gen_names:
            a = ax.get(n)
            if a is None:
                res.broken.append(("#print axioms %s" % n, raw[-1500:]))
            elif set(a) - ALLOWED_AXIOMS:
                res.broken.append(("axioms of %s" % n, ", ".join(a)))
            else:
                res.discharged.append(n)
        bad = audit_sources(GENMOD)
        if bad:
            res.broken.append(("source audit of generated statements", "\n".join(bad)))
    fams = {}
    for t in index:
        fams[t.get("family", "?")] = fams.get(t.get("family", "?"), 0) + 1
    res.extra["overloads"] = {"translated": len(sigs), "with_generated_statement": len(index), "by_family": fams,
                              "under_challenge_hypothesis": sorted(t["fn"] for t in index if t.get("hyp")),
                              "notes": {t["fn"]: t["notes"] for t in index if t.get("notes")}}
    # ---- correspondence + oracle
    drv, err = build_driver()
    if err:
        res.broken.append(("model driver build", err))
        drv = NO_MODEL
    per = 8 if tier == "quick" else 150
    descs, bad = describe_all(sigs)
    for fl in (["O1"] if tier == "quick" else ["O1", "O3"]):
        h, err = build_harness(fl)
        if err:
            res.broken.append(("harness build (%s)" % fl, err))
            continue
        rng = Rng(seed ^ 0xC16 ^ len(fl))
        cases = []
        for n in sorted(descs):
            m, sg = sigs[n]
            d = descs[n]
            reps = per * (10 if n in failing else 1)
            if d["op"] == "mul":
                reps *= 3          # products: the directed families need several draws each
            for r in range(reps):
                cases.append(make_case(rng, n, sg, d, big=(r % 6 == 5), directed=(r % 4 != 3)))
        corr_campaign(res, h, drv, cases, fl)
    return res.finish()
