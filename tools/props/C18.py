"""C18 — no out-of-bounds, uninitialised, mismatched-free or undefined behaviour.   PARTIAL BY NATURE (see Props/C18.lean).

proved : Props/C18.lean — allocation discipline of NTT_Goldilocks for every call history (Model/NttAlloc.lean), scratch
         extents of NTT(), frame conditions re-exported from C17/C08.
tie    : (a) allocation-trace correspondence: the harness records the library's real malloc/free/new[]/delete[]/delete
         calls (linker-wrapped / replaced operators) over the whole life of an object, compared word for word with the
         model's predicted trace; the recorded trace is also checked for cleanliness independently in Python;
         (b) NOT a proof: the shape grids of C03-C09, C13, C14, C17 re-run on exact-size buffers — O1 build with redzones
         and PROT_NONE guard pages, and an AddressSanitizer+UBSan build with exact-size heap blocks; any report is a
         violation with the request line as replay.
"""
from common import *
import importlib

PID = "C18"
MODULE = "GoldilocksVerif.Props.C18"


def alloc_histories(seed, tier):
    rng = Rng(seed ^ 0xC18)
    cases = []
    n = 400 if tier == "quick" else 20000
    # corner objects first
    fixed = ["nttalloc 0 1 0", "nttalloc 1 1 0", "nttalloc 2 1 0", "nttalloc 1 1 1 2 1 1 2 3 1 0", "nttalloc 8 1 1 0 0 0 3 3 1 0",
             "nttalloc 8 1 1 0 8 0 0 3 1 0"]
    for l in fixed:
        cases.append({"line": l, "key": "alloc-trace", "tag": "fixed:" + l})
    for _ in range(n):
        s = rng.choice([0, 1, 2, 3, 4, 5, 6])
        calls = []
        for _c in range(rng.below(6)):
            op = rng.choice([0, 1, 2, 2])
            d = rng.below(s + 1)
            nn = 1 << d
            e = min(d + rng.below(3), 7)
            next_ = (1 << e) if op == 2 else 0
            ncols = rng.choice([1, 2, 3, 5])
            nphase = rng.below((e if op == 2 else d) + 3)
            nblock = rng.below(ncols + 2)
            calls.append((op, nn, next_, ncols, nphase, nblock, rng.below(2)))
        toks = " ".join("%x %x %x %x %x %x %x" % c for c in calls)
        nex = [c[1] for c in calls if c[0] == 2]
        tag = "calls=%d,extendPol=%d,cache-replaced=%s,blocks>1=%s" % (len(calls), len(nex), len(set(nex)) > 1,
                                                                    any(min(c[5], c[3]) > 1 for c in calls))
        cases.append({"line": ("nttalloc %x %x %x %s" % (1 << s, rng.choice([1, 2, 3]), len(calls), toks)).strip(),
                      "key": "alloc-trace", "tag": tag})
    return cases


def trace_clean(words):
    """independent re-check of the recorded trace: (ok, reason)"""
    live = {}
    nid = 0
    if len(words) % 3:
        return False, "malformed trace"
    for i in range(0, len(words), 3):
        t, fam, x = words[i:i + 3]
        if t == 1:
            live[nid] = fam
            nid += 1
        else:
            if x not in live:
                return False, "release of block %d which is not live (double or wild release)" % x
            if live[x] != fam:
                return False, "block %d allocated with family %d released with family %d (0 malloc/free, 1 new[]/delete[], 2 delete)" % (x, live[x], fam)
            del live[x]
    if live:
        return False, "blocks never released: %s" % sorted(live)
    return True, ""


def alloc_campaign(res, h, drv, seed, tier, fl):
    cases = alloc_histories(seed, tier)
    lines = [c["line"] for c in cases]
    impl = run_parallel(h, lines)
    model = run_parallel(drv, lines)
    for c, ri, rm in zip(cases, impl, model):
        res.note_case(c["line"], c["tag"])
        v = parse_reply(ri)
        ok, why = (False, "a trace") if v is None else trace_clean(v)
        if not ok:
            res.failures.append({"key": "alloc-discipline", "lines": [c["line"]], "expected": "every block released exactly once by the matching deallocator",
                                 "observed": why + " | " + (ri or "")[:300], "note": "recorded allocation trace (%s build)" % fl})
        if ri != rm:
            res.broken.append(("correspondence allocation trace: implementation != Model/NttAlloc.lean",
                               "line: %s\nimpl : %s\nmodel: %s" % (c["line"], (ri or "")[:600], (rm or "")[:600])))
        else:
            res.traces += 1
    dedup_broken(res)


def memory_lines(seed, tier):
    """request lines of the other properties' shape grids (implementation side only)"""
    out = []

    def add(cases, key):
        for c in cases:
            out.append((c["line"], key))
    nc = importlib.import_module("props.ntt_common")
    C04 = importlib.import_module("props.C04")
    C19 = importlib.import_module("props.C19")
    add(nc.single_call_cases(seed + 1, [0, 1, 2], tier if tier == "quick" else "quick"), "ntt")
    add(C19.histories(seed + 2, "quick")[:60 if tier == "quick" else 150], "ntt-history")
    C07 = importlib.import_module("props.C07")
    add(C07.make_cases(seed + 3, list(range(0, 41)) + [63, 64, 65]), "linear_hash")
    C08 = importlib.import_module("props.C08")
    add(C08.make_cases(seed + 4, "quick"), "merkle")
    C17 = importlib.import_module("props.C17")
    ws = importlib.import_module("wrapspec")
    st = run_gen()
    rng = Rng(seed ^ 0x18C17)
    for n, (m, sg) in sorted(C17.all_sigs(st).items()):
        try:
            d = ws.describe(n, sg)
        except ws.NoSpec:
            continue
        for r in range(2 if tier == "quick" else 6):
            out.append((C17.make_case(rng, n, sg, d, big=(r == 1))["line"], "wrappers"))
    add(C17.parcopy_cases(rng, "quick"), "parcpy")
    C09 = importlib.import_module("props.C09")
    names = (st.get("modules", {}).get("Ext", {}) or {}).get("names", [])
    try:
        add(C09.make_cases(seed + 5, 6, names), "ext")
    except Exception:
        pass
    return out


BAD = re.compile(r"err (redzone|signal|crash|hang|exit 1\b)|AddressSanitizer|runtime error")


def memory_campaign(res, h, seed, tier, fl):
    lines = memory_lines(seed, tier)
    if fl == "asan":
        # the sanitizer build uses exact-size heap blocks (HARNESS_EXACT); guard pages would hide them from ASan
        reqs = [l.replace("!^", "!").replace("^", "") for l, _ in lines]
    else:
        reqs = [l for l, _ in lines]
    env = dict(os.environ)
    env.setdefault("OMP_WAIT_POLICY", "passive")
    env.setdefault("GOMP_SPINCOUNT", "0")
    env["ASAN_OPTIONS"] = "detect_leaks=1:alloc_dealloc_mismatch=1:abort_on_error=0:exitcode=77"
    env["UBSAN_OPTIONS"] = "halt_on_error=1:exitcode=78"
    out = run_parallel(h, reqs, env=env, timeout=1800)
    kinds = {}
    for (l, key), r in zip(lines, out):
        kinds[key] = kinds.get(key, 0) + 1
        res.note_case(fl + ":" + l[:200], fl + ":" + key)
        # library-defined refusals (err exit 255 from inv(0), err bad-numeral ...) are results; memory reports are not
        if r is None or BAD.search(r):
            res.failures.append({"key": "memory:" + key, "lines": [l[:8000]], "expected": "no out-of-extent access / sanitizer report",
                                 "observed": (r or "no reply")[:400], "note": "%s build, exact-size buffers" % fl})
    res.extra["memory_campaign_" + fl] = kinds


def run(tier, seed):
    res = Result(PID, tier, seed)
    res.level = "proof"   # partial: see assumptions and Props/C18.lean
    res.rule = ("(a) allocation traces: object sizes 1..64 and 0, histories of 0..5 NTT/INTT/extendPol calls with random shapes, "
                "buffer on/off, block counts 0..ncols+1, recorded from the real allocator calls and compared with the model; "
                "(b) the request lines of the shape grids of C03/C04/C05/C19 (exhaustive small shapes, histories), C07 (every length "
                "0..41, 63..65), C08 (rows x cols x dim x batch x backend), C17 (every wrapper overload x strides), C09, parcpy, each on "
                "exact-size buffers with redzones / guard pages (O1) and under ASan+UBSan with exact heap blocks")
    res.assumptions = ["memory safety is OBSERVED, not proved, for everything except the allocation discipline, the scratch extents and the "
                       "frame conditions stated in Props/C18.lean",
                       "uninitialised reads are not detected (no MSan run: the prebuilt libgmp/libgomp are not instrumented)",
                       "C16 overloads are covered by the C16 check's own guard-page campaign, C13/C14 kernels take registers only"]
    st = run_gen()
    standard_proof_phase(res, MODULE, "C18_", st, ["Scalar", "NttGen"], thorough=(tier == "thorough"))
    drv, err = build_driver()
    if err:
        res.broken.append(("model driver build", err))
        drv = NO_MODEL
    h, err = build_harness("O1")
    if err:
        res.broken.append(("harness build (O1)", err))
    else:
        alloc_campaign(res, h, drv, seed, tier, "O1")
        memory_campaign(res, h, seed, tier, "O1")
    ha, err = build_harness("asan")
    if err:
        res.broken.append(("harness build (asan)", err))
    else:
        memory_campaign(res, ha, seed, tier, "asan")
    # thread-indexed scratch: the Merkle builders and the transforms with MORE members requested than omp_get_max_threads()
    # (what a process-wide omp_set_num_threads(2) by an earlier transform leaves behind), under ASan on the stand-in runtime
    hq, err = build_harness("asanseq")
    if err:
        res.broken.append(("harness build (asanseq)", err))
    else:
        C12 = importlib.import_module("props.C12")
        rng = Rng(seed ^ 0x18AA)
        reqs = []
        for l, key in memory_lines(seed, tier):
            if key not in ("merkle", "ntt-history") and not (key == "ntt" and rng.below(8) == 0):
                continue
            b = C12.with_threads(l.replace("!^", "").lstrip("!"), rng.choice([5, 8]))
            if b is not None and (key != "merkle" or rng.below(2)):
                reqs.append(("@0:2:%x %s" % (rng.below(1 << 30), b), key))
        env = dict(os.environ)
        env["ASAN_OPTIONS"] = "detect_leaks=1:alloc_dealloc_mismatch=1:abort_on_error=0:exitcode=77"
        env["UBSAN_OPTIONS"] = "halt_on_error=1:exitcode=78"
        out = run_parallel(hq, [r[0] for r in reqs], env=env, timeout=1800)
        for (rq, key), r in zip(reqs, out):
            res.note_case("asanseq:" + rq[:200], "asanseq:" + key)
            if r is None or BAD.search(r):
                res.failures.append({"key": "memory:" + key, "lines": [rq[:8000]], "expected": "no sanitizer report with more team members requested than omp_get_max_threads()",
                                     "observed": (r or "no reply")[:400], "note": "ASan+UBSan build over the stand-in OpenMP runtime (max threads 2, 5-8 requested)"})
        res.extra["memory_campaign_asanseq"] = len(reqs)
    return res.finish()
