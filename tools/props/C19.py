"""C19 — transform objects are reusable: histories of calls on ONE object, compared call by call with the reference
(which single-call runs on fresh objects are compared with in C03-C05) and with the model's object state."""
from common import *
import props.ntt_common as nc

PID = "C19"
MODULE = "GoldilocksVerif.Props.C19"


def histories(seed, tier):
    rng = Rng(seed ^ 0xC19)
    cases = []
    for _ in range(150 if tier == "quick" else 4000):
        s = rng.choice([3, 4, 5, 6])
        calls = []
        for _c in range(2 + rng.below(5)):
            op = rng.choice([0, 1, 2, 2])
            d = rng.below(s + 1)
            n = 1 << d
            e = min(d + rng.below(3), 7)
            next_ = (1 << e) if op == 2 else 0
            ncols = rng.choice([1, 2, 3])
            nphase = rng.below((e if op == 2 else d) + 3)
            nblock = rng.below(ncols + 2)
            mode = rng.choice((0, 1, 2) if op != 2 else (0, 1))
            rows = n if (op != 2 or mode == 1) else next_
            calls.append((op, n, next_, ncols, nphase, nblock, rng.below(2), mode, nc.gen_data(rng, rows * ncols)))
        nex = sum(1 for c in calls if c[0] == 2)
        sizes = len(set(c[1] for c in calls if c[0] == 2))
        cases.append({"line": nc.seq_line(1 << s, rng.choice([1, 2, 3, 16]), calls), "key": "history", "calls": calls,
                      "tag": "len=%d,extendPol=%d,distinctN=%d" % (len(calls), nex, sizes)})
    return cases


def run(tier, seed):
    res = Result(PID, tier, seed)
    res.rule = ("random histories of 2..6 calls from {NTT, INTT, extendPol} x sizes 2^k <= object size x ncols x nphase x nblock x "
                "buffer x destination mode on ONE object (object sizes 2^3..2^6); each call's output compared with the reference "
                "transform of its own arguments (= what a fresh object returns, C03-C05) and with the model, whose object carries the "
                "r-cache explicitly; non-trivial = history with two extendPol calls of different N")
    res.assumptions = ["hand model Model/Ntt.lean tied to the code by execution on the listed histories — and ALSO by bridge theorems: the functions are regenerated from the source on every run and proved equal to the hand model (C19_generated_*), so the theorems hold for the current text, not only on the executed cases (histories of NTT/INTT/extendPol with or without caller scratch buffer, dst == NULL included: C19_generated_history_buffers; constructor -> history -> destructor: C19_generated_life_then_dtor; the caller's blocks are a fixed set that exists when the history starts)"]
    st = run_gen()
    standard_proof_phase(res, MODULE, "C19_", st, ["Scalar", "NttGen"], thorough=(tier == "thorough"))
    drv, err = build_driver()
    if err:
        res.broken.append(("model driver build", err))
        drv = NO_MODEL
    for fl in (["O1"] if tier == "quick" else ["O1", "asan"]):
        h, err = build_harness(fl)
        if err:
            res.broken.append(("harness build (%s)" % fl, err))
            continue
        if drv:
            nc.run_cases(res, h, drv, histories(seed + len(fl), tier if fl != "asan" else "quick"), fl)
    return res.finish()
