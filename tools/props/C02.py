"""C02 — AVX2 lane kernels. proof: Props/C02.lean over Gen/Avx2.lean (translated intrinsics code);
tie: regeneration + execution of the generated definitions against the compiled kernels on this CPU."""
from common import *

PID = "C02"
MODULE = "GoldilocksVerif.Props.C02"
SH = 1 << 63
SMALL = 0xFFFFFFFF00000000


def unsh(v):
    return (v + SH) & M64


def lanes(vals, k, n=4):
    return vals[k * n:(k + 1) * n]


# kernel -> (number of vector inputs, operand generator tweak, spec(lane inputs...) -> predicate on lane outputs)
def specs():
    S = {}
    S["shift_avx"] = (1, None, lambda o, a: o[0] == unsh(a))
    S["toCanonical_avx"] = (1, None, lambda o, a: o[0] == a % P)
    S["toCanonical_avx_s"] = (1, None, lambda o, a: unsh(o[0]) == unsh(a) % P)
    S["add_avx__vVV"] = (2, None, lambda o, a, b: o[0] % P == (a + b) % P)
    S["add_avx_a_sc"] = (2, "a_sc", lambda o, a, b: o[0] % P == (unsh(a) + b) % P)
    S["add_avx_s_b_small"] = (2, "b_small", lambda o, a, b: unsh(o[0]) % P == (unsh(a) + b) % P)
    S["add_avx_b_small"] = (2, "b_small", lambda o, a, b: o[0] % P == (a + b) % P)
    S["sub_avx__vVV"] = (2, None, lambda o, a, b: o[0] % P == (a - b) % P)
    S["sub_avx_s_b_small"] = (2, "b_small", lambda o, a, b: unsh(o[0]) % P == (unsh(a) - b) % P)
    S["mult_avx"] = (2, None, lambda o, a, b: o[0] % P == (a * b) % P)
    S["mult_avx_8"] = (2, "b_8", lambda o, a, b: o[0] % P == (a * b) % P)
    S["mult_avx_128"] = (2, None, lambda o, a, b: (o[0] << 64) + o[1] == a * b)
    S["mult_avx_72"] = (2, "b_32", lambda o, a, b: (o[0] << 64) + o[1] == a * b and o[0] < (1 << 32))
    S["reduce_avx_128_64"] = (2, None, lambda o, h, l: o[0] % P == ((h << 64) + l) % P)
    S["reduce_avx_96_64"] = (2, "a_32", lambda o, h, l: o[0] % P == ((h << 64) + l) % P)
    S["square_avx"] = (1, None, lambda o, a: o[0] % P == (a * a) % P)
    S["square_avx_128"] = (1, None, lambda o, a: (o[0] << 64) + o[1] == a * a)
    return S


def gen_lane(rng, tweak, pos):
    v = gen_word(rng)
    if tweak == "b_small" and pos == 1:
        if v > SMALL:
            v = SMALL - rng.below(3) if rng.below(2) else v & 0xFFFFFFFEFFFFFFFF
            v = min(v, SMALL)
    elif tweak == "a_sc" and pos == 0:
        v = ((v % P) + SH) & M64
    elif tweak == "b_8" and pos == 1:
        v = rng.choice([0, 1, 2, 127, 128, 254, 255, rng.below(256)])
    elif (tweak == "b_32" and pos == 1) or (tweak == "a_32" and pos == 0):
        v = rng.choice([0, 1, 0xFFFFFFFF, 0xFFFFFFFE, 0x80000000, rng.next() & 0xFFFFFFFF])
    return v


def make_cases(seed, n_per_kernel, names):
    rng = Rng(seed ^ 0xC02)
    S = specs()
    cases = []
    for name in names:
        if name not in S:
            continue
        nin, tweak, pred = S[name]
        for _ in range(n_per_kernel):
            ins = [[gen_lane(rng, tweak, k) for _ in range(4)] for k in range(nin)]
            sel = rng.below(4)
            if (name.startswith("mult_avx") or name.startswith("square") or name.startswith("reduce")) and sel < 2 and tweak is None and nin >= 2:
                for j in range(4):
                    ins[0][j], ins[1][j] = gen_pair_mul_band(rng) if sel == 0 else gen_pair_limbs(rng)
            line = name + " " + " ".join(hx(v) for reg in ins for v in reg)

            def expect(vals, ins=ins, pred=pred, nin=nin):
                nout = len(vals) // 4
                for j in range(4):
                    o = [vals[k * 4 + j] for k in range(nout)]
                    if not pred(o, *[ins[k][j] for k in range(nin)]):
                        return False, "lane %d violates the kernel's specification (inputs %s)" % (j, [hex(ins[k][j]) for k in range(nin)])
                return True, ""
            nt = any(v >= P or v >= SH for reg in ins for v in reg)
            cases.append({"line": line, "key": name, "expect": expect, "tag": ("band" if nt else None)})
    return cases


def run(tier, seed):
    res = Result(PID, tier, seed)
    res.rule = ("per kernel: boundary-directed lane values (carry boundaries, [p,2^64) band, sign-bit boundaries of the shifted "
                "compare, 32-bit-compare corner b_h=0xFFFFFFFF) satisfying the kernel's documented operand assumption; "
                "each vector = 4 independent lane cases; non-trivial = some lane in the non-canonical band or above 2^63")
    res.assumptions = ["register operands are values in the model; the in-place call patterns f(x, x, b) / f(x, a, x) (output register object = an input register object) are exercised on the implementation side (variants __ra<o>_<k>), not proved",
                       "intrinsic semantics of Isa/Avx2.lean (executed against this CPU in this run)",
                       "operand assumptions exactly as documented in the header (stated as hypotheses of the theorems)"]
    st = run_gen()
    standard_proof_phase(res, MODULE, "C02_", st, ["Scalar", "Avx2"], thorough=(tier == "thorough"))
    drv, err = build_driver()
    if err:
        res.broken.append(("model driver build", err))
        drv = NO_MODEL
    names = (st.get("modules", {}).get("Avx2", {}) or {}).get("names", []) + (st.get("modules", {}).get("Avx2", {}) or {}).get("untranslated", [])
    missing = [k for k in specs() if k not in names]
    if missing:
        res.broken.append(("kernels missing from the translated module", ", ".join(missing)))
    n = 1500 if tier == "quick" else 60000
    for fl in (["O1"] if tier == "quick" else ["O1", "O3"]):
        h, err = build_harness(fl)
        if err:
            res.broken.append(("harness build (%s)" % fl, err))
            continue
        if drv:
            corr_campaign(res, h, drv, with_reg_alias(make_cases(seed + len(fl), n, names), st), fl)
    return res.finish()
