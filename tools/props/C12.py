"""C12 — parallel regions are race-free; results independent of threads and schedule.   PARTIAL BY NATURE (Props/C12.lean).

proved  : Bernstein's conditions for the footprints of all 20 `omp parallel for` loops (all shapes) + the generic
          order-independence theorem; parcpy/parSetZero end to end (C17); the hand model's loop bodies have these footprints
          (C12_model_*); the GENERATED lifted loop bodies (Gen/NttGen.lean, Gen/MerkleGen.lean, translated on every run)
          folded over any permutation of the iteration indices give the generated loop's result (C12_generated_*:
          NTT batches, block scatter, the four bit-reversal loops, parcpy chunks, Merkle leaf + level loops of the six builders).
tie     : the footprints are hand-written from the loop bodies.  Each run (1) fingerprints every parallel loop of the
          current source (pragma + loop statement text) against the bodies the footprints were written from
          (tools/props/C12_loops.json) and checks that no other OpenMP construct is used; (2) OBSERVES the real accesses:
          ThreadSanitizer over a pthread stand-in for the OpenMP runtime (harness/omp_standin.cpp); controlled sequential
          execution of the team members in permuted orders for team sizes below, at and above the iteration count —
          outputs must be bit-identical to the one-member run; real libgomp teams of 1,2,3,5,16 threads.
"""
from common import *
import importlib

PID = "C12"
MODULE = "GoldilocksVerif.Props.C12"
LOOPS_FILE = os.path.join(HERE, "props", "C12_loops.json")
FAMILY_THEOREM = {
    "parcpy": "C12_parcpy_chunks", "ntt_batches": "C12_ntt_batches", "scatter": "C12_row_to_row",
    "reversal_out_of_place": "C12_row_to_row", "reversal_in_place": "C12_inplace_reversal",
    "merkle_leaves": "C12_merkle_leaves", "merkle_level": "C12_merkle_level",
}


def loop_fingerprints():
    """[file, pragma, sha256 of the loop statement text] for every `#pragma omp` of the current source, in order"""
    out, other = [], []
    for fn in sorted(os.listdir(SRC)):
        if not (fn.endswith(".cpp") or fn.endswith(".hpp")) or fn.endswith(".cu") or fn.endswith(".cuh"):
            continue
        text = open(os.path.join(SRC, fn), errors="replace").read()
        for m in re.finditer(r"^[ \t]*#pragma omp[^\n]*\n", text, re.M):
            prag = " ".join(m.group(0).split())
            # the loop statement: from the pragma to the brace that closes the for body
            i = text.find("{", m.end())
            depth, j = 0, i
            while j < len(text):
                if text[j] == "{":
                    depth += 1
                elif text[j] == "}":
                    depth -= 1
                    if depth == 0:
                        break
                j += 1
            body = " ".join(text[m.end():j + 1].split())
            out.append([fn, prag, hashlib.sha256(body.encode()).hexdigest()[:16], body[:70]])
        for m in re.finditer(r"omp_(?!get_max_threads|set_num_threads|set_dynamic|get_thread_num|get_num_threads)\w+|#pragma omp (?!parallel for)", text):
            other.append("%s: %s" % (fn, m.group(0)))
    return out, other


# Loops whose body is ALSO translated on every run (Gen/NttGen.lean, Gen/ParZeroGen.lean) and for which a theorem of Props/C12.lean
# states, about the TRANSLATED function that contains the loop, that its lifted loop body run over any permutation of the
# iteration starts returns what the translated function returns (and that the starts are the hand model's).  For these the text the
# footprint was written from no longer matters once that theorem has been re-proved on the regenerated definition: a differing
# fingerprint is recorded in the evidence as superseded (same idea as tools/handmodels.py: BRIDGED).  Exact scope: index in
# C12_loops.json -> (file, the ONE function that must contain the loop, theorems).  Superseded only if (a) the number and order of
# `#pragma omp` lines, their files and the pragma texts are all unchanged (only the sha of the loop statement differs; for the bridged
# loops themselves the ARGUMENT of `num_threads(...)` may also be another identifier / positive literal, see pragma_shape), (b) the loop
# is the only OpenMP construct of the current definition of that function (so the theorem about the function's translated loop is a
# theorem about THIS loop), (c) every listed theorem is among the discharged obligations of a proof phase without broken obligation.
# Not listed (fingerprint stays binding): the NTT and Merkle loops (their any-order theorems carry shape hypotheses or are stated
# per loop body, not per function).
LOOP_BRIDGED = {
    0: ("goldilocks_base_field.cpp", r"Goldilocks::parcpy", ["C12_generated_parcpy_any_order"]),
    1: ("goldilocks_base_field.cpp", r"Goldilocks::parSetZero", ["C12_generated_parSetZero_any_order"]),
}


def pragma_shape(pragma):
    """the pragma text with the ARGUMENT of its `num_threads(...)` clause blanked, or None when that argument is anything but a plain
    identifier or a positive decimal literal (no operators, calls or side effects).  The any-order theorems of LOOP_BRIDGED hold for
    every team size (the iteration starts are run in ANY order, whoever runs them), and the observational part runs the current text
    over the whole team-size grid, so for a bridged loop the requested team size may be spelled differently; every other token of the
    pragma (construct, schedule, further clauses, their order) stays binding."""
    ms = list(re.finditer(r"\bnum_threads\s*\(([^()]*)\)", pragma))
    if len(ms) != 1:
        return None
    arg = ms[0].group(1).strip()
    if not re.fullmatch(r"[A-Za-z_]\w*|[1-9][0-9]*", arg):
        return None
    return re.sub(r"\s+", " ", pragma[:ms[0].start()] + "num_threads(*)" + pragma[ms[0].end():]).strip()


def loop_in_function(fn, name_re):
    """True iff the current source file `fn` has exactly one definition matching `name_re` and that definition contains exactly
    one `#pragma omp` line (comments stripped)"""
    import handmodels
    try:
        text = open(os.path.join(SRC, fn), errors="replace").read()
    except OSError:
        return False
    defs = handmodels.functions(text, name_re)
    if len(defs) != 1:
        return False
    return len(re.findall(r"#\s*pragma\s+omp\b", defs[0][1])) == 1


def loop_owner_index(fn, name_re):
    """index (among the `#pragma omp` lines of ALL source files, in the order of loop_fingerprints) of the pragma that lies inside the
    definition matching `name_re` of file `fn`, or None"""
    import handmodels
    idx = 0
    for f in sorted(os.listdir(SRC)):
        if not (f.endswith(".cpp") or f.endswith(".hpp")):
            continue
        text = open(os.path.join(SRC, f), errors="replace").read()
        ms = list(re.finditer(r"^[ \t]*#pragma omp[^\n]*\n", text, re.M))
        if f == fn:
            # locate the definition in the raw text: the function's normalised text starts at its line and ends at its closing brace
            st = handmodels.strip_comments(text)
            # strip_comments keeps no offsets: count the pragmas that precede the definition in the comment-free text instead
            dm = None
            for m in re.finditer(r"(?<![\w:~])(" + name_re + r")\s*\(", st):
                # a definition: the matching ')' is followed by '{'
                i, depth, j = m.end() - 1, 0, m.end() - 1
                while j < len(st):
                    if st[j] == "(":
                        depth += 1
                    elif st[j] == ")":
                        depth -= 1
                        if depth == 0:
                            break
                    j += 1
                if re.match(r"\s*(const\s*)?\{", st[j + 1:j + 40]):
                    dm = (m.start(), j + 1)
                    break
            if dm is None:
                return None
            b = st.find("{", dm[1])
            depth, e = 0, b
            while e < len(st):
                if st[e] == "{":
                    depth += 1
                elif st[e] == "}":
                    depth -= 1
                    if depth == 0:
                        break
                e += 1
            before = len(re.findall(r"^[ \t]*#pragma omp[^\n]*\n", st[:dm[0]], re.M))
            inside = len(re.findall(r"^[ \t]*#pragma omp[^\n]*\n", st[dm[0]:e + 1], re.M))
            total = len(re.findall(r"^[ \t]*#pragma omp[^\n]*\n", st, re.M))
            if inside != 1 or total != len(ms):      # a pragma inside a comment would shift the count: refuse
                return None
            return idx + before
        idx += len(ms)
    return None


def with_threads(line, t):
    toks = line.split()
    pre = ""
    fn = toks[0].lstrip("!^")
    if fn == "nttseq":
        toks[2] = "%x" % t
    elif fn == "mt":
        toks[5] = "%x" % t
    elif fn == "mtb":
        toks[6] = "%x" % t
    elif fn in ("parcpy", "parcpy_rev", "parsetzero"):
        toks[1 if fn != "parsetzero" else 2] = "%x" % t
    else:
        return None
    toks[0] = fn
    return " ".join(toks)


def base_lines(seed, tier):
    nc = importlib.import_module("props.ntt_common")
    C08 = importlib.import_module("props.C08")
    C17 = importlib.import_module("props.C17")
    C19 = importlib.import_module("props.C19")
    out = []
    cs = nc.single_call_cases(seed + 11, [0, 1, 2], "quick")
    rng = Rng(seed ^ 0xC12)
    # larger transforms so that teams really have several batches each
    for d in ([5, 6, 7] if tier == "quick" else [5, 6, 7, 8, 9, 10]):
        for op in (0, 1, 2):
            for ncols in (1, 3):
                for nphase in (1, 2, 3, 4):
                    for nblock in (1, 2):
                        for mode in ((0, 1) if op == 2 else (0, 1, 2)):
                            n = 1 << d
                            e = d + rng.below(2) + (1 if op == 2 else 0)
                            next_ = (1 << e) if op == 2 else 0
                            rows = n if (op != 2 or mode == 1) else next_
                            data = nc.gen_data(rng, rows * ncols)
                            calls = [(op, n, next_, ncols, nphase, nblock, rng.below(2), mode, data)]
                            out.append((nc.seq_line(1 << max(d, e), 1, calls), "ntt"))
    stride = 7 if tier == "quick" else 2
    out += [(c["line"], "ntt-small") for c in cs[::stride]]
    out += [(c["line"], "ntt-history") for c in C19.histories(seed + 12, "quick")[:25 if tier == "quick" else 150]]
    out += [(c["line"], "merkle") for c in C08.make_cases(seed + 13, "quick") if c["line"].lstrip("!").startswith("mt")]
    out += [(c["line"], "parcpy") for c in C17.parcopy_cases(rng, "quick")[::3]]
    return out


def run(tier, seed):
    res = Result(PID, tier, seed)
    res.rule = ("request lines of the transform / Merkle / parcpy shape grids (plus transforms of 2^5..2^7 rows, thorough 2^10) executed "
                "(i) with the OpenMP stand-in running team members sequentially in permuted orders, team sizes 1,2,3,5,8 and 64 (more "
                "members than iterations) and a runtime granting only 1 or 2 of 5 requested members, 2 order seeds each (thorough 6), every output compared bit for bit with the one-member run; "
                "(ii) under ThreadSanitizer with the pthread stand-in, teams of 2,3,4; (iii) with real libgomp teams of 2,3,5,16 "
                "against 1; distinct = distinct (kind, team size, mode)")
    res.assumptions = ["race freedom of the COMPILED loop bodies is observed (TSan, permuted orders), not proved; the footprint theorems are about the "
                       "footprints written by hand from the loop bodies whose fingerprints are in tools/props/C12_loops.json; the C12_generated_* "
                       "theorems are about the loop bodies TRANSLATED from the current source (order independence at iteration granularity, "
                       "side conditions: power-of-two sizes, no 64-bit wrap of index products, object tables represented in the heap)",
                       "order independence is proved at iteration granularity; interleavings of individual accesses follow because every "
                       "location is written by at most one iteration and read by none other (data-race freedom)",
                       "poseidon hash calls inside the Merkle loops use per-iteration stack buffers only (observed by TSan)"]
    st = run_gen()
    standard_proof_phase(res, MODULE, "C12_", st, ["Scalar", "NttGen", "ParZeroGen", "PosScalar", "PosAvx2", "PosAvx512", "LinearHashGen", "MerkleGen"],
                         thorough=(tier == "thorough"))
    # ---- (1) the loops the footprints were written from
    fps, other = loop_fingerprints()
    known = json.load(open(LOOPS_FILE))
    res.extra["parallel_loops"] = len(fps)
    if other:
        res.broken.append(("OpenMP construct outside the modelled subset (parallel for, static schedule)", "\n".join(sorted(set(other)))))
    kn = [(k["file"], k["pragma"], k["sha"]) for k in known]
    cur = [(f, p, h) for f, p, h, _ in fps]
    if kn != cur:
        lines, superseded = [], []
        proofs_ok = not res.broken           # translation, build, audit, axioms of Props/C12.lean all fine
        same_shape = len(kn) == len(cur) and all(a[:2] == b[:2] or (i in LOOP_BRIDGED and a[0] == b[0] and pragma_shape(a[1]) == pragma_shape(b[1]) is not None)
                                                 for i, (a, b) in enumerate(zip(kn, cur)))
        for i in range(max(len(kn), len(cur))):
            a = kn[i] if i < len(kn) else None
            b = cur[i] if i < len(cur) else None
            if a != b:
                fam = known[i]["family"] if i < len(known) else "?"
                br = LOOP_BRIDGED.get(i)
                if (br and proofs_ok and same_shape and br[0] == b[0] and all(t in res.discharged for t in br[2])
                        and loop_in_function(br[0], br[1]) and loop_owner_index(br[0], br[1]) == i):
                    superseded.append("loop #%d (%s, the parallel loop of %s): %s differs from the footprint model's reference; %s re-proved on the "
                                      "regenerated loop body" % (i, fam, br[1], "text" if a[1] == b[1] else "num_threads argument (%s)" % b[1], ", ".join(br[2])))
                    continue
                lines.append("loop #%d (%s, footprint theorem %s): expected %s, current source has %s" % (i, fam, FAMILY_THEOREM.get(fam, "?"), a, b))
        if superseded:
            res.extra["parallel_loops_superseded"] = superseded
        if lines:
            res.broken.append(("parallel loop differs from the loop the footprint model was written from", "\n".join(lines[:12])))
    for t in set(FAMILY_THEOREM.values()):
        if t not in res.obligations:
            res.broken.append(("footprint theorem %s missing from Props/C12.lean" % t, ""))
    # ---- (2) observation
    lines = base_lines(seed, tier)
    seeds = 2 if tier == "quick" else 6
    hs, err = build_harness("ompseq")
    if err:
        res.broken.append(("harness build (ompseq)", err))
    else:
        reqs, meta = [], []
        for ln, kind in lines:
            b = with_threads(ln, 1)
            if b is None:
                continue
            reqs.append("@0:1:1 " + b)
            meta.append((ln, kind, 1, None))
            for t in (2, 3, 5, 8, 64):
                for sd in range(seeds):
                    reqs.append("@0:%d:%x %s" % (t, (seed * 7919 + sd * 104729 + t) & 0xFFFFFFFF, with_threads(ln, t if kind != "merkle" or sd else 0)))
                    meta.append((ln, kind, t, len(reqs) - 1))
            # a runtime that GRANTS fewer members than requested (nested region, thread limit): request 5, get 1 or 2
            for cap in (1, 2):
                reqs.append("@0:5:%x:%d %s" % ((seed * 31 + cap) & 0xFFFFFFFF, cap, with_threads(ln, 5)))
                meta.append((ln, kind, 100 + cap, len(reqs) - 1))
        out = run_parallel(hs, reqs, timeout=1800)
        base = None
        for (ln, kind, t, _), rq, r in zip(meta, reqs, out):
            res.note_case(rq[:200], "seq:%s:T=%d" % (kind, t))
            if t == 1:
                base = r
                continue
            if r != base:
                res.failures.append({"key": "order:" + kind, "lines": [rq[:8000]], "expected": "bit-identical to the one-member run: " + (base or "")[:200],
                                     "observed": (r or "")[:300], "note": ("sequential stand-in runtime, team of %d in a permuted order" % t) if t < 100 else
                                     ("stand-in runtime granting only %d member(s) of the 5 requested" % (t - 100))})
    ht, err = build_harness("tsan")
    if err:
        res.broken.append(("harness build (tsan)", err))
    else:
        env = dict(os.environ)
        env["TSAN_OPTIONS"] = "halt_on_error=1:exitcode=66:report_signal_unsafe=0"
        reqs = []
        sub = lines if tier == "thorough" else lines[::3]
        for ln, kind in sub:
            for t in ((2, 4) if tier == "quick" else (2, 3, 4)):
                b = with_threads(ln, t)
                if b is not None:
                    reqs.append(("@1:%d:1 %s" % (t, b), kind, t))
        out = run_parallel(ht, [r[0] for r in reqs], env=env, timeout=1800)
        for (rq, kind, t), r in zip(reqs, out):
            res.note_case(rq[:200], "tsan:%s:T=%d" % (kind, t))
            if r is None or r.startswith("err crash") or r.startswith("err hang") or "ThreadSanitizer" in (r or ""):
                res.failures.append({"key": "race:" + kind, "lines": [rq[:8000]], "expected": "no ThreadSanitizer report",
                                     "observed": (r or "no reply")[:300], "note": "ThreadSanitizer build over the pthread stand-in runtime, team of %d" % t})
    ho, err = build_harness("O1")
    if err:
        res.broken.append(("harness build (O1)", err))
    else:
        reqs, meta = [], []
        for ln, kind in lines[::2]:
            for t in (1, 2, 3, 5, 16):
                b = with_threads(ln, t)
                if b is not None:
                    reqs.append(b)
                    meta.append((kind, t))
        out = run_parallel(ho, reqs, timeout=1800)
        base = None
        for (kind, t), rq, r in zip(meta, reqs, out):
            res.note_case("gomp " + rq[:200], "gomp:%s:T=%d" % (kind, t))
            if t == 1:
                base = r
            elif r != base:
                res.failures.append({"key": "threads:" + kind, "lines": [rq[:8000]], "expected": "bit-identical to 1 thread: " + (base or "")[:200],
                                     "observed": (r or "")[:300], "note": "real libgomp, %d threads" % t})
    return res.finish()
