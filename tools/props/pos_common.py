"""shared reference code for C06/C07/C08: Python sponge / Merkle on poseidon_ref.permute"""
from common import *
import poseidon_ref as pr


def K():
    return pr.constants(SRC)


def perm(st):
    return pr.permute(st, K())


def sponge(inp):
    inp = [x % P for x in inp]
    if len(inp) <= 4:
        return inp + [0] * (4 - len(inp))
    cap = [0, 0, 0, 0]
    for i in range(0, len(inp), 8):
        blk = inp[i:i + 8]
        blk = blk + [0] * (8 - len(blk))
        cap = perm(blk + cap)[:4]
    return cap


def node(l8):
    return perm([x % P for x in l8] + [0, 0, 0, 0])[:4]


def merkle(leaves):
    """leaves: list of 4-word digests -> flat tree"""
    tree = [x for d in leaves for x in d]
    lvl = leaves
    while len(lvl) > 1:
        nxt = [node(lvl[2 * i] + lvl[2 * i + 1]) for i in range(len(lvl) // 2)]
        tree += [x for d in nxt for x in d]
        lvl = nxt
    return tree


def batch_leaf(row, cols, dim, batch):
    nb = (cols + batch - 1) // batch if cols > 0 else 1
    nlast = cols - (nb - 1) * batch
    parts = []
    for j in range(nb):
        nn = nlast if j == nb - 1 else batch
        parts += sponge(row[j * batch * dim: j * batch * dim + nn * dim])
    return sponge(parts)


def canon(v):
    return [x % P for x in v]
