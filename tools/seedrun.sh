#!/bin/bash
# usage: tools/seedrun.sh <seeded-name> <check-id>...   re-run checks against a stored seeded change (scratch worktree, /repo untouched)
name=$1; shift
W=/tmp/mut/_seedrun_$$
git -C /repo worktree add -q --detach $W HEAD || exit 2
git -C $W apply /verif/seeded/$name/patch.diff || { echo "patch does not apply"; git -C /repo worktree remove --force $W; exit 2; }
cd /verif
for id in "$@"; do
  echo "== $name -> $id"
  VERIF_REPO=$W VERIF_EVIDENCE_DIR=/tmp/seed_evidence timeout 3000 ./check $id --tier ${TIER:-quick} 2>&1 | grep -E "^(VIOLATION|OK|KNOWN)"
done
git -C /repo worktree remove --force $W
python3 tools/gen.py > /dev/null
