#!/bin/bash
# usage: tools/seedrun.sh <seeded-name> <check-id>...   re-run checks against a stored seeded change (scratch worktree, /repo untouched)
ROOT="$(cd "$(dirname "$0")/.." && pwd)"
name=$1; shift
W=/tmp/mut/_seedrun_$$
mkdir -p /tmp/mut
git -C /repo worktree add -q --detach $W HEAD || exit 2
git -C $W apply "$ROOT/seeded/$name/patch.diff" || { echo "patch does not apply"; git -C /repo worktree remove --force $W; exit 2; }
cd "$ROOT"
for id in "$@"; do
  echo "== $name -> $id"
  VERIF_REPO=$W VERIF_EVIDENCE_DIR=/tmp/seed_evidence_$$ timeout 3000 ./check $id --tier ${TIER:-quick} 2>&1 | grep -E "^(VIOLATION|OK|KNOWN)"
done
git -C /repo worktree remove --force $W
rm -rf /tmp/seed_evidence_$$
VERIF_REPO=/repo python3 tools/gen.py > /dev/null
