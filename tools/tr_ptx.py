#!/usr/bin/env python3
"""PTX inline asm of /repo/src/gl64_t.cuh  ->  Lean let-chains over GoldilocksVerif/Isa/Ptx.lean,
and the device / CPU root tables -> Lean `List Nat` literals.

What is read, on every run, from the CURRENT source tree (VERIF_REPO, default /repo):

* src/gl64_t.cuh is pre-processed textually by `clang++-14 -E -P` (include lines blanked, nothing else
  touched) once with -D__CUDA_ARCH__=800 and once with -D__CUDA_ARCH__=600, both with -D__USE_CUDA__ and
  GL64_PARTIALLY_REDUCED / GL64_NO_REDUCTION_KLUDGE undefined, which is this repository's configuration
  (the translator stops if the tree defines either macro anywhere).
* the member functions of `class gl64_t` named in TARGETS (and everything they call) are parsed with a
  small recursive-descent parser for exactly the C++ subset they use; every `asm(...)` statement is split
  into template / output operands / input operands, the template into PTX instructions, and each
  instruction becomes one `let` (a result tuple is bound first and projected with .1/.2, never a pattern-let).
  `CC.CF` is threaded explicitly and is *undefined at the start of every asm statement*; predicate
  registers live from `{ .reg.pred %p;` to `}` across asm statements.
* a function whose translation differs between the two architectures is emitted twice (`_sm70`, `_pre70`),
  and so is every function that (transitively) calls one; the others are emitted once.
* anything outside the supported subset raises PtxError: the module is recorded as not translated
  (STATUS.json) and every check that needs it reports a broken obligation.

Tables: `omegas`, `omegas_inv`, `domain_size_inverse` of src/ntt_goldilocks.cuh and `Goldilocks::W[33]`
of src/goldilocks_base_field.cpp (entries `Goldilocks::fromU64(<literal>)`, USE_MONTGOMERY must be 0).
"""
import os, re, sys, json, subprocess

HERE = os.path.dirname(os.path.abspath(__file__))
ROOT = os.path.dirname(HERE)
REPO = os.environ.get("VERIF_REPO", "/repo")
SRC = os.path.join(REPO, "src")
GEN_DIR = os.path.join(ROOT, "lean", "GoldilocksVerif", "Gen")
CLANG = os.environ.get("VERIF_CLANG", "clang++-14")

ARCHS = [("sm70", 800), ("pre70", 600)]


class PtxError(Exception):
    pass


def write_if_changed(path, text):
    os.makedirs(os.path.dirname(path), exist_ok=True)
    try:
        with open(path) as f:
            if f.read() == text:
                return False
    except FileNotFoundError:
        pass
    tmp = path + ".tmp%d" % os.getpid()
    with open(tmp, "w") as f:
        f.write(text)
    os.replace(tmp, path)
    return True


# ------------------------------------------------------------------------------------------------ source
def check_configuration():
    """this repository builds gl64_t with GL64_PARTIALLY_REDUCED and GL64_NO_REDUCTION_KLUDGE undefined"""
    bad = []
    pat = re.compile(r"(#\s*define\s+|-D\s*)(GL64_PARTIALLY_REDUCED|GL64_NO_REDUCTION_KLUDGE)\b")
    for d, _, fs in os.walk(REPO):
        if ".git" in d.split(os.sep) or os.sep + "build" in d:
            continue
        for fn in fs:
            if not (fn.endswith((".cu", ".cuh", ".hpp", ".h", ".cpp", ".mk", ".sh", ".txt", ".cmake")) or fn == "Makefile"):
                continue
            p = os.path.join(d, fn)
            try:
                txt = open(p, errors="replace").read()
            except OSError:
                continue
            for m in pat.finditer(txt):
                bad.append("%s defines %s" % (os.path.relpath(p, REPO), m.group(2)))
    return bad


def preprocess(path, arch):
    raw = open(path).read()
    blanked = re.sub(r"(?m)^[ \t]*#[ \t]*include[^\n]*$", "", raw)
    cmd = [CLANG, "-E", "-P", "-x", "c++", "-nostdinc", "-D__USE_CUDA__", "-D__CUDA_ARCH__=%d" % arch,
           "-UGL64_PARTIALLY_REDUCED", "-UGL64_NO_REDUCTION_KLUDGE", "-"]
    p = subprocess.run(cmd, input=blanked.encode(), stdout=subprocess.PIPE, stderr=subprocess.PIPE, timeout=120)
    if p.returncode != 0:
        raise PtxError("preprocessing %s failed: %s" % (path, p.stderr.decode()[-500:]))
    return p.stdout.decode()


TOKEN_RE = re.compile(r'''
   (?P<ws>\s+)
 | (?P<str>"(?:[^"\\]|\\.)*")
 | (?P<num>0[xX][0-9a-fA-F]+[uUlL]*|\d+[uUlL]*)
 | (?P<id>[A-Za-z_]\w*)
 | (?P<op>::|<<=|>>=|\+=|-=|\*=|/=|\^=|&=|\|=|==|!=|<=|>=|&&|\|\||<<|>>|\+\+|--|->|[{}()\[\];:,.<>+\-*/%^&|~!=?\#])
''', re.X)


def tokenize(text):
    toks, i, n = [], 0, len(text)
    while i < n:
        m = TOKEN_RE.match(text, i)
        if not m:
            raise PtxError("cannot tokenize near: %r" % text[i:i + 40])
        i = m.end()
        k = m.lastgroup
        if k == "ws":
            continue
        toks.append((k, m.group(k)))
    return toks


def tt(toks):
    return " ".join(t[1] for t in toks)


def match_close(toks, i, op="{", cl="}"):
    """toks[i] is `op`; index of the matching `cl`"""
    d = 0
    for j in range(i, len(toks)):
        if toks[j][1] == op:
            d += 1
        elif toks[j][1] == cl:
            d -= 1
            if d == 0:
                return j
    raise PtxError("unbalanced %s" % op)


TYPE_WORDS = {"uint64_t": "u64", "uint32_t": "u32", "unsigned": "u32", "int": "s32", "bool": "bool",
              "gl64_t": "gl64", "void": "void", "auto": "auto"}
QUALS = {"const", "static", "friend", "inline", "constexpr", "__device__", "__forceinline__", "__noinline__",
         "__host__", "volatile"}
LEAN_TY = {"u64": "BitVec 64", "u32": "BitVec 32", "s32": "BitVec 32", "bool": "Bool", "gl64": "BitVec 64"}
WIDTH = {"u64": 64, "u32": 32, "s32": 32}
LEAN_KEYWORDS = {"from", "to", "at", "fun", "end", "open", "in", "do", "then", "else", "if", "let", "have", "show",
                 "with", "match", "by", "where", "def", "theorem", "namespace", "section", "variable", "import"}


def lname(n):
    return n + "_" if n in LEAN_KEYWORDS else n


class Fn:
    pass


def parse_class(text):
    """-> (functions, constants)  from the pre-processed header"""
    toks = tokenize(text)
    consts = {}
    # namespace gl64_device { static __device__ __constant__ uint32_t W = 0xffffffffU; }
    for i in range(len(toks) - 2):
        if toks[i][1] == "namespace" and toks[i + 1][1] == "gl64_device" and toks[i + 2][1] == "{":
            j = match_close(toks, i + 2)
            body = toks[i + 3:j]
            s = tt(body)
            m = re.fullmatch(r"static __device__ __constant__ uint32_t W = (\w+) ;", s)
            if not m:
                raise PtxError("namespace gl64_device is not the single constant W: " + s[:200])
            consts["gl64_device::W"] = ("u32", parse_int(m.group(1)))
    start = None
    for i in range(len(toks) - 2):
        if toks[i][1] == "class" and toks[i + 1][1] == "gl64_t" and toks[i + 2][1] == "{":
            start = i + 2
            break
    if start is None:
        raise PtxError("class gl64_t not found (is the class still guarded by __USE_CUDA__ only?)")
    end = match_close(toks, start)
    body = toks[start + 1:end]
    fns = []
    i = 0
    n = len(body)
    while i < n:
        t = body[i][1]
        if t in ("public", "private", "protected") and i + 1 < n and body[i + 1][1] == ":":
            i += 2
            continue
        if t == ";":
            i += 1
            continue
        # header up to '{' or ';' at paren depth 0
        j, d = i, 0
        while j < n:
            x = body[j][1]
            if x == "(":
                d += 1
            elif x == ")":
                d -= 1
            elif d == 0 and x in ("{", ";"):
                break
            j += 1
        if j >= n:
            raise PtxError("class member without end: " + tt(body[i:i + 12]))
        header = body[i:j]
        if body[j][1] == ";":
            s = tt(header)
            m = re.fullmatch(r"static const (uint64_t|uint32_t|unsigned) (\w+) = (\w+)", s)
            if m:
                consts[m.group(2)] = ("u64" if m.group(1) == "uint64_t" else "u32", parse_int(m.group(3)))
            i = j + 1
            continue
        k = match_close(body, j)
        f = parse_header(header)
        if f is not None:
            f.body = body[j + 1:k]
            fns.append(f)
        i = k + 1
    return fns, consts


def parse_int(s):
    m = re.fullmatch(r"(0[xX][0-9a-fA-F]+|\d+)([uUlL]*)", s)
    if not m:
        raise PtxError("integer literal " + s)
    return int(m.group(1), 0)


def parse_header(h):
    """function header tokens -> Fn (or None for headers this translator never needs: templates)"""
    s = tt(h)
    if h and h[0][1] == "template":
        f = Fn()
        f.name, f.unsupported, f.header = "<template>", "template member", s
        return None
    # last top-level parenthesis group = parameter list
    close = None
    for j in range(len(h) - 1, -1, -1):
        if h[j][1] == ")":
            close = j
            break
    if close is None:
        return None
    d, openp = 0, None
    for j in range(close, -1, -1):
        if h[j][1] == ")":
            d += 1
        elif h[j][1] == "(":
            d -= 1
            if d == 0:
                openp = j
                break
    trailer = [t[1] for t in h[close + 1:]]
    f = Fn()
    f.header = s
    f.is_const = "const" in trailer
    if any(x not in ("const",) for x in trailer):
        f.bad_header = "trailer " + " ".join(trailer)
    pre = h[:openp]
    words = [t[1] for t in pre]
    if "operator" in words:
        oi = words.index("operator")
        f.name = "operator" + ("" if pre[oi + 1][0] == "op" else " ") + "".join(words[oi + 1:])
        rt = pre[:oi]
    else:
        f.name = words[-1]
        rt = pre[:-1]
    f.is_friend = "friend" in words
    f.is_static = "static" in words
    rtw = [t[1] for t in rt if t[1] not in QUALS]
    f.is_ctor = (f.name == "gl64_t" and not rtw)
    f.ret_ref = "&" in rtw
    rtw = [x for x in rtw if x != "&"]
    if f.is_ctor or f.name.startswith("operator "):
        f.ret = "gl64" if f.is_ctor else TYPE_WORDS.get(f.name.split(" ", 1)[1], "?")
    elif len(rtw) == 1 and rtw[0] in TYPE_WORDS:
        f.ret = TYPE_WORDS[rtw[0]]
    else:
        f.ret = "?" + " ".join(rtw)
    # parameters
    f.params = []
    ptoks = h[openp + 1:close]
    groups, cur, d = [], [], 0
    for t in ptoks:
        if t[1] in ("(", "[", "<"):
            d += 1
        elif t[1] in (")", "]", ">"):
            d -= 1
        if t[1] == "," and d == 0:
            groups.append(cur)
            cur = []
        else:
            cur.append(t)
    if cur:
        groups.append(cur)
    for g in groups:
        ws = [t[1] for t in g]
        p = {"text": " ".join(ws), "arr": None, "ref": False, "const": "const" in ws, "ptr": "*" in ws}
        ws2 = [x for x in ws if x not in QUALS]
        if "[" in ws2:
            bi = ws2.index("[")
            try:
                p["arr"] = parse_int(ws2[bi + 1])
            except (PtxError, IndexError):
                p["arr"] = -1
            ws2 = ws2[:bi]
        if "&" in ws2:
            p["ref"] = True
            ws2 = [x for x in ws2 if x != "&"]
        ws2 = [x for x in ws2 if x != "*"]
        if len(ws2) == 2 and ws2[0] in TYPE_WORDS:
            p["ty"], p["name"] = TYPE_WORDS[ws2[0]], ws2[1]
        else:
            p["ty"], p["name"] = "?", ws2[-1] if ws2 else "?"
        f.params.append(p)
    f.kind = "ctor" if f.is_ctor else ("free" if (f.is_friend or f.is_static) else "member")
    return f


def param_kind(p):
    if p["ptr"]:
        return "ptr"
    if p["arr"] is not None:
        return "arr%d" % p["arr"]
    return p["ty"]


# Lean names of the functions this module models; every one is a root, callees are pulled in on demand
TARGETS = {
    ("operator+=", ("gl64",), "member"): "add_assign",
    ("operator-=", ("gl64",), "member"): "sub_assign",
    ("cneg", ("bool",), "member"): "cneg",
    ("cneg", ("gl64", "bool"), "free"): "cneg_f",
    ("operator-", (), "member"): "neg",
    ("operator+", ("gl64", "gl64"), "free"): "plus",
    ("operator-", ("gl64", "gl64"), "free"): "minus",
    ("lo", (), "member"): "lo",
    ("hi", (), "member"): "hi",
    ("mul", ("gl64",), "member"): "mul_raw",
    ("reduce", ("arr4",), "member"): "reduce4",
    ("mul", ("u32",), "member"): "mul_u32_raw",
    ("reduce", (), "member"): "final_reduce",
    ("to", (), "member"): "to_",
    ("from", (), "member"): "from_",
    ("operator*", ("gl64", "gl64"), "free"): "mul",
    ("operator*=", ("gl64",), "member"): "mul_assign",
    ("operator*", ("gl64", "u32"), "free"): "mul_u32",
    ("operator*=", ("u32",), "member"): "mul_u32_assign",
    ("sqr", (), "member"): "sqr",
    ("sqr", ("gl64",), "free"): "sqr_f",
    ("gl64_t", ("u64",), "ctor"): "of_u64",
    ("operator uint64_t", (), "member"): "to_u64",
}


# ------------------------------------------------------------------------------------------------ PTX
def parse_template(tpl):
    """-> list of ('open',) ('close',) ('pred', [names]) ('ins', guard|None, opcode, [operands])
       operands: ('op', n) ('preg', name) ('imm', v) ('vec', [operands])"""
    items = []
    for raw in tpl.split(";"):
        s = raw.strip()
        while s:
            if s[0] == "{" and not re.match(r"^\{\s*%", s):
                items.append(("open",))
                s = s[1:].strip()
                continue
            break
        if not s:
            continue
        if s == "}":
            items.append(("close",))
            continue
        m = re.fullmatch(r"\.reg\s*\.pred\s+(.*)", s)
        if m:
            names = [x.strip() for x in m.group(1).split(",")]
            for x in names:
                if not re.fullmatch(r"%[A-Za-z_]\w*", x):
                    raise PtxError("predicate declaration " + s)
            items.append(("pred", [x[1:] for x in names]))
            continue
        guard = None
        m = re.match(r"^@(!?)%([A-Za-z_]\w*)\s+(.*)$", s)
        if m:
            guard = (m.group(2), m.group(1) == "!")
            s = m.group(3).strip()
        m = re.match(r"^([a-z][\w.]*)\s*(.*)$", s)
        if not m:
            raise PtxError("PTX statement not understood: %r" % raw.strip())
        opcode, rest = m.group(1), m.group(2).strip()
        ops = []
        if rest:
            parts, cur, d = [], "", 0
            for ch in rest:
                if ch == "{":
                    d += 1
                elif ch == "}":
                    d -= 1
                if ch == "," and d == 0:
                    parts.append(cur)
                    cur = ""
                else:
                    cur += ch
            parts.append(cur)
            for p in parts:
                ops.append(parse_operand(p.strip(), raw))
        items.append(("ins", guard, opcode, ops))
    return items


def parse_operand(p, raw):
    if re.fullmatch(r"%\d+", p):
        return ("op", int(p[1:]))
    if re.fullmatch(r"%[A-Za-z_]\w*", p):
        return ("preg", p[1:])
    if re.fullmatch(r"0[xX][0-9a-fA-F]+|\d+", p):
        return ("imm", int(p, 0))
    m = re.fullmatch(r"\{(.*)\}", p)
    if m:
        return ("vec", [parse_operand(x.strip(), raw) for x in m.group(1).split(",")])
    raise PtxError("PTX operand %r in %r" % (p, raw.strip()))


ARITH_TYPES = {"u32": 32, "u64": 64, "s32": 32, "s64": 64}
BIT_TYPES = {"b32": 32, "b64": 64, "u32": 32, "u64": 64, "s32": 32, "s64": 64}


# ------------------------------------------------------------------------------------------------ C++ subset
class V:
    """value of an expression: Lean term, type, optional lvalue"""
    def __init__(self, term, ty, lv=None, lit=None):
        self.term, self.ty, self.lv, self.lit = term, ty, lv, lit


class Tr:
    """translation of one function for one architecture"""

    def __init__(self, unit, fn):
        self.u = unit
        self.fn = fn
        self.lines = []
        self.vars = {}          # C++ name -> dict(ty, arr, defined(bool | list), dead, ref)
        self.preds = None       # predicate registers in scope: name -> defined
        self.val_written = False
        self.callees = []
        self.notes = []
        self.toks = fn.body
        self.i = 0
        self.result = None
        self.n_asm = 0
        self.n_ins = 0

    # ---- helpers
    def err(self, msg):
        raise PtxError("%s: %s" % (self.fn.header, msg))

    def emit(self, s):
        self.lines.append("  " + s)

    def peek(self, k=0):
        return self.toks[self.i + k][1] if self.i + k < len(self.toks) else None

    def next(self):
        t = self.toks[self.i]
        self.i += 1
        return t

    def expect(self, s):
        if self.peek() != s:
            self.err("expected %r near: %s" % (s, tt(self.toks[max(0, self.i - 6):self.i + 6])))
        self.i += 1

    def declare(self, name, ty, arr=None, defined=False, ref=False):
        if re.fullmatch(r"r\d+|cf|t|p_\w+|c_\w+", name):
            self.err("C++ identifier %s clashes with a name the translator generates" % name)
        if name in self.vars:
            self.err("redeclaration of " + name)
        self.vars[name] = {"ty": ty, "arr": arr, "dead": False, "ref": ref,
                           "defined": ([defined] * arr if arr is not None else defined)}

    def vname(self, name, idx=None):
        return lname(name) if idx is None else "%s_%d" % (name, idx)

    def read_var(self, name, idx=None):
        v = self.vars[name]
        if v["dead"]:
            self.err("read of %s after it was passed to a callee that may overwrite it" % name)
        ok = v["defined"] if idx is None else v["defined"][idx]
        if not ok:
            self.err("read of uninitialised %s" % self.vname(name, idx))
        if v["ref"] and self.val_written:
            self.err("reference parameter %s is read after *this was written: the aliasing case (x op= x) is not modelled" % name)
        return self.vname(name, idx)

    def write_lv(self, lv, term):
        kind = lv[0]
        if kind == "var":
            v = self.vars[lv[1]]
            if v["ref"] or v.get("constparam"):
                self.err("write to parameter " + lv[1])
            self.emit("let %s : %s := %s" % (self.vname(lv[1]), LEAN_TY[v["ty"]], term))
            v["defined"] = True
            if lv[1] == "val":
                self.val_written = True
        elif kind == "elem":
            v = self.vars[lv[1]]
            self.emit("let %s : %s := %s" % (self.vname(lv[1], lv[2]), LEAN_TY[v["ty"]], term))
            v["defined"][lv[2]] = True
        else:
            self.err("assignment target")

    # ---- expressions
    def convert(self, v, ty):
        """implicit / explicit integer conversion of value v to type ty"""
        v = self.value(v)
        if v.ty == ty:
            return v
        if v.lit is not None and ty in WIDTH:
            return V("%d#%d" % (v.lit % (1 << WIDTH[ty]), WIDTH[ty]), ty, lit=v.lit % (1 << WIDTH[ty]))
        if v.ty in ("u32", "s32") and ty in ("u32", "s32"):
            return V(v.term, ty)
        if v.ty == "u64" and ty in ("u32", "s32"):
            return V("(Cpp.trunc32 %s)" % v.term, ty)
        if v.ty == "u32" and ty == "u64":
            return V("(Cpp.zext64 %s)" % v.term, ty)
        if v.ty == "bool" and ty in ("u32", "s32"):
            return V("(Cpp.ofBool32 %s)" % v.term, ty)
        if v.lit is not None and ty == "bool" and v.lit in (0, 1):
            return V("true" if v.lit else "false", "bool")
        self.err("conversion %s -> %s of %s" % (v.ty, ty, v.term))

    def common(self, a, b):
        if a.lit is not None and b.lit is None:
            return self.convert(a, b.ty if b.ty in WIDTH else "s32"), b
        if b.lit is not None and a.lit is None:
            return a, self.convert(b, a.ty if a.ty in WIDTH else "s32")
        rank = {"bool": 0, "s32": 1, "u32": 2, "u64": 3}
        if a.ty not in rank or b.ty not in rank:
            self.err("arithmetic on %s and %s" % (a.ty, b.ty))
        ty = a.ty if rank[a.ty] >= rank[b.ty] else b.ty
        if ty == "bool":
            ty = "s32"
        return self.convert(a, ty), self.convert(b, ty)

    def expr(self):
        return self.assign()

    def assign(self):
        l = self.binary(0)
        op = self.peek()
        if op in ("=", "+=", "-=", "*="):
            self.next()
            r = self.assign()
            if op == "=":
                if l.lv is None:
                    self.err("assignment to a non-lvalue")
                if l.lv[0] == "obj":
                    if r.ty != "gl64":
                        self.err("assignment of %s to a gl64_t" % r.ty)
                    self.assign_obj(l.lv[1], r.term)
                    return l
                r = self.convert(r, l.ty)
                self.write_lv(l.lv, r.term)
                return V(self.vname(*l.lv[1:]), l.ty, l.lv)
            if l.ty != "gl64":
                self.err("compound assignment %s on %s" % (op, l.ty))
            return self.method_call(l, "operator" + op, [r])
        return l

    BIN = [("==", 1), ("!=", 1), ("<<", 2), (">>", 2), ("+", 3), ("-", 3), ("*", 4)]

    def binary(self, minp):
        l = self.unary()
        while True:
            op = self.peek()
            prec = dict(self.BIN).get(op)
            if prec is None or prec < minp:
                return l
            self.next()
            r = self.binary(prec + 1)
            l = self.binop(op, l, r)

    def binop(self, op, a, b):
        a, b = self.value(a), self.value(b)
        if a.ty == "gl64" or b.ty == "gl64":
            if op in ("+", "-", "*") and a.ty == "gl64":
                return self.free_call("operator" + op, [a, b])
            self.err("operator %s on gl64_t" % op)
        if op == ">>":
            if b.lit is None or a.ty != "u64" or not (0 <= b.lit < 64):
                self.err("shift other than uint64_t >> literal")
            return V("(Cpp.shr64 %s %d)" % (a.term, b.lit), "u64")
        if op in ("+", "-"):
            if a.lit is not None and b.lit is not None:
                self.err("literal arithmetic")
            a, b = self.common(a, b)
            return V("(Cpp.%s %s %s)" % ("add" if op == "+" else "sub", a.term, b.term), a.ty)
        if op in ("==", "!="):
            a, b = self.common(a, b)
            return V("(Cpp.%s %s %s)" % ("eq" if op == "==" else "ne", a.term, b.term), "bool")
        self.err("operator " + op)

    def unary(self):
        t = self.peek()
        if t == "-":
            self.next()
            v = self.value(self.unary())
            if v.ty == "gl64":
                return self.method_call(v, "operator-", [])
            if v.ty not in ("u32", "u64"):
                self.err("unary minus on %s" % v.ty)
            return V("(Cpp.neg %s)" % v.term, v.ty)
        if t == "*" and self.peek(1) == "this":
            self.next()
            self.next()
            return self.this_obj()
        if t == "(" and self.peek(1) in TYPE_WORDS and self.peek(2) == ")" and self.peek(1) not in ("gl64_t", "void", "auto"):
            self.next()
            ty = TYPE_WORDS[self.next()[1]]
            self.next()
            v = self.unary()
            return self.convert(v, ty)
        return self.postfix()

    def this_obj(self):
        if self.fn.kind == "free":
            self.err("`this` in a non-member")
        return V(self.read_var("val"), "gl64", ("obj", "val"))

    def postfix(self):
        v = self.primary()
        while True:
            t = self.peek()
            if t == ".":
                self.next()
                k, name = self.next()
                if k != "id":
                    self.err("member name")
                if v.ty != "gl64":
                    self.err("member access on %s" % v.ty)
                if self.peek() == "(":
                    args = self.args()
                    v = self.method_call(v, name, args)
                elif name == "val":
                    v = V(v.term, "u64", ("var", v.lv[1]) if v.lv else None)
                else:
                    self.err("member " + name)
            elif t == "[":
                self.next()
                idx = self.expr()
                self.expect("]")
                if v.lv is None or v.lv[0] != "arr" or idx.lit is None:
                    self.err("subscript (only constant indices into local arrays)")
                arr = self.vars[v.lv[1]]
                if not (0 <= idx.lit < arr["arr"]):
                    self.err("index %d out of bounds of %s[%d]" % (idx.lit, v.lv[1], arr["arr"]))
                v = V(None, arr["ty"], ("elem", v.lv[1], idx.lit))
            else:
                return self.rvalue_ready(v)

    def rvalue_ready(self, v):
        return v

    def value(self, v):
        """force an rvalue (reads the variable)"""
        if v.term is not None or v.lit is not None:
            return v
        if v.lv and v.lv[0] == "elem":
            return V(self.read_var(v.lv[1], v.lv[2]), v.ty, v.lv)
        if v.lv and v.lv[0] == "var":
            return V(self.read_var(v.lv[1]), v.ty, v.lv)
        self.err("value of an array")

    def args(self):
        self.expect("(")
        res = []
        if self.peek() == ")":
            self.next()
            return res
        while True:
            res.append(self.expr())
            if self.peek() == ",":
                self.next()
                continue
            self.expect(")")
            return res

    def primary(self):
        k, t = self.next()
        if k == "num":
            return V(None, "lit", lit=parse_int(t))
        if t in ("true", "false"):
            return V(t, "bool")
        if t == "(":
            v = self.expr()
            self.expect(")")
            return v
        if t == "this" and self.peek() == "->":
            self.next()
            k2, n2 = self.next()
            if n2 != "val":
                self.err("this->" + n2)
            return V(None, "u64", ("var", "val"))
        if k == "id":
            name = t
            while self.peek() == "::":
                self.next()
                name += "::" + self.next()[1]
            if self.peek() == "(":
                args = self.args()
                if self.fn.kind != "free" and self.u.has_member(name):
                    return self.method_call(self.this_obj_lv(), name, args)
                return self.free_call(name, args)
            if name in self.vars:
                v = self.vars[name]
                if v["arr"] is not None:
                    return V(None, "arr%d" % v["arr"], ("arr", name))
                if v["ty"] == "gl64":
                    return V(self.read_var(name), "gl64", ("obj", name))
                return V(None, v["ty"], ("var", name))
            if name in self.u.consts:
                ty, val = self.u.consts[name]
                self.u.used_consts.add(name)
                return V("c_" + name.split("::")[-1], ty)
            self.err("unknown identifier " + name)
        self.err("expression near %r" % t)

    def this_obj_lv(self):
        # object expression for an implicit-this call; `val` may still be unset inside a constructor
        return V(self.vname("val"), "gl64", ("obj", "val"))

    # ---- calls
    def arg_kinds(self, args):
        ks = []
        for a in args:
            if a.ty == "lit":
                ks.append("lit")
            else:
                ks.append(a.ty)
        return ks

    def resolve(self, name, kinds, kind):
        cands = []
        for f in self.u.fns:
            if f.name != name or f.kind != kind or len(f.params) != len(kinds):
                continue
            ok = True
            for p, k in zip(f.params, kinds):
                pk = param_kind(p)
                if k == pk or (k == "lit" and pk in ("u32", "u64", "s32")) or (k == "s32" and pk == "u32") or (k == "u32" and pk == "s32"):
                    continue
                ok = False
            if ok:
                cands.append(f)
        if len(cands) != 1:
            self.err("call %s(%s): %d candidate %s functions (implicit conversions are not modelled)" % (
                name, ", ".join(kinds), len(cands), kind))
        return cands[0]

    def lower_args(self, f, args):
        terms = []
        dead = []
        for p, a in zip(f.params, args):
            pk = param_kind(p)
            if pk.startswith("arr"):
                if a.lv is None or a.lv[0] != "arr":
                    self.err("array argument")
                n = self.vars[a.lv[1]]["arr"]
                for j in range(n):
                    terms.append(self.read_var(a.lv[1], j))
                dead.append(a.lv[1])
            elif pk == "gl64":
                if p["ref"] and not p["const"]:
                    self.err("non-const gl64_t& parameter")
                terms.append(self.value(a).term)
            else:
                terms.append(self.convert(self.value(a), pk).term)
        return terms, dead

    def method_call(self, obj, name, args):
        f = self.resolve(name, self.arg_kinds(args), "member")
        info = self.u.need(f)
        terms, dead = self.lower_args(f, args)
        if obj.lv is None or obj.lv[0] != "obj":
            self.err("method call on a temporary")
        oname = obj.lv[1]
        ov = self.vars[oname]
        if not ov["defined"]:
            self.err("method %s called on uninitialised object %s" % (name, oname))
        if ov["ref"] and self.val_written:
            self.err("reference parameter %s used after *this was written (aliasing not modelled)" % oname)
        call = " ".join([info["ref"], self.vname(oname)] + terms)
        self.callees.append(info["key"])
        for d in dead:
            self.vars[d]["dead"] = True
        if info["mut"]:
            if ov["ref"]:
                self.err("mutating call %s on const reference %s" % (name, oname))
            self.emit("let %s : BitVec 64 := %s" % (self.vname(oname), call))
            if oname == "val" and info["writes_val"]:
                self.val_written = True
            if f.ret == "void":
                return V(None, "void")
            return V(self.vname(oname), "gl64", ("obj", oname))
        # const member returning a value
        return V("(%s)" % call, f.ret)

    def free_call(self, name, args):
        f = self.resolve(name, self.arg_kinds(args), "free")
        info = self.u.need(f)
        terms, dead = self.lower_args(f, args)
        self.callees.append(info["key"])
        return V("(%s)" % " ".join([info["ref"]] + terms), f.ret)

    def assign_obj(self, oname, term):
        v = self.vars[oname]
        if v["ref"]:
            self.err("assignment to reference parameter")
        self.emit("let %s : BitVec 64 := %s" % (self.vname(oname), term))
        v["defined"] = True
        if oname == "val":
            self.val_written = True

    # ---- statements
    def run(self):
        f = self.fn
        if getattr(f, "bad_header", None):
            self.err("unsupported declarator: " + f.bad_header)
        if f.kind in ("member", "ctor"):
            self.declare("val", "u64", defined=(f.kind == "member"))
            self.vars["val"]["ty"] = "u64"
        for p in f.params:
            pk = param_kind(p)
            if pk == "ptr" or p["ty"] == "?" or (p["arr"] is not None and p["arr"] < 0):
                self.err("parameter `%s`" % p["text"])
            if p["ref"] and not p["const"]:
                self.err("non-const reference parameter `%s`" % p["text"])
            self.declare(p["name"], p["ty"], arr=p["arr"], defined=True, ref=(p["ref"] and p["ty"] == "gl64"))
            if p["ty"] != "gl64" and p["arr"] is None and p["const"]:
                self.vars[p["name"]]["constparam"] = True
        done = False
        while self.i < len(self.toks):
            if done:
                self.err("statement after return")
            done = self.statement()
        if self.preds is not None:
            self.err("predicate scope `{ .reg.pred` not closed at the end of the function")
        if self.result is None:
            if f.ret == "void" or f.kind == "ctor":
                if f.kind == "free":
                    self.err("void free function")
                self.result = self.read_var("val") if f.kind == "member" else self._ctor_result()
                self.ret_ty = "u64"
            else:
                self.err("no return statement")

    def _ctor_result(self):
        if not self.vars["val"]["defined"]:
            self.err("constructor leaves val uninitialised")
        return self.vname("val")

    def statement(self):
        t = self.peek()
        if t in ("__asm__", "asm"):
            self.asm_stmt()
            return False
        if t == "return":
            self.next()
            v = self.expr()
            self.expect(";")
            self.finish_return(v)
            return True
        if t in TYPE_WORDS and self.toks[self.i + 1][0] == "id":
            self.decl()
            return False
        if t in ("if", "while", "for", "do", "switch", "#", "goto", "{"):
            self.err("unsupported statement `%s ...`" % tt(self.toks[self.i:self.i + 8]))
        self.expr()
        self.expect(";")
        return False

    def finish_return(self, v):
        f = self.fn
        if f.kind == "member" and not f.is_const:
            if not (f.ret == "gl64" and f.ret_ref and v.lv == ("obj", "val")):
                self.err("a mutating member must be void or `return *this`")
            self.result = self.read_var("val")
            self.ret_ty = "u64"
            return
        if f.ret == "gl64":
            if v.ty != "gl64":
                self.err("return of %s from a function returning gl64_t (implicit constructor not modelled)" % v.ty)
            self.result = v.term
        else:
            v = self.convert(self.value(v), f.ret)
            self.result = v.term
        self.ret_ty = f.ret

    def decl(self):
        ty = TYPE_WORDS[self.next()[1]]
        while True:
            k, name = self.next()
            if k != "id":
                self.err("declarator")
            if self.peek() == "[":
                self.next()
                n = self.expr()
                self.expect("]")
                if n.lit is None or ty not in ("u32",):
                    self.err("array declaration")
                self.declare(name, ty, arr=n.lit)
            elif self.peek() == "=":
                self.next()
                v = self.binary(0)
                if ty in ("auto", "gl64"):
                    if v.ty != "gl64":
                        self.err("initialisation of gl64_t from %s (implicit constructor not modelled)" % v.ty)
                    self.declare(name, "gl64")
                    self.assign_obj(name, v.term)
                else:
                    v = self.convert(self.value(v), ty)
                    self.declare(name, ty)
                    self.write_lv(("var", name), v.term)
            else:
                if ty in ("auto", "void", "bool"):
                    self.err("declaration of %s %s" % (ty, name))
                self.declare(name, ty)
            if self.peek() == ",":
                self.next()
                continue
            self.expect(";")
            return

    # ---- asm
    def asm_stmt(self):
        start = self.i
        self.next()
        while self.peek() in ("__volatile__", "volatile"):
            self.next()
        if self.peek() != "(":
            self.err("asm syntax")
        close = match_close(self.toks, self.i, "(", ")")
        inner = self.toks[self.i + 1:close]
        text = tt(self.toks[start:close + 1])
        # sections at depth 0 separated by ':' (a '::' token is two separators)
        secs, cur, d = [], [], 0
        for tk in inner:
            if tk[1] in ("(", "["):
                d += 1
            elif tk[1] in (")", "]"):
                d -= 1
            if d == 0 and tk[1] == ":":
                secs.append(cur)
                cur = []
            elif d == 0 and tk[1] == "::":
                secs.append(cur)
                secs.append([])
                cur = []
            else:
                cur.append(tk)
        secs.append(cur)
        if len(secs) > 3 and secs[3]:
            self.err("asm clobber list is not supported: " + text)
        if len(secs) > 4:
            self.err("asm goto labels: " + text)
        while len(secs) < 3:
            secs.append([])
        if not secs[0] or any(k != "str" for k, _ in secs[0]):
            self.err("asm template is not a string literal: " + text)
        tpl = "".join(s[1:-1] for _, s in secs[0])
        if "\\" in tpl:
            self.err("escape sequence in asm template: " + text)
        save_toks, save_i = self.toks, self.i

        def operands(sec):
            res = []
            j = 0
            while j < len(sec):
                if sec[j][0] != "str" or j + 1 >= len(sec) or sec[j + 1][1] != "(":
                    self.err("asm operand list malformed near `%s` in: %s" % (tt(sec[j:j + 4]), text))
                c = match_close(sec, j + 1, "(", ")")
                res.append((sec[j][1][1:-1], sec[j + 2:c]))
                j = c + 1
                if j < len(sec):
                    if sec[j][1] != ",":
                        self.err("asm operand list: expected `,` before `%s` in: %s" % (tt(sec[j:j + 3]), text))
                    j += 1
            return res
        outs, ins = operands(secs[1]), operands(secs[2])
        self.n_asm += 1
        ops = []

        def sub_expr(toks):
            self.toks, self.i = toks, 0
            v = self.expr()
            if self.i != len(toks):
                self.err("operand expression `%s`" % tt(toks))
            return v
        try:
            seen_lv = set()
            for c, et in outs:
                m = re.fullmatch(r"([=+])(&?)([lr])", c)
                if not m:
                    self.err("output constraint %r in: %s" % (c, text))
                w = 64 if m.group(3) == "l" else 32
                v = sub_expr(et)
                lv = v.lv
                if lv is None or lv[0] not in ("var", "elem") or v.ty not in WIDTH:
                    self.err("asm output operand `%s` is not an integer lvalue" % tt(et))
                if WIDTH[v.ty] != w:
                    self.err("constraint %r on a %d-bit operand `%s`" % (c, WIDTH[v.ty], tt(et)))
                if lv in seen_lv:
                    self.err("two asm outputs name the same object")
                seen_lv.add(lv)
                o = {"w": w, "out": True, "rw": m.group(1) == "+", "early": m.group(2) == "&", "lv": lv, "ty": v.ty,
                     "defined": False, "text": tt(et)}
                ops.append(o)
            for c, et in ins:
                if c not in ("l", "r"):
                    self.err("input constraint %r in: %s" % (c, text))
                w = 64 if c == "l" else 32
                v = self.value(sub_expr(et))
                if v.ty == "lit":
                    self.err("bare literal asm operand `%s`" % tt(et))
                if v.ty not in WIDTH or WIDTH[v.ty] != w:
                    self.err("constraint %r on operand `%s` of type %s" % (c, tt(et), v.ty))
                ops.append({"w": w, "out": False, "rw": False, "term": v.term, "defined": True, "text": tt(et)})
        finally:
            self.toks, self.i = save_toks, save_i
        self.i = close + 1
        self.expect(";")
        # bind operands (all reads happen before the first instruction)
        for n, o in enumerate(ops):
            if o["out"] and o["rw"]:
                src = self.read_var(*o["lv"][1:])
                self.emit("let r%d : BitVec %d := %s" % (n, o["w"], src))
                o["defined"] = True
            elif not o["out"]:
                self.emit("let r%d : BitVec %d := %s" % (n, o["w"], o["term"]))
        self.run_ptx(tpl, ops, text)
        for n, o in enumerate(ops):
            if o["out"]:
                if not o["defined"]:
                    self.err("asm output %%%d is never written: %s" % (n, text))
                self.write_lv(o["lv"], "r%d" % n)

    def run_ptx(self, tpl, ops, text):
        try:
            items = parse_template(tpl)
        except PtxError as e:
            self.err("%s   in: %s" % (e, text))
        cf = [False]
        first_write = {}
        last_read = {}

        def src(o, w, pos):
            if o[0] == "op":
                if o[1] >= len(ops):
                    self.err("operand %%%d does not exist: %s" % (o[1], text))
                q = ops[o[1]]
                if q["w"] != w:
                    self.err("%d-bit operand %%%d used by a %d-bit instruction: %s" % (q["w"], o[1], w, text))
                if not q["defined"]:
                    self.err("operand %%%d read before it is written: %s" % (o[1], text))
                if not q["out"]:
                    last_read[o[1]] = pos
                return "r%d" % o[1]
            if o[0] == "imm":
                if not (0 <= o[1] < (1 << w)):
                    self.err("immediate out of range: " + text)
                return "%d#%d" % (o[1], w)
            self.err("source operand %r: %s" % (o, text))

        def dst(o, w, pos):
            if o[0] != "op":
                self.err("destination operand %r: %s" % (o, text))
            q = ops[o[1]] if o[1] < len(ops) else None
            if q is None or not q["out"]:
                self.err("instruction writes %%%d, which is not an output operand: %s" % (o[1], text))
            if q["w"] != w:
                self.err("%d-bit destination %%%d of a %d-bit instruction: %s" % (q["w"], o[1], w, text))
            first_write.setdefault(o[1], pos)
            return o[1]

        def pred_read(name):
            if self.preds is None or name not in self.preds:
                self.err("predicate %%%s is not declared in an open `{ .reg.pred` scope: %s" % (name, text))
            if not self.preds[name]:
                self.err("predicate %%%s read before it is set: %s" % (name, text))
            return "p_" + name

        def need_cf():
            if not cf[0]:
                self.err("CC.CF is read but no instruction of this asm statement has set it: " + text)

        for pos, it in enumerate(items):
            if it[0] == "open":
                if self.preds is not None:
                    self.err("nested `{` scope: " + text)
                self.preds = {}
                continue
            if it[0] == "close":
                if self.preds is None:
                    self.err("`}` without `{`: " + text)
                self.preds = None
                continue
            if it[0] == "pred":
                if self.preds is None:
                    self.err(".reg.pred outside a `{` scope: " + text)
                for nm in it[1]:
                    self.preds[nm] = False
                continue
            _, guard, opcode, oo = it
            self.n_ins += 1
            parts = opcode.split(".")
            base, mods, ty = parts[0], parts[1:-1], parts[-1]
            g = None
            if guard:
                g = pred_read(guard[0])
                if guard[1]:
                    g = "(!%s)" % g

            def put(di, w, term):
                """write a plain (non-CC) result"""
                q = ops[di]
                if g is not None:
                    if not q["defined"]:
                        self.err("guarded write to %%%d, which holds no value yet: %s" % (di, text))
                    term = "Ptx.guard %s (%s) r%d" % (g, term, di)
                self.emit("let r%d : BitVec %d := %s" % (di, w, term))
                q["defined"] = True

            def put_cc(di, w, term):
                if g is not None:
                    self.err("guarded instruction writing CC.CF: " + text)
                self.emit("let t : BitVec %d × Bool := %s" % (w, term))
                self.emit("let r%d : BitVec %d := t.1" % (di, w))
                self.emit("let cf : Bool := t.2")
                ops[di]["defined"] = True
                cf[0] = True

            def arity(n):
                if len(oo) != n:
                    self.err("%s takes %d operands: %s" % (opcode, n, text))

            if base in ("add", "sub", "addc", "subc") and ty in ARITH_TYPES and mods in ([], ["cc"]):
                arity(3)
                w = ARITH_TYPES[ty]
                a, b = src(oo[1], w, pos), src(oo[2], w, pos)
                d = dst(oo[0], w, pos)
                carry_in = base in ("addc", "subc")
                if carry_in:
                    need_cf()
                fn = "Ptx." + base + ("_cc" if mods else "")
                term = "%s %s %s%s" % (fn, a, b, " cf" if carry_in else "")
                (put_cc if mods else put)(d, w, term)
            elif base == "mul" and mods in (["lo"], ["hi"]) and ty in ("u32", "u64"):
                arity(3)
                w = ARITH_TYPES[ty]
                a, b = src(oo[1], w, pos), src(oo[2], w, pos)
                put(dst(oo[0], w, pos), w, "Ptx.mul_%s %s %s" % (mods[0], a, b))
            elif base == "mul" and mods == ["wide"] and ty == "u32":
                arity(3)
                a, b = src(oo[1], 32, pos), src(oo[2], 32, pos)
                put(dst(oo[0], 64, pos), 64, "Ptx.mul_wide_u32 %s %s" % (a, b))
            elif base in ("mad", "madc") and mods and mods[0] in ("lo", "hi") and mods[1:] in ([], ["cc"]) and ty in ("u32", "u64"):
                arity(4)
                w = ARITH_TYPES[ty]
                a, b, c = src(oo[1], w, pos), src(oo[2], w, pos), src(oo[3], w, pos)
                d = dst(oo[0], w, pos)
                if base == "madc":
                    need_cf()
                fn = "Ptx.%s_%s%s" % (base, mods[0], "_cc" if len(mods) == 2 else "")
                term = "%s %s %s %s%s" % (fn, a, b, c, " cf" if base == "madc" else "")
                (put_cc if len(mods) == 2 else put)(d, w, term)
            elif base == "setp" and len(mods) == 1:
                arity(3)
                cmp_ = mods[0]
                if cmp_ in ("eq", "ne") and ty in BIT_TYPES:
                    fn = "Ptx.setp_" + cmp_
                elif ty in ("u32", "u64") and cmp_ in ("lt", "le", "gt", "ge", "lo", "ls", "hi", "hs"):
                    fn = "Ptx.setp_%s_u" % {"lo": "lt", "ls": "le", "hi": "gt", "hs": "ge"}.get(cmp_, cmp_)
                else:
                    self.err("comparison %s: %s" % (opcode, text))
                w = BIT_TYPES[ty]
                a, b = src(oo[1], w, pos), src(oo[2], w, pos)
                if oo[0][0] != "preg" or self.preds is None or oo[0][1] not in self.preds:
                    self.err("setp destination is not a declared predicate: " + text)
                pn = oo[0][1]
                term = "%s %s %s" % (fn, a, b)
                if g is not None:
                    if not self.preds[pn]:
                        self.err("guarded setp into an unset predicate: " + text)
                    term = "Ptx.guard %s (%s) p_%s" % (g, term, pn)
                self.emit("let p_%s : Bool := %s" % (pn, term))
                self.preds[pn] = True
            elif base == "selp" and not mods and ty in BIT_TYPES:
                arity(4)
                w = BIT_TYPES[ty]
                a, b = src(oo[1], w, pos), src(oo[2], w, pos)
                if oo[3][0] != "preg":
                    self.err("selp predicate operand: " + text)
                p = pred_read(oo[3][1])
                put(dst(oo[0], w, pos), w, "Ptx.selp %s %s %s" % (a, b, p))
            elif base == "mov" and not mods and ty in BIT_TYPES:
                arity(2)
                w = BIT_TYPES[ty]
                if oo[1][0] == "vec":
                    if w != 64 or len(oo[1][1]) != 2:
                        self.err("vector mov: " + text)
                    lo, hi = src(oo[1][1][0], 32, pos), src(oo[1][1][1], 32, pos)
                    put(dst(oo[0], 64, pos), 64, "Ptx.pack64 %s %s" % (lo, hi))
                elif oo[0][0] == "vec":
                    if w != 64 or len(oo[0][1]) != 2:
                        self.err("vector mov: " + text)
                    a = src(oo[1], 64, pos)
                    d0, d1 = dst(oo[0][1][0], 32, pos), dst(oo[0][1][1], 32, pos)
                    if d0 == d1:
                        self.err("vector mov into one register twice: " + text)
                    put(d0, 32, "Ptx.unpack_lo %s" % a)
                    put(d1, 32, "Ptx.unpack_hi %s" % a)
                else:
                    a = src(oo[1], w, pos)
                    put(dst(oo[0], w, pos), w, a)
            elif base in ("and", "or", "xor") and not mods and ty in ("b32", "b64"):
                arity(3)
                w = BIT_TYPES[ty]
                a, b = src(oo[1], w, pos), src(oo[2], w, pos)
                put(dst(oo[0], w, pos), w, "Ptx.%s_b %s %s" % (base, a, b))
            elif base in ("shl", "shr") and not mods and ((base == "shl" and ty in ("b32", "b64")) or
                                                          (base == "shr" and ty in ("u32", "u64", "b32", "b64"))):
                arity(3)
                w = BIT_TYPES[ty]
                a, b = src(oo[1], w, pos), src(oo[2], 32, pos)
                put(dst(oo[0], w, pos), w, "Ptx.%s %s %s" % ("shl_b" if base == "shl" else "shr_u", a, b))
            else:
                self.err("PTX instruction `%s` is outside the modelled subset: %s" % (opcode, text))
        # gcc's contract lets a non-earlyclobber output share a register with an input; the PTX blocks of this
        # header rely on them being distinct (true for NVPTX virtual registers). Recorded, not rejected.
        for d, pw in first_write.items():
            if ops[d]["early"]:
                continue
            late = [n for n, pr in last_read.items() if pr > pw]
            if late:
                self.notes.append("%s: output %%%d (%s) is written before input(s) %s are last read and is not "
                                  "early-clobber; the model assumes distinct registers" % (
                                      self.fn.name, d, ops[d]["text"], ", ".join("%%%d" % n for n in late)))


# ------------------------------------------------------------------------------------------------ unit
class Unit:
    """all functions of one pre-processed variant"""

    def __init__(self, text, arch_name):
        self.arch = arch_name
        self.fns, self.consts = parse_class(text)
        self.done = {}      # key -> info
        self.order = []
        self.busy = set()
        self.used_consts = set()
        self.notes = []

    def has_member(self, name):
        return any(f.name == name and f.kind == "member" for f in self.fns)

    def key(self, f):
        return (f.name, tuple(param_kind(p) for p in f.params), f.kind)

    def need(self, f):
        k = self.key(f)
        if k in self.done:
            return self.done[k]
        if k not in TARGETS:
            raise PtxError("function `%s` is reached but has no entry in tr_ptx.TARGETS" % f.header)
        if k in self.busy:
            raise PtxError("recursion through " + f.header)
        self.busy.add(k)
        tr = Tr(self, f)
        tr.run()
        self.busy.discard(k)
        lean = TARGETS[k]
        mut = (f.kind == "member" and not f.is_const)
        params = []
        if f.kind == "member":
            params.append(("val", "BitVec 64"))
        for p in f.params:
            if p["arr"] is not None:
                params += [("%s_%d" % (p["name"], j), LEAN_TY[p["ty"]]) for j in range(p["arr"])]
            else:
                params.append((lname(p["name"]), LEAN_TY[p["ty"]]))
        info = {"key": k, "lean": lean, "ref": "«%s»" % lean, "mut": mut, "writes_val": tr.val_written,
                "params": params, "ret": LEAN_TY["u64" if (mut or f.kind == "ctor") else f.ret],
                "lines": tr.lines, "result": tr.result, "header": f.header, "callees": list(dict.fromkeys(tr.callees)),
                "n_asm": tr.n_asm, "n_ins": tr.n_ins}
        self.notes += tr.notes
        self.done[k] = info
        self.order.append(k)
        return info

    def body_text(self, info):
        return "\n".join(["(%s) : %s" % (" ".join("(%s : %s)" % p for p in info["params"]), info["ret"])] +
                         info["lines"] + ["  " + info["result"]])


def translate_units():
    path = os.path.join(SRC, "gl64_t.cuh")
    units = []
    for an, av in ARCHS:
        u = Unit(preprocess(path, av), an)
        for k in TARGETS:
            cands = [f for f in u.fns if u.key(f) == k]
            if len(cands) != 1:
                raise PtxError("%d definitions of %s(%s) [%s] in class gl64_t (arch %s)" % (len(cands), k[0], ", ".join(k[1]), k[2], an))
            u.need(cands[0])
        units.append(u)
    return units


def emit_ptx(units):
    a, b = units
    if a.order != b.order and set(a.order) != set(b.order):
        raise PtxError("the two architecture variants define different function sets")
    differs = {}

    def diff(k):
        if k in differs:
            return differs[k]
        ia, ib = a.done[k], b.done[k]
        d = a.body_text(ia) != b.body_text(ib)
        differs[k] = d
        for c in set(ia["callees"]) | set(ib["callees"]):
            if diff(c):
                d = True
        differs[k] = d
        return d
    for k in a.order:
        diff(k)
    consts = {}
    for u in units:
        for c in u.used_consts:
            consts[c] = u.consts[c]
    if a.consts != b.consts:
        raise PtxError("constants differ between the architecture variants")
    out = ["-- GENERATED by tools/tr_ptx.py from the PTX asm blocks of src/gl64_t.cuh (current source). Do not edit.",
           "-- configuration: __USE_CUDA__, GL64_PARTIALLY_REDUCED undefined; `_sm70`: __CUDA_ARCH__ >= 700, `_pre70`: < 700",
           "import GoldilocksVerif.Isa.Ptx",
           "set_option maxRecDepth 4096",
           "set_option linter.unusedVariables false",
           "namespace Gen.Ptx", ""]
    for c in sorted(consts):
        ty, val = consts[c]
        out.append("/-- `%s` -/" % c)
        out.append("def c_%s : %s := %d#%d" % (c.split("::")[-1], LEAN_TY[ty], val, WIDTH[ty]))
        out.append("")
    names = []

    def final(u, k, suffix):
        info = u.done[k]
        nm = info["lean"] + (suffix if differs[k] else "")
        text = "\n".join(info["lines"] + ["  " + info["result"]])

        def sub(m):
            ck = [kk for kk in u.done if u.done[kk]["lean"] == m.group(1)][0]
            return u.done[ck]["lean"] + (suffix if differs[ck] else "")
        text = re.sub(r"«(\w+)»", sub, text)
        ps = " ".join("(%s : %s)" % p for p in info["params"])
        doc = "/-- `%s`%s -/" % (info["header"].replace("-/", "- /"),
                                 ("  [__CUDA_ARCH__ %s 700]" % (">=" if suffix == "_sm70" else "<")) if differs[k] else "")
        return nm, "%s\ndef %s %s : %s :=\n%s\n" % (doc, nm, ps, info["ret"], text)
    for k in a.order:
        if differs[k]:
            for u, suf in ((a, "_sm70"), (b, "_pre70")):
                nm, txt = final(u, k, suf)
                names.append(nm)
                out.append(txt)
        else:
            nm, txt = final(a, k, "")
            names.append(nm)
            out.append(txt)
    out.append("end Gen.Ptx")
    stats = {"asm_statements": sum(i["n_asm"] for i in a.done.values()) + sum(b.done[k]["n_asm"] for k in b.order if differs[k]),
             "ptx_instructions": sum(i["n_ins"] for i in a.done.values()) + sum(b.done[k]["n_ins"] for k in b.order if differs[k])}
    notes = list(dict.fromkeys(a.notes + b.notes))
    return "\n".join(out) + "\n", names, stats, notes


# ------------------------------------------------------------------------------------------------ tables
def strip_c_comments(s):
    s = re.sub(r"/\*.*?\*/", "", s, flags=re.S)
    return re.sub(r"//[^\n]*", "", s)


def parse_device_table(txt, name):
    m = re.search(r"__device__\s+__constant__\s+uint64_t\s+%s\s*\[\s*(\d+)\s*\]\s*=\s*\{(.*?)\}\s*;" % re.escape(name), txt, re.S)
    if not m:
        raise PtxError("device table %s not found in ntt_goldilocks.cuh" % name)
    n = int(m.group(1))
    items = [x.strip() for x in m.group(2).split(",") if x.strip()]
    vals = [parse_int(x) for x in items]
    if len(vals) > n:
        raise PtxError("%s has %d initialisers for %d elements" % (name, len(vals), n))
    for v in vals:
        if v >= 1 << 64:
            raise PtxError("%s: literal does not fit in uint64_t" % name)
    return n, vals + [0] * (n - len(vals)), len(vals)      # aggregate initialisation zero-fills


def parse_cpu_W():
    hpp = open(os.path.join(SRC, "goldilocks_base_field.hpp")).read()
    m = re.search(r"(?m)^\s*#\s*define\s+USE_MONTGOMERY\s+(\d+)", hpp)
    if not m or m.group(1) != "0":
        raise PtxError("USE_MONTGOMERY is not 0: Goldilocks::fromU64 is no longer the identity on the stored word")
    txt = strip_c_comments(open(os.path.join(SRC, "goldilocks_base_field.cpp")).read())
    m = re.search(r"const\s+Goldilocks::Element\s+Goldilocks::W\s*\[\s*(\d+)\s*\]\s*=\s*\{(.*?)\}\s*;", txt, re.S)
    if not m:
        raise PtxError("Goldilocks::W not found in goldilocks_base_field.cpp")
    n = int(m.group(1))
    vals = []
    for it in [x.strip() for x in m.group(2).split(",") if x.strip()]:
        mm = re.fullmatch(r"Goldilocks::fromU64\(\s*(\w+)\s*\)", it)
        if not mm:
            raise PtxError("entry of Goldilocks::W is not Goldilocks::fromU64(<literal>): " + it)
        vals.append(parse_int(mm.group(1)))
    if len(vals) > n:
        raise PtxError("Goldilocks::W has too many initialisers")
    return n, vals + [0] * (n - len(vals)), len(vals)


def emit_tables():
    txt = strip_c_comments(open(os.path.join(SRC, "ntt_goldilocks.cuh")).read())
    out = ["-- GENERATED by tools/tr_ptx.py from src/ntt_goldilocks.cuh and src/goldilocks_base_field.cpp. Do not edit.",
           "namespace Gen.PtxTables", ""]
    names = []
    warn = []
    for cname, lname_ in (("omegas", "omegas"), ("omegas_inv", "omegas_inv"), ("domain_size_inverse", "domain_size_inverse")):
        n, vals, given = parse_device_table(txt, cname)
        if given != n:
            warn.append("%s: %d initialisers for %d elements (rest zero-filled)" % (cname, given, n))
        out.append("/-- device table `%s[%d]` (ntt_goldilocks.cuh) -/" % (cname, n))
        out.append("def %s : List Nat := [\n  %s]" % (lname_, ",\n  ".join(str(v) for v in vals)))
        out.append("")
        names.append(lname_)
    n, vals, given = parse_cpu_W()
    if given != n:
        warn.append("Goldilocks::W: %d initialisers for %d elements" % (given, n))
    out.append("/-- CPU table `Goldilocks::W[%d]` (goldilocks_base_field.cpp; fromU64 stores the word unchanged, USE_MONTGOMERY = 0) -/" % n)
    out.append("def cpuW : List Nat := [\n  %s]" % ",\n  ".join(str(v) for v in vals))
    out.append("")
    names.append("cpuW")
    out.append("end Gen.PtxTables")
    return "\n".join(out) + "\n", names, warn


FAILED_STUB = """-- GENERATED by tools/tr_ptx.py: TRANSLATION FAILED, see STATUS.json. Do not edit.
-- (deliberately defines nothing, so that every theorem about this module stops checking)
import GoldilocksVerif.Isa.Ptx
namespace Gen.%s
end Gen.%s
"""


def generate(status):
    """writes Gen/Ptx.lean and Gen/PtxTables.lean, records status["modules"]["Ptx"|"PtxTables"]"""
    mods = status.setdefault("modules", {})
    st = {"ok": True, "errors": [], "functions": 0, "names": []}
    try:
        bad = check_configuration()
        if bad:
            raise PtxError("configuration changed (the theorems are about GL64_PARTIALLY_REDUCED / "
                           "GL64_NO_REDUCTION_KLUDGE undefined): " + "; ".join(bad))
        units = translate_units()
        text, names, stats, notes = emit_ptx(units)
        write_if_changed(os.path.join(GEN_DIR, "Ptx.lean"), text)
        st.update(functions=len(names), names=names, notes=notes, **stats)
    except PtxError as e:
        st["ok"] = False
        st["errors"].append(str(e))
        write_if_changed(os.path.join(GEN_DIR, "Ptx.lean"), FAILED_STUB % ("Ptx", "Ptx"))
    except Exception as e:          # a translator bug is a broken obligation too, never a silent pass
        import traceback
        st["ok"] = False
        st["errors"].append("internal: " + traceback.format_exc(limit=4))
        write_if_changed(os.path.join(GEN_DIR, "Ptx.lean"), FAILED_STUB % ("Ptx", "Ptx"))
    mods["Ptx"] = st
    tt_ = {"ok": True, "errors": [], "functions": 0, "names": []}
    try:
        text, names, warn = emit_tables()
        write_if_changed(os.path.join(GEN_DIR, "PtxTables.lean"), text)
        tt_.update(functions=len(names), names=names, notes=warn)
    except PtxError as e:
        tt_["ok"] = False
        tt_["errors"].append(str(e))
        write_if_changed(os.path.join(GEN_DIR, "PtxTables.lean"), FAILED_STUB.replace("import GoldilocksVerif.Isa.Ptx\n", "") % ("PtxTables", "PtxTables"))
    except Exception as e:
        import traceback
        tt_["ok"] = False
        tt_["errors"].append("internal: " + traceback.format_exc(limit=4))
        write_if_changed(os.path.join(GEN_DIR, "PtxTables.lean"), FAILED_STUB.replace("import GoldilocksVerif.Isa.Ptx\n", "") % ("PtxTables", "PtxTables"))
    mods["PtxTables"] = tt_
    return status


# ------------------------------------------------------------------------------------------------ unit cases
_SELF_HDR = ("namespace gl64_device { static __device__ __constant__ uint32_t W = 0xffffffffU; }\n"
             "class gl64_t { private: uint64_t val; public: static const uint64_t MOD = 0xffffffff00000001U;\n"
             "__device__ __forceinline__ gl64_t& operator+=(const gl64_t& b) { %s return *this; } };")

SELF_CASES = [
    # (name, body of operator+=, expected: None = translates, else a fragment of the error message)
    ("carry chain", 'uint32_t c; __asm__ __volatile__("add.cc.u64 %0, %0, %2; addc.u32 %1, 0, 0;" : "+l"(val), "=r"(c) : "l"(b.val));', None),
    ("predicated mov", 'uint64_t tmp; uint32_t c; __asm__ __volatile__("add.cc.u64 %0, %2, %3; addc.u32 %1, 0, 0;" : "=l"(tmp), "=r"(c) : "l"(val), "l"(0-MOD));'
     ' __asm__ __volatile__("{ .reg.pred %top;"); __asm__ __volatile__("setp.ne.u32 %top, %0, 0;" :: "r"(c));'
     ' __asm__ __volatile__("@%top mov.b64 %0, %1;" : "+l"(val) : "l"(tmp)); __asm__ __volatile__("}");', None),
    ("pack", 'uint32_t tw[2]; __asm__ __volatile__("mul.lo.u32 %0, %2, %3; mul.hi.u32 %1, %2, %3;" : "=r"(tw[0]), "=r"(tw[1]) : "r"((uint32_t)(val)), "r"(gl64_device::W));'
     ' __asm__ __volatile__("mov.b64 %0, {%1, %2};" : "=l"(val) : "r"(tw[0]), "r"(tw[1]));', None),
    ("CF read before set", 'uint32_t c; __asm__ __volatile__("addc.u32 %0, 0, 0;" : "=r"(c));', "CC.CF is read"),
    ("CF does not cross asm statements", 'uint32_t c; __asm__ __volatile__("add.cc.u64 %0, %0, %1;" : "+l"(val) : "l"(b.val));'
     ' __asm__ __volatile__("addc.u32 %0, 0, 0;" : "=r"(c));', "CC.CF is read"),
    ("unknown instruction", '__asm__ __volatile__("vadd.u32.u32.u32 %0, %0, %1;" : "+l"(val) : "l"(b.val));', "outside the modelled subset"),
    ("undeclared predicate", '__asm__ __volatile__("@%top mov.b64 %0, %1;" : "+l"(val) : "l"(b.val));', "is not declared"),
    ("unset predicate", '__asm__ __volatile__("{ .reg.pred %top;"); __asm__ __volatile__("@%top mov.b64 %0, %1;" : "+l"(val) : "l"(b.val)); __asm__ __volatile__("}");', "read before it is set"),
    ("scope left open", '__asm__ __volatile__("{ .reg.pred %top;");', "not closed"),
    ("write to an input", '__asm__ __volatile__("mov.b64 %1, %0;" : "+l"(val) : "l"(b.val));', "not an output operand"),
    ("width mismatch", 'uint32_t c; __asm__ __volatile__("add.u64 %0, %0, %1;" : "+l"(val) : "r"(c));', "uninitialised"),
    ("constraint/type mismatch", '__asm__ __volatile__("add.u32 %0, %0, %0;" : "+r"(val));', "constraint"),
    ("32-bit operand in 64-bit instruction", 'uint32_t c; __asm__ __volatile__("add.u64 %0, 0, 0;" : "=r"(c));', "64-bit instruction"),
    ("output never written", 'uint32_t c; __asm__ __volatile__("add.u64 %0, %0, %2;" : "+l"(val), "=r"(c) : "l"(b.val));', "never written"),
    ("loop", 'while (1) { }', "unsupported statement"),
    ("generated-name clash", 'uint32_t cf;', "clashes"),
    ("missing comma", 'uint32_t c; __asm__ __volatile__("add.cc.u64 %0, %0, %2; addc.u32 %1, 0, 0;" : "+l"(val) "=r"(c) : "l"(b.val));', "expected `,`"),
    ("alias hazard", '__asm__ __volatile__("add.u64 %0, %0, %1;" : "+l"(val) : "l"(b.val)); __asm__ __volatile__("add.u64 %0, %0, %1;" : "+l"(val) : "l"(b.val));', "aliasing"),
    ("clobber list", '__asm__ __volatile__("add.u64 %0, %0, %1;" : "+l"(val) : "l"(b.val) : "memory");', "clobber"),
]


def selftest():
    """-> list of failed case names (empty = all unit cases behave as specified)"""
    bad = []
    for name, body, want in SELF_CASES:
        try:
            u = Unit(_SELF_HDR % body, "selftest")
            u.need(u.fns[0])
            got = None
        except PtxError as e:
            got = str(e)
        if (want is None) != (got is None) or (want is not None and want not in got):
            bad.append("%s: expected %s, got %s" % (name, want or "a translation", got or "a translation"))
    return bad


if __name__ == "__main__":
    if "--selftest" in sys.argv:
        b = selftest()
        print("\n".join(b) if b else "tr_ptx selftest: %d cases ok" % len(SELF_CASES))
        sys.exit(1 if b else 0)
    s = generate({"modules": {}})
    json.dump({k: s["modules"][k] for k in ("Ptx", "PtxTables")}, sys.stdout, indent=1)
    print()
    sys.exit(0)
