#!/bin/bash
# usage: tools/seedtest.sh <patch> <check-id>... ; applies a seeded change to /repo, runs the checks, reverts.
set -u
patch=$1; shift
cd /verif
if ! git -C /repo diff --quiet; then echo "/repo not clean"; exit 2; fi
git -C /repo apply "$patch" || { echo "patch does not apply"; exit 2; }
for id in "$@"; do
  echo "=== $id with $(basename $(dirname $patch)) applied (tier ${TIER:-quick})"
  VERIF_EVIDENCE_DIR=/tmp/seed_evidence timeout 1800 ./check $id --tier ${TIER:-quick} 2>&1 | tail -${TAILN:-6}
  echo "exit=$?"
done
git -C /repo checkout -- .
python3 tools/gen.py > /dev/null
