#!/usr/bin/env python3
"""Regenerate the Lean models (lean/GoldilocksVerif/Gen/*.lean), the Lean driver dispatch
(lean/Driver/GenDispatch.lean) and the C++ harness dispatch (harness/gen_dispatch.inc) from
/repo's CURRENT sources.  Files are rewritten only when their content changes (lake cache).

Exit status 0 even when a module cannot be translated: the failure is recorded in
lean/GoldilocksVerif/Gen/STATUS.json and the check of every property that depends on the module
reports it as a broken obligation.
"""
import os, sys, json, re, time, traceback

HERE = os.path.dirname(os.path.abspath(__file__))
ROOT = os.path.dirname(HERE)
REPO_IS_DEFAULT = os.environ.get("VERIF_REPO", "/repo") == "/repo"
sys.path.insert(0, HERE)
from astload import Ast, AstError, SRC
import tr_cxx
from tr_cxx import Translator, Unsupported, classify, LEAN_TY
import modules as MODS

GEN_DIR = os.path.join(ROOT, "lean", "GoldilocksVerif", "Gen")
DRV_DIR = os.path.join(ROOT, "lean", "Driver")
HAR_DIR = os.path.join(ROOT, "harness")


def write_if_changed(path, text):
    os.makedirs(os.path.dirname(path), exist_ok=True)
    try:
        with open(path) as f:
            if f.read() == text:
                return False
    except FileNotFoundError:
        pass
    tmp = path + ".tmp%d" % os.getpid()
    with open(tmp, "w") as f:
        f.write(text)
    os.replace(tmp, path)
    return True


def check_operators():
    """the translator maps the free Element operators to Goldilocks::add/mul/...: verify the header says so"""
    txt = open(os.path.join(SRC, "goldilocks_base_field.hpp")).read()
    want = {
        r"operator\+\(const Goldilocks::Element &in1, const Goldilocks::Element &in2\) \{ return Goldilocks::add\(in1, in2\); \}",
        r"operator\*\(const Goldilocks::Element &in1, const Goldilocks::Element &in2\) \{ return Goldilocks::mul\(in1, in2\); \}",
        r"operator-\(const Goldilocks::Element &in1, const Goldilocks::Element &in2\) \{ return Goldilocks::sub\(in1, in2\); \}",
        r"operator/\(const Goldilocks::Element &in1, const Goldilocks::Element &in2\) \{ return Goldilocks::div\(in1, in2\); \}",
        r"operator==\(const Goldilocks::Element &in1, const Goldilocks::Element &in2\) \{ return Goldilocks::equal\(in1, in2\); \}",
        r"operator-\(const Goldilocks::Element &in1\) \{ return Goldilocks::neg\(in1\); \}",
        r"operator\+\(const Goldilocks::Element &in1\) \{ return in1; \}",
    }
    missing = [w for w in want if not re.search(w, txt)]
    return missing


# ---------------------------------------------------------------- dispatch generation

VR = {"vr4": ("VRegion4", "V4", 4, "__m256i"), "vr8": ("VRegion8", "V8", 8, "__m512i")}


def scalar_alias_candidates(info):
    """[(k, o)]: parameter k is a field element passed BY VALUE / const reference (cat u64, mode in) and parameter o < k is the
    result array (pointer, mode out/inout).  For these the dispatchers get a variant `<op>__as<k>` in which the scalar argument
    is the ELEMENT j OF THE RESULT ARRAY itself (the wire carries j): `f(out, out[j], …)`.  The specification is the call by
    value: the scalar designated at the call is the value out[j] had before the call."""
    cps = [c for c in info.decl.get("inner", []) if c.get("kind") == "ParmVarDecl"]
    outs = [i for i, q in enumerate(info.params) if q["cat"] == "ptr" and q["mode"] in ("out", "inout")]
    res = []
    for k, (q, pd) in enumerate(zip(info.params, cps)):
        if q["cat"] == "u64" and q["mode"] == "in" and "Element" in pd["type"]["qualType"] and "*" not in pd["type"]["qualType"]:
            o = [i for i in outs if i < k]
            if o:
                res.append((k, o[0]))
    return res


def reg_alias_candidates(info):
    """[(o, k)]: parameter o is an OUTPUT register passed by reference (`__m256i &`, `__m512i &`, mode out) and parameter k an
    INPUT register of the same type passed by const reference.  The implementation-side dispatcher gets a variant
    `<op>__ra<o>_<k>` that passes ONE object for both (`f(x, x, b)`: the in-place call pattern the library itself uses, e.g.
    `add_avx512_b_c(st0, st0, c0)`); on the wire and in the model it is the same request as `<op>` (value semantics: Driver.Main
    strips the suffix), so a kernel that writes its output reference before it has read that input shows up as model != code."""
    cps = [c for c in info.decl.get("inner", []) if c.get("kind") == "ParmVarDecl"]
    res = []
    for o, (q, pd) in enumerate(zip(info.params, cps)):
        t = pd["type"]["qualType"].strip()
        if q["cat"] in ("v4", "v8") and q["mode"] == "out" and t.endswith("&") and "const" not in t:
            for k, (q2, pd2) in enumerate(zip(info.params, cps)):
                t2 = pd2["type"]["qualType"].strip()
                if k != o and q2["cat"] == q["cat"] and q2["mode"] == "in" and t2.endswith("&"):
                    res.append((o, k))
    return res


def lean_dispatch_entry(info, ns, vregs=None, ext=False, opname=None, alias=None):
    """one match arm for Driver/GenDispatch.lean, or None when the signature is not dispatchable.
    vregs: number of registers a vector-region parameter (`__m256i *`, `Element_avx &`) designates in this module
    (3 for the planar cubic-extension operands): passed as vregs * lanes words, register 0 first.
    opname: name of the operation on the wire (default: the Lean name)."""
    opname = opname or info.lean_name
    pats, args = [], []
    k = 0
    xnum = {}
    for pi, p in enumerate(info.params):
        if p["mode"] == "out":
            continue
        c = p["cat"]
        xnum[pi] = k
        if alias and pi == alias[0]:
            if alias[1] not in xnum or info.params[alias[1]]["mode"] == "out":
                return None
            pats.append(".w x%d" % k)
            args.append("(Driver.aliasW (Driver.rD a %d) x%d)" % (xnum[alias[1]], k))
            k += 1
            continue
        if c in VR and vregs == 3:
            rt, vt, w, _ = VR[c]
            regs = []
            for r in range(3):
                names = ["x%d" % (k + i) for i in range(w)]
                pats.extend(".w " + n for n in names)
                regs.append("(%s.mk %s)" % (vt, " ".join(names)))
                k += w
            args.append("(%s.mk3 %s)" % (rt, " ".join(regs)))
        elif c == "u32":
            pats.append(".w x%d" % k)
            args.append("(BitVec.setWidth 32 x%d)" % k)
            k += 1
        elif c == "u64":
            pats.append(".w x%d" % k)
            args.append("x%d" % k)
            k += 1
        elif c == "bool":
            pats.append(".w x%d" % k)
            args.append("(x%d != 0#64)" % k)
            k += 1
        elif c == "v4":
            names = ["x%d" % (k + i) for i in range(4)]
            pats.extend(".w " + n for n in names)
            args.append("(V4.mk %s)" % " ".join(names))
            k += 4
        elif c == "v8":
            names = ["x%d" % (k + i) for i in range(8)]
            pats.extend(".w " + n for n in names)
            args.append("(V8.mk %s)" % " ".join(names))
            k += 8
        elif c in ("ptr", "arr"):
            pats.append(".r x%d" % k)
            args.append("(Region.ofList x%d)" % k)
            k += 1
        elif c == "int" and ext:
            pats.append(".w x%d" % k)
            args.append("(BitVec.toInt x%d)" % k)      # an `int` argument: 64-bit two's complement on the wire
            k += 1
        elif c == "s64" and ext:                       # mpz mode: int64_t, the 64-bit pattern
            pats.append(".w x%d" % k)
            args.append("x%d" % k)
            k += 1
        elif c == "s32" and ext:                       # int32_t: the low 32 bits of the word
            pats.append(".w x%d" % k)
            args.append("(BitVec.setWidth 32 x%d)" % k)
            k += 1
        elif c == "mpzc" and ext:                      # mpz_class: a string token, hexadecimal numeral with optional '-'
            pats.append(".s x%d" % k)
            args.append("(Driver.intOfHex x%d)" % k)
            k += 1
        elif c == "str" and ext:                       # std::string: a string token
            pats.append(".s x%d" % k)
            args.append("x%d" % k)
            k += 1
        else:
            return None
    if getattr(info, "partial", False):
        args = ["Driver.genFuel"] + args
    call = "%s.%s %s" % (ns, info.lean_name, " ".join(args)) if args else "%s.%s" % (ns, info.lean_name)
    outs = []
    nouts = len(info.outs)
    if nouts == 0:
        return None
    if getattr(info, "partial", False) and (len(pats) > 32 or vregs):
        return None
    if ext and nouts == 1 and (info.outs[0][1] if info.outs[0][0] == "ret" else info.params[info.outs[0][1]]["cat"]) == "str":
        # a std::string result: reply `ok s:<text>`
        if getattr(info, "partial", False):
            return ("str", '  | "%s", [%s] => some (Driver.fmtS (%s))' % (opname, ", ".join(pats), call))
        return ("str", '  | "%s", [%s] => some (Driver.fmtS (some (%s)))' % (opname, ", ".join(pats), call))

    def proj(i):
        if nouts == 1:
            return "res"
        # right-nested tuples
        s = "res"
        for _ in range(i):
            s += ".2"
        if i < nouts - 1:
            s += ".1"
        return s
    region_lens = {}
    kk = 0
    for p in info.params:
        if p["mode"] == "out":
            continue
        if p["cat"] in ("ptr", "arr"):
            region_lens[p["name"]] = "x%d.length" % kk
            kk += 1
        elif p["cat"] == "v4":
            kk += 4
        elif p["cat"] == "v8":
            kk += 8
        elif p["cat"] in VR:
            kk += 3 * VR[p["cat"]][2]
        else:
            kk += 1
    for i, o in enumerate(info.outs):
        if o[0] == "ret":
            c = o[1]
            nm = None
        else:
            c = info.params[o[1]]["cat"]
            nm = info.params[o[1]]["name"]
        pr = proj(i)
        if c == "u64" or (c == "s64" and ext):
            outs.append("[%s]" % pr)
        elif c == "s32" and ext:
            outs.append("[BitVec.signExtend 64 %s]" % pr)      # int32_t result: sign-extended to the 64-bit word
        elif c == "bool":
            outs.append("[if %s then 1#64 else 0#64]" % pr)
        elif c == "v4":
            outs.append("(%s).toList" % pr)
        elif c == "v8":
            outs.append("(%s).toList" % pr)
        elif c in VR and vregs == 3:
            outs.append("(%s.toList3 %s)" % (VR[c][0], pr))
        elif c in ("ptr", "arr"):
            if nm is None or nm not in region_lens:
                return None
            outs.append("(Region.toList %s %s)" % (pr, region_lens[nm]))
        else:
            return None
    if len(pats) > 32 or vregs or alias:
        # (scalar-alias variants too: the list-pattern matcher is at its size limit)
        # modules with vector-region parameters / long argument lists (three-register operands passed lane by lane): no list pattern (the match compiler does
        # not scale), the arguments are read from an array after a check of their kinds
        kinds = "".join("w" if q.startswith(".w") else "r" for q in pats)
        body = 'let res := %s; some (%s)' % (call, " ++ ".join(outs))
        body = re.sub(r"\bx(\d+)\.length\b", lambda mm: "(Driver.rD a %s).length" % mm.group(1), body)
        body = re.sub(r"\(Region\.ofList x(\d+)\)", lambda mm: "(Region.ofList (Driver.rD a %s))" % mm.group(1), body)
        body = re.sub(r"(?<![A-Za-z0-9_.])x(\d+)\b", lambda mm: "(Driver.wD a %s)" % mm.group(1), body)
        return ("long", '  | "%s" => if !Driver.kindsOk a "%s" then none else %s' % (opname, kinds, body))
    if getattr(info, "partial", False):
        # partial function (fuel / Option): `none` = the process was ended by the code (the fuel of the driver is never
        # exhausted on the executed cases); the implementation side is run in a forked child and reports `err exit 255`
        return ("partial", '  | "%s", [%s] => some (Driver.fmtP ((%s).map fun res => %s))' % (
            opname, ", ".join(pats), call, " ++ ".join(outs)))
    return '  | "%s", [%s] => let res := %s; some (%s)' % (opname, ", ".join(pats), call, " ++ ".join(outs))


CPP_CLASS = {"Goldilocks": "Goldilocks", "Goldilocks3": "Goldilocks3", "PoseidonGoldilocks": "PoseidonGoldilocks"}


def cpp_fn_pointer_type(fty):
    i = fty.index("(")
    ret = fty[:i].strip()
    params = fty[i:]
    return "%s (*)%s" % (ret, params)


def cpp_dispatch_entry(info, vregs=None, ext=False, opname=None, alias=None, ralias=None):
    opname = opname or info.lean_name
    d = info.decl
    cls = d.get("_class")
    if cls not in CPP_CLASS:
        return None
    fty = d["type"]["qualType"]
    if "noexcept" in fty:
        return None
    lines = []
    lines.append('  if (fn == "%s") {' % opname)
    lines.append('    auto f = static_cast<%s>(&%s::%s);' % (cpp_fn_pointer_type(fty), cls, d["name"]))
    call_args = []
    post = []
    k = 0
    params = [c for c in d.get("inner", []) if c.get("kind") == "ParmVarDecl"]
    for idx, (p, pd) in enumerate(zip(info.params, params)):
        c = p["cat"]
        v = "a%d" % idx
        mode = p["mode"]
        if alias and idx == alias[0]:
            # the scalar argument IS element j of the result array (by value: copied at the call; by reference: aliased)
            lines.append("    uint64_t %s_j = A.w(); if (%s_j >= a%d.n) { A.bad = true; return true; }" % (v, v, alias[1]))
            call_args.append("((Goldilocks::Element*)a%d.p)[%s_j]" % (alias[1], v))
        elif c == "u64":
            isel = "Element" in pd["type"]["qualType"]
            if mode == "out":
                if isel:
                    lines.append("    Goldilocks::Element %s; %s.fe = 0xDEADBEEFDEADBEEFULL;" % (v, v))
                    post.append("    outw(%s.fe);" % v)
                else:
                    lines.append("    uint64_t %s = 0xDEADBEEFDEADBEEFULL;" % v)
                    post.append("    outw(%s);" % v)
            else:
                if isel:
                    lines.append("    Goldilocks::Element %s; %s.fe = A.w();" % (v, v))
                    if mode == "inout":
                        post.append("    outw(%s.fe);" % v)
                else:
                    lines.append("    uint64_t %s = A.w();" % v)
                    if mode == "inout":
                        post.append("    outw(%s);" % v)
            call_args.append(v)
        elif c == "bool":
            lines.append("    bool %s = A.w() != 0;" % v)
            call_args.append(v)
        elif c == "u32":
            lines.append("    uint32_t %s = (uint32_t)A.w();" % v)
            call_args.append(v)
        elif c == "int" and ext:
            lines.append("    int %s = (int)(int64_t)A.w();" % v)
            call_args.append(v)
        elif c in ("s64", "s32") and ext:
            cty, rd_, wr_ = (("int64_t", "(int64_t)A.w()", "(uint64_t)%s"), ("int32_t", "(int32_t)(uint32_t)A.w()", "(uint64_t)(int64_t)%s"))[c == "s32"]
            if mode == "out":
                lines.append("    %s %s = (%s)0x5A5A5A5A5A5A5A5AULL;" % (cty, v, cty))
            else:
                lines.append("    %s %s = %s;" % (cty, v, rd_))
            if mode != "in":
                post.append("    outw(%s);" % (wr_ % v))
            call_args.append(v)
        elif c == "mpzc" and ext and mode == "in":
            lines.append("    std::string %s_s = A.s(); mpz_class %s; if (%s.set_str(%s_s, 16) != 0) { A.bad = true; return true; }" % (v, v, v, v))
            call_args.append(v)
        elif c == "str" and ext:
            if mode == "out":
                lines.append("    std::string %s;" % v)
            else:
                lines.append("    std::string %s = A.s();" % v)
            if mode != "in":
                post.append("    g_outs = %s;" % v)
            call_args.append(v)
        elif c in VR and vregs == 3:
            # three planar registers, passed as 3 * lanes words; the array lives in a (guarded) buffer
            w, ty = VR[c][2], VR[c][3]
            q = pd["type"]["qualType"].strip()
            lines.append("    Buf %s = A.wbuf(%d);" % (v, 3 * w))
            if q.endswith("&"):
                call_args.append("*reinterpret_cast<%s (*)[3]>(%s.p)" % (ty, v))
            else:
                call_args.append("reinterpret_cast<%s *>(%s.p)" % (ty, v))
            if mode != "in":
                post.append("    for (size_t i=0;i<%s.n;i++) outw(%s.p[i]);" % (v, v))
            post.append("    %s.check();" % v)
        elif c in ("v4", "v8"):
            n = 4 if c == "v4" else 8
            ty = "__m256i" if c == "v4" else "__m512i"
            ld = "_mm256_loadu_si256((__m256i*)" if c == "v4" else "_mm512_loadu_si512((void*)"
            st = "_mm256_storeu_si256((__m256i*)" if c == "v4" else "_mm512_storeu_si512((void*)"
            if ralias and idx == ralias[0]:
                v = "a%d" % ralias[1]           # the output register IS the input register a<k> (declared below, before the call)
            elif mode == "out":
                lines.append("    %s %s; { uint64_t t[%d]; for (int i=0;i<%d;i++) t[i]=0xDEADBEEFDEADBEEFULL; %s = %st); }" % (ty, v, n, n, v, ld))
            else:
                lines.append("    %s %s; { uint64_t t[%d]; for (int i=0;i<%d;i++) t[i]=A.w(); %s = %st); }" % (ty, v, n, n, v, ld))
            if mode != "in":
                post.append("    { uint64_t t[%d]; %st, %s); for (int i=0;i<%d;i++) outw(t[i]); }" % (n, st, v, n))
            call_args.append(v)
        elif c in ("ptr", "arr"):
            q = pd["type"]["qualType"]
            elty = "Goldilocks::Element" if "Element" in q else "uint64_t"
            lines.append("    Buf %s = A.r();" % v)
            dq = pd["type"].get("desugaredQualType", q)
            mref = re.match(r"^(.*?)\s*\(&\)\[(\d+)\]$", dq.strip())
            mptr = re.match(r"^(.*?)\s*\(\*\)\[(\d+)\]$", dq.strip())
            if mref:
                call_args.append("*reinterpret_cast<%s (*)[%s]>(%s.p)" % (mref.group(1), mref.group(2), v))
            elif mptr:
                call_args.append("reinterpret_cast<%s (*)[%s]>(%s.p)" % (mptr.group(1), mptr.group(2), v))
            elif "Goldilocks3::Element" in q:
                if q.strip().endswith("&"):
                    call_args.append("*(Goldilocks3::Element *)%s.p" % v)
                else:
                    call_args.append("(Goldilocks3::Element *)%s.p" % v)
            else:
                call_args.append("(%s*)%s.p" % (elty, v))
            if mode != "in":
                post.append("    for (size_t i=0;i<%s.n;i++) outw(%s.p[i]);" % (v, v))
            post.append("    %s.check();" % v)
        else:
            return None
    rc = info.ret_cat
    call = "f(%s)" % ", ".join(call_args)
    if rc is None:
        lines.append("    %s;" % call)
    elif rc == "u64":
        rt = fty.split("(")[0]
        if "Element" in rt:
            lines.append("    Goldilocks::Element r = %s; outw(r.fe);" % call)
        else:
            lines.append("    uint64_t r = %s; outw(r);" % call)
    elif rc == "bool":
        lines.append("    bool r = %s; outw(r ? 1 : 0);" % call)
    elif rc == "s64" and ext:
        lines.append("    int64_t r = %s; outw((uint64_t)r);" % call)
    elif rc == "s32" and ext:
        lines.append("    int32_t r = %s; outw((uint64_t)(int64_t)r);" % call)
    elif rc == "str" and ext:
        lines.append("    g_outs = %s;" % call)
    elif rc in ("v4", "v8"):
        n = 4 if rc == "v4" else 8
        ty = "__m256i" if rc == "v4" else "__m512i"
        st = "_mm256_storeu_si256((__m256i*)" if rc == "v4" else "_mm512_storeu_si512((void*)"
        lines.append("    %s r = %s; { uint64_t t[%d]; %st, r); for (int i=0;i<%d;i++) outw(t[i]); }" % (ty, call, n, st, n))
    else:
        return None
    lines.extend(post)
    lines.append("    return true;")
    lines.append("  }")
    return "\n".join(lines)


def main():
    t0 = time.time()
    status = {"modules": {}, "operators_missing": []}
    try:
        import tr_ptx
        tr_ptx.generate(status)   # Gen/Ptx.lean, Gen/PtxTables.lean (C20); independent of the clang AST
    except Exception as e:
        status["modules"]["Ptx"] = {"ok": False, "errors": ["tr_ptx: %s" % e], "functions": 0, "names": []}
    try:
        ast = Ast()
    except Exception as e:
        status["fatal"] = "clang AST dump failed: %s" % e
        write_if_changed(os.path.join(GEN_DIR, "STATUS.json"), json.dumps(status, indent=1))
        print("gen: FATAL", e)
        return 0
    status["operators_missing"] = check_operators()
    # file-scope vector constants
    glob_map = {}
    try:
        import tr_globals
        gl = tr_globals.read_globals()
        lines = ["-- GENERATED by tools/gen.py (tr_globals) from /repo's current sources. Do not edit.",
                 "import GoldilocksVerif.Isa.Avx2", "import GoldilocksVerif.Isa.Avx512",
                 "namespace Gen.VecConsts", "open GoldilocksVerif", ""]
        for cname, lname, lty, term in gl:
            lines.append("/-- file-scope `%s` -/" % cname)
            lines.append("def %s : %s := %s" % (lname, lty, term))
            lines.append("")
            glob_map[cname] = "Gen.VecConsts." + lname
        lines.append("end Gen.VecConsts")
        write_if_changed(os.path.join(GEN_DIR, "VecConsts.lean"), "\n".join(lines) + "\n")
        status["globals"] = [g[0] for g in gl]
    except Exception as e:
        status["globals_error"] = str(e)
    lean_arms, cpp_arms, lean_long_arms, lean_partial_arms = [], [], [], []
    # implementation-side dispatchers of functions that can no longer be TRANSLATED: the C++ arm depends on the signature
    # only, so the arm recorded on the last fully translated tree (tools/dispatch_ref.json) is reused when the C++ function
    # type is unchanged; the failing-input search can then still execute the function (implementation vs oracle)
    ref_path = os.path.join(HERE, "dispatch_ref.json")
    try:
        disp_ref = json.load(open(ref_path))
    except Exception:
        disp_ref = {}
    new_ref = {}
    failed_roots = []
    partial_imports = []
    dispatch_imports = []
    import copy
    reg_fns, reg_consts = {}, {}
    for m in MODS.MODULES:
        name = m["name"]
        st = {"ok": True, "errors": [], "functions": 0}
        tr = Translator(ast, m["ns"])
        tr.unroll_max = m.get("unroll_max", tr_cxx.UNROLL_MAX)
        tr.ext = bool(m.get("ext"))
        tr_cxx.MPZ_MODE = bool(m.get("mpz"))     # mpz_class / std::string / signed fixed-width integers (this module only)
        tr.prior_fns = reg_fns
        tr.prior_consts = reg_consts
        tr.globals = glob_map
        if m.get("heap"):
            # heap mode (tools/tr_heap.py): pointers as values, object state as a generated structure
            try:
                import tr_heap
                tr.heap_mode = tr_heap.HeapMode(ast, m["heap"])
                tr.heap_mode.setup(tr)
            except Unsupported as e:
                st["ok"] = False
                st["errors"].append("heap mode, class %s: %s" % (m["heap"], e))
        if status.get("globals_error") and m.get("needs_globals"):
            st["ok"] = False
            st["errors"].append("file-scope constants: " + status["globals_error"])
        # earlier modules' functions are reused, not re-emitted
        for dep in m.get("uses", []):
            pass
        for cname in m.get("consts", []):
            vds = [v for v in ast.var_defs.values() if v.get("name") == cname and v.get("_namespace") == m.get("consts_namespace")]
            if not vds:
                st["ok"] = False
                st["errors"].append("constant %s not found" % cname)
            for vd in vds:
                try:
                    tr.need_const(vd)
                except Unsupported as e:
                    st["ok"] = False
                    st["errors"].append("constant %s: %s" % (cname, e))
        for cls, fname in m["roots"](ast) if callable(m["roots"]) else m["roots"]:
            defs = ast.find_methods(cls, fname)
            if not defs:
                st["ok"] = False
                st["errors"].append("no definition of %s::%s in the current source" % (cls, fname))
                continue
            for d in defs:
                if "filter" in m and not m["filter"](d):
                    continue
                try:
                    tr.need_fn(d)
                    for al in (m.get("aliases", {}) or {}).get(fname, []):
                        names = [c.get("name") for c in d.get("inner", []) if c.get("kind") == "ParmVarDecl"]
                        if all(a in names and b in names for a, b in al):
                            try:
                                tr.need_fn(d, alias=tuple(al))
                            except Unsupported as e:
                                if "aliased parameters of different kinds" not in str(e):
                                    raise
                except Unsupported as e:
                    st["ok"] = False
                    st["errors"].append("%s::%s %s: %s" % (cls, fname, d["type"]["qualType"], e))
                    try:
                        failed_roots.append((name, tr.fn_lean_name(d), d["type"]["qualType"]))
                    except Exception:
                        pass
                except Exception as e:
                    st["ok"] = False
                    st["errors"].append("%s::%s: internal %s" % (cls, fname, traceback.format_exc(limit=3)))
        for info in tr.order:
            q = copy.copy(info)
            q.lean_name = m["ns"] + "." + info.lean_name
            reg_fns[getattr(info, "key", info.decl["id"])] = q
        for vid, (lname, _) in tr.consts.items():
            reg_consts[vid] = m["ns"] + "." + lname
        st["functions"] = len(tr.order)
        st["names"] = [i.lean_name for i in tr.order]
        if m.get("sigs"):
            sg = {}
            for i in tr.order:
                cps = [c for c in i.decl.get("inner", []) if c.get("kind") == "ParmVarDecl"]
                sg[i.lean_name] = {"c_name": i.decl.get("name"), "class": i.decl.get("_class"),
                                   "line": (i.decl.get("loc", {}) or {}).get("line"),
                                   "params": [{"name": c.get("name"), "ctype": c["type"]["qualType"]} for c in cps],
                                   "lean_params": [{"name": q["name"], "cat": q["cat"], "mode": q["mode"]} for q in i.params],
                                   "outs": [list(o) for o in i.outs], "ret": i.ret_cat,
                                   "alias": getattr(i, "alias", None)}
            st["sigs"] = sg
        text = tr.emit(m["imports"])
        write_if_changed(os.path.join(GEN_DIR, name + ".lean"), text)
        if m.get("ext"):
            st["partial"] = [i.lean_name for i in tr.order if i.partial]
        if m.get("dispatch", True):
            (partial_imports if m.get("ext") else dispatch_imports).append("GoldilocksVerif.Gen." + name)
            for info in tr.order:
                if m.get("dispatch_filter") and not m["dispatch_filter"](info):
                    continue
                if getattr(info, "alias", None):
                    continue
                opname = m.get("dispatch_prefix", "") + info.lean_name     # name of the operation on the wire
                la = lean_dispatch_entry(info, m["ns"], m.get("vregion_regs"), bool(m.get("ext")), opname)
                ca = cpp_dispatch_entry(info, m.get("vregion_regs"), bool(m.get("ext")), opname) if la else None
                if la and ca:
                    new_ref[info.lean_name] = {"module": name, "fty": info.decl["type"]["qualType"], "arm": ca,
                                               "sig": (st.get("sigs") or {}).get(info.lean_name)}
                    if m.get("ext"):
                        # entries of the extended-translator modules live in Driver/GenDispatchP.lean (own compilation unit)
                        if isinstance(la, tuple) and la[0] in ("partial", "str"):
                            lean_partial_arms.append(la[1])
                        elif isinstance(la, tuple):
                            la = None
                        else:
                            lean_partial_arms.append(la.replace("let res := ", "some (Driver.fmtP (some (let res := ", 1)
                                                     .replace("; some (", "; ", 1) + "))")
                        if la:
                            cpp_arms.append(ca)
                        continue
                    if isinstance(la, tuple):
                        lean_long_arms.append(la[1])
                    else:
                        lean_arms.append(la)
                    cpp_arms.append(ca)
                    if m.get("reg_alias"):
                        for (ro, rk) in reg_alias_candidates(info):
                            on2 = "%s__ra%d_%d" % (opname, ro, rk)
                            ca2 = cpp_dispatch_entry(info, m.get("vregion_regs"), False, on2, ralias=(ro, rk))
                            if ca2:
                                cpp_arms.append(ca2)
                                status.setdefault("reg_alias", {}).setdefault(opname, []).append(on2)
                    if m.get("scalar_alias") and not isinstance(la, tuple):
                        for (ak, ao) in scalar_alias_candidates(info):
                            on2 = "%s__as%d" % (opname, ak)
                            la2 = lean_dispatch_entry(info, m["ns"], m.get("vregion_regs"), False, on2, alias=(ak, ao))
                            ca2 = cpp_dispatch_entry(info, m.get("vregion_regs"), False, on2, alias=(ak, ao)) if la2 else None
                            if la2 and ca2 and isinstance(la2, tuple) and la2[0] == "long":
                                lean_long_arms.append(la2[1])
                                cpp_arms.append(ca2)
                                new_ref[info.lean_name].setdefault("alias_arms", []).append(ca2)
                                if isinstance(st.get("sigs"), dict) and info.lean_name in st["sigs"]:
                                    st["sigs"][info.lean_name].setdefault("scalar_alias", []).append([ak, ao, info.params[ak]["name"], info.params[ao]["name"]])
        status["modules"][name] = st
    tr_cxx.MPZ_MODE = False
    for modname, lname, fty in failed_roots:
        r = disp_ref.get(lname)
        mst = status["modules"].get(modname, {})
        if r and r.get("fty") == fty and r.get("module") == modname:
            cpp_arms.append(r["arm"])
            mst.setdefault("untranslated", []).append(lname)
            if r.get("sig") and isinstance(mst.get("sigs"), dict):
                sg = dict(r["sig"]); sg["untranslated"] = True
                mst["sigs"][lname] = sg
    if all(v.get("ok") for v in status["modules"].values()) and REPO_IS_DEFAULT:
        # reference of the fully translated tree (committed; only ever rewritten from /repo itself)
        write_if_changed(ref_path, json.dumps(new_ref, indent=0, sort_keys=True))
    # dispatchers
    dl = ["-- GENERATED by tools/gen.py. Do not edit.", "import Driver.Proto"]
    dl += ["import " + i for i in dispatch_imports]
    dl += ["open GoldilocksVerif", "namespace Driver", ""]
    dl += ["/-- entries of modules with vector-region parameters (up to 72 argument tokens): arguments read from an array;",
           "    tried by Driver.Main when `genDispatch` has no entry -/",
           "def genDispatchLong (fn : String) (a : Array Arg) : Option (List (BitVec 64)) :=",
           "  match fn with"]
    dl += lean_long_arms
    dl += ["  | _ => none", ""]
    dl += ["def genDispatch (fn : String) (args : List Arg) : Option (List (BitVec 64)) :=",
           "  match fn, args with"]
    dl += lean_arms
    dl += ["  | _, _ => none", "", "end Driver", ""]
    write_if_changed(os.path.join(DRV_DIR, "GenDispatch.lean"), "\n".join(dl))
    # functions of the extended-translator modules (partial: fuel / Option; total ones too)
    pl = ["-- GENERATED by tools/gen.py. Do not edit.", "import Driver.Proto"]
    pl += ["import " + i for i in partial_imports]
    pl += ["open GoldilocksVerif", "namespace Driver", "",
           "/-- fuel given to every fuel-bounded loop of a partial generated function when it is executed -/",
           "def genFuel : Nat := 1099511627776", "",
           "def fmtP : Option (List (BitVec 64)) → String",
           "  | none => \"err exit 255\"",
           "  | some ws => if ws.isEmpty then \"ok\" else \"ok \" ++ fmtWords ws", "",
           "/-- a std::string result (mpz-mode modules) -/",
           "def fmtS : Option String → String",
           "  | none => \"err exit 255\"",
           "  | some s => if s.isEmpty then \"ok\" else \"ok s:\" ++ s", "",
           "/-- an mpz_class argument on the wire: hexadecimal numeral with optional '-' (string token) -/",
           "def intOfHex (s : String) : Int :=",
           "  match s.toList with",
           "  | '-' :: r => - (((parseHex (String.ofList r)).getD 0 : Nat) : Int)",
           "  | _ => (((parseHex s).getD 0 : Nat) : Int)", "",
           "def genDispatchP (fn : String) (args : List Arg) : Option String :=",
           "  match fn, args with"]
    pl += lean_partial_arms
    pl += ["  | _, _ => none", "", "end Driver", ""]
    write_if_changed(os.path.join(DRV_DIR, "GenDispatchP.lean"), "\n".join(pl))
    cl = ["// GENERATED by tools/gen.py. Do not edit.",
          "static bool gen_dispatch(const std::string &fn, Args &A) {"]
    cl += cpp_arms
    cl += ["  return false;", "}", ""]
    write_if_changed(os.path.join(HAR_DIR, "gen_dispatch.inc"), "\n".join(cl))
    # per-overload structural statements of the wrappers, from their signatures (C17)
    try:
        import wrapspec
        text, index, skipped = wrapspec.emit_lean(status)
        write_if_changed(os.path.join(os.path.dirname(GEN_DIR), "Props", "C17Gen.lean"), text)
        status["wrapspec"] = {"theorems": index, "skipped": skipped}
    except Exception as e:
        status["wrapspec"] = {"error": traceback.format_exc(limit=3)}
    # per-overload theorems of the batched / AVX2 / AVX512 cubic-extension routines, from their signatures (C16)
    try:
        import extspec, glob
        files, index, skipped = extspec.emit_lean(status)
        pdir = os.path.join(os.path.dirname(GEN_DIR), "Props")
        for fn, text in files.items():
            write_if_changed(os.path.join(pdir, fn), text)
        for old in glob.glob(os.path.join(pdir, "C16Gen_*.lean")):
            if os.path.basename(old) not in files:
                os.remove(old)
        status["extspec"] = {"theorems": index, "skipped": skipped, "files": sorted(files)}
    except Exception as e:
        status["extspec"] = {"error": traceback.format_exc(limit=3)}
    write_if_changed(os.path.join(GEN_DIR, "STATUS.json"), json.dumps(status, indent=1, sort_keys=True))
    bad = [k for k, v in status["modules"].items() if not v["ok"]]
    print("gen: %d modules, %d dispatch entries, %.1fs%s" % (
        len(MODS.MODULES), len(lean_arms) + len(lean_long_arms), time.time() - t0, (" ; NOT TRANSLATED: " + ",".join(bad)) if bad else ""))
    return 0


if __name__ == "__main__":
    sys.exit(main())
