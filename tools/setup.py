"""./check --setup : build everything the checks need from files on disk (offline)."""
import sys
from common import *


def main():
    st = run_gen()
    rc, out, dt = lake(["build", "GoldilocksVerif", "gldriver"], timeout=7200)
    log(out[-3000:])
    log("lake build: rc=%d %.0fs" % (rc, dt))
    h, err = build_harness("O1")
    if err:
        log(err)
    # a failing library build is not a setup failure: each check reports its own broken obligations
    return 0
