"""Shared machinery of the checks: builds, proof audit, correspondence runs, evidence, verdicts."""
import os, time, sys, re, json, subprocess, hashlib, time, shutil, tempfile, fcntl, random

HERE = os.path.dirname(os.path.abspath(__file__))
ROOT = os.path.dirname(HERE)
LEAN = os.path.join(ROOT, "lean")
HARNESS = os.path.join(ROOT, "harness")
BUILD = os.path.join(ROOT, "build")
EVID = os.environ.get("VERIF_EVIDENCE_DIR") or os.path.join(ROOT, "evidence")   # seeded-change runs write elsewhere
REPLAYS = os.path.join(ROOT, "replays")
REPO = os.environ.get("VERIF_REPO", "/repo")
SRC = os.path.join(REPO, "src")
NPROC = int(os.environ.get("VERIF_JOBS", str(os.cpu_count() or 4)))

P = 0xFFFFFFFF00000001
M64 = (1 << 64) - 1

ALLOWED_AXIOMS = {"propext", "Classical.choice", "Quot.sound"}
FORBIDDEN_RE = re.compile(r"\b(sorry|admit|native_decide|bv_decide|implemented_by|unsafe)\b|^\s*axiom\s|maxHeartbeats\s+0")

TRUSTED_BASE = [
    "Lean 4.33.0 kernel (thorough tier: re-checked with leanchecker)",
    "axioms allowed: propext, Classical.choice, Quot.sound (audited with #print axioms on every run)",
    "Mathlib v4.33.0 modules imported by Lemmas/ and Props/",
    "instruction semantics in lean/GoldilocksVerif/Isa (validated against this CPU by the correspondence run)",
    "translators tools/tr_cxx.py, tools/tr_asm.py over clang-14's AST; gcc's extended-asm contract",
    "correspondence harness harness/gl_harness.cpp and the generators in tools/",
]


def log(*a):
    print(*a, file=sys.stderr, flush=True)


# ---------------------------------------------------------------- RNG (SplitMix64: every case derives from one seed)
class Rng:
    def __init__(self, seed):
        self.s = seed & M64

    def next(self):
        self.s = (self.s + 0x9E3779B97F4A7C15) & M64
        z = self.s
        z = ((z ^ (z >> 30)) * 0xBF58476D1CE4E5B9) & M64
        z = ((z ^ (z >> 27)) * 0x94D049BB133111EB) & M64
        return z ^ (z >> 31)

    def below(self, n):
        return self.next() % n

    def choice(self, l):
        return l[self.below(len(l))]


BOUNDARY = sorted(set(
    [0, 1, 2, 3, 7, 0xFF, 0x100, 0x7FFFFFFF, 0x80000000, 0xFFFFFFFE, 0xFFFFFFFF, 0x100000000, 0x100000001,
     0x1FFFFFFFF, 0x7FFFFFFFFFFFFFFF, 0x8000000000000000, 0x8000000000000001,
     0xFFFFFFFE00000000, 0xFFFFFFFEFFFFFFFF, 0xFFFFFFFF00000000 - 1,
     P - 2, P - 1, P, P + 1, P + 2, 0xFFFFFFFF00000000, 0xFFFFFFFF7FFFFFFF, 0xFFFFFFFF80000000,
     0xFFFFFFFFFFFFFFFE, 0xFFFFFFFFFFFFFFFF, 0xFFFFFFFFFFFFFFFF - 0xFFFFFFFF, 0x00000000FFFFFFFF << 32,
     0x5555555555555555, 0xAAAAAAAAAAAAAAAA, (P - 1) // 2, (P + 1) // 2, 0x0000000100000000 - 2]))


def gen_word(rng):
    """boundary-directed 64-bit word"""
    k = rng.below(10)
    if k < 3:
        return rng.choice(BOUNDARY)
    if k == 3:
        return (rng.choice(BOUNDARY) + rng.below(5) - 2) & M64
    if k == 4:   # high half all ones / zeros, random low
        return ((rng.choice([0xFFFFFFFF, 0, 0x80000000, 0x7FFFFFFF, 0xFFFFFFFE]) << 32) | (rng.next() & 0xFFFFFFFF))
    if k == 5:   # random high, special low
        return ((rng.next() & 0xFFFFFFFF) << 32) | rng.choice([0, 1, 0xFFFFFFFF, 0xFFFFFFFE, 0x80000000])
    if k == 6:   # non-canonical band
        return P + rng.below(0xFFFFFFFF)
    if k == 7:   # sparse word (1-3 bits set) or its complement
        w = 0
        for _ in range(1 + rng.below(3)):
            w |= 1 << rng.below(64)
        return w if rng.below(4) else (~w) & M64
    return rng.next()


LIMBS = [0, 0, 1, 0xFFFFFFFF, 0xFFFFFFFE, 0x80000000, 0x7FFFFFFF]


def gen_pair_limbs(rng):
    """(a, b) whose exact 128-bit product has special 32-bit limbs (all-zero, all-one, single-bit or random):
    a is a power of two (sometimes +-1), b the shifted limb pattern.  Reaches carry/borrow conditions of the
    reduction that have probability ~2^-32 for uniform operands."""
    limbs = [rng.choice(LIMBS) if rng.below(3) else (rng.next() & 0xFFFFFFFF) for _ in range(4)]
    t = limbs[0] | (limbs[1] << 32) | (limbs[2] << 64) | (limbs[3] << 96)
    i = rng.below(64)
    a = 1 << i
    b = (t >> i) & M64
    if rng.below(4) == 0:
        a = (a + rng.choice([1, M64])) & M64
    if rng.below(2):
        a, b = b, a
    return a, b


def gen_pair_mul_band(rng):
    """(a, b) whose product is forced near a reduction boundary: a*b ≡ t with t a boundary value"""
    t = rng.choice(BOUNDARY) % P
    a = gen_word(rng)
    if a % P == 0:
        a = 3
    b = (t * pow(a % P, P - 2, P)) % P
    if rng.below(2) and b + P <= M64:
        b += P
    return a, b


def hx(v):
    return "%x" % v


# ---------------------------------------------------------------- locking / build cache
class Lock:
    def __init__(self, name):
        os.makedirs(BUILD, exist_ok=True)
        self.path = os.path.join(BUILD, name + ".lock")

    def __enter__(self):
        self.f = open(self.path, "w")
        fcntl.flock(self.f, fcntl.LOCK_EX)
        return self

    def __exit__(self, *a):
        fcntl.flock(self.f, fcntl.LOCK_UN)
        self.f.close()


def tree_hash(paths):
    h = hashlib.sha256()
    for p in paths:
        if os.path.isdir(p):
            for fn in sorted(os.listdir(p)):
                fp = os.path.join(p, fn)
                if os.path.isfile(fp):
                    h.update(fn.encode())
                    with open(fp, "rb") as f:
                        h.update(f.read())
        elif os.path.isfile(p):
            h.update(p.encode())
            with open(p, "rb") as f:
                h.update(f.read())
    return h.hexdigest()[:24]


def run_gen():
    """regenerate Gen/*.lean + dispatchers from /repo's current tree"""
    with Lock("gen"):
        p = subprocess.run([sys.executable, os.path.join(HERE, "gen.py")], stdout=subprocess.PIPE,
                           stderr=subprocess.STDOUT, timeout=600)
        out = p.stdout.decode()
        log(out.strip())
        try:
            with open(os.path.join(LEAN, "GoldilocksVerif", "Gen", "STATUS.json")) as f:
                return json.load(f)
        except Exception as e:
            return {"fatal": "no STATUS.json: %s; gen output: %s" % (e, out[-2000:])}


HARNESS_FLAVOURS = {
    "O1": ["-O1", "-g", "-DHARNESS_ALLOCLOG"],
    "O3": ["-O3", "-DHARNESS_ALLOCLOG"],
    "asan": ["-O1", "-g", "-fsanitize=address,undefined", "-fno-sanitize-recover=all", "-DHARNESS_EXACT"],
    # C12: the library compiled with -fopenmp as always, linked against harness/omp_standin.cpp instead of libgomp
    "ompseq": ["-O1", "-g", "-DHARNESS_OMP_STANDIN"],
    "tsan": ["-O1", "-g", "-fsanitize=thread", "-DHARNESS_OMP_STANDIN"],
    # ASan/UBSan with the stand-in runtime: team sizes and omp_get_max_threads() under control of the request line
    "asanseq": ["-O1", "-g", "-fsanitize=address,undefined", "-fno-sanitize-recover=all", "-DHARNESS_EXACT", "-DHARNESS_OMP_STANDIN"],
    # release-style build: `assert` compiled out (a refusal or a check that lives in an assert disappears there)
    "ndebug": ["-O2", "-DNDEBUG", "-DHARNESS_ALLOCLOG"],
}


def build_harness(flavour="O1", extra_defs=()):
    """compile harness + /repo/src/*.cpp (current working tree); cached by content hash under build/"""
    flags = ["-std=c++17", "-mavx2", "-mavx512f", "-D__AVX512__", "-fopenmp", "-w"] + HARNESS_FLAVOURS[flavour] + list(extra_defs)
    key = tree_hash([SRC, HARNESS]) + "-" + hashlib.sha256(" ".join(flags).encode()).hexdigest()[:8]
    cdir = os.path.join(BUILD, "harness", key)
    exe = os.path.join(cdir, "gl_harness")
    with Lock("harness-" + key):
        if os.path.exists(exe):
            return exe, None
        os.makedirs(cdir, exist_ok=True)
        srcs = [os.path.join(SRC, f) for f in sorted(os.listdir(SRC)) if f.endswith(".cpp")]
        tmp = tempfile.mkdtemp(prefix="glh_", dir=cdir)
        try:
            objs = []
            procs = []
            standin = "-DHARNESS_OMP_STANDIN" in flags
            extra_srcs = [os.path.join(HARNESS, "omp_standin.cpp")] if standin else []
            for s in srcs + [os.path.join(HARNESS, "gl_harness.cpp")] + extra_srcs:
                o = os.path.join(tmp, os.path.basename(s) + ".o")
                objs.append(o)
                procs.append((s, subprocess.Popen(["g++"] + flags + ["-I" + SRC, "-I" + HARNESS, "-c", s, "-o", o],
                                                  stdout=subprocess.PIPE, stderr=subprocess.STDOUT)))
            errs = []
            for s, pr in procs:
                out, _ = pr.communicate(timeout=900)
                if pr.returncode != 0:
                    errs.append("%s:\n%s" % (s, out.decode()[-3000:]))
            if errs:
                return None, "harness compile failed:\n" + "\n".join(errs)
            wrap = ["-Wl,--wrap=malloc", "-Wl,--wrap=free"] if "-DHARNESS_ALLOCLOG" in flags else []
            lflags = [f for f in flags if not (standin and f == "-fopenmp")] + (["-lpthread"] if standin else [])
            p = subprocess.run(["g++"] + lflags + wrap + objs + ["-lgmp", "-lgmpxx", "-o", exe + ".tmp"],
                               stdout=subprocess.PIPE, stderr=subprocess.STDOUT, timeout=600)
            if p.returncode != 0:
                return None, "harness link failed:\n" + p.stdout.decode()[-3000:]
            os.replace(exe + ".tmp", exe)
        finally:
            shutil.rmtree(tmp, ignore_errors=True)
        # keep the cache small: drop all but the 6 most recent harness builds
        try:
            hd = os.path.join(BUILD, "harness")
            ds = sorted((os.path.getmtime(os.path.join(hd, d)), d) for d in os.listdir(hd))
            for _, d in ds[:-6]:
                shutil.rmtree(os.path.join(hd, d), ignore_errors=True)
        except Exception:
            pass
    return exe, None


def lake(args, timeout=1800):
    with Lock("lake"):
        t0 = time.time()
        for attempt in (1, 2):
            try:
                p = subprocess.run(["lake"] + args, cwd=LEAN, stdout=subprocess.PIPE, stderr=subprocess.STDOUT, timeout=timeout)
            except subprocess.TimeoutExpired as e:
                return 124, "TIMEOUT after %ds\n%s" % (timeout, (e.stdout or b"").decode()[-3000:]), time.time() - t0
            out = p.stdout.decode()
            # a build that stops without any error message (lake or a lean worker killed from outside: OOM killer, a stray
            # signal) says nothing about the proofs: run it once more before reporting it
            if attempt == 1 and p.returncode != 0 and not re.search(r"^error", out, re.M):
                log("lake %s ended with status %d without an error message; retrying once" % (" ".join(args), p.returncode))
                continue
            return p.returncode, out, time.time() - t0


def build_driver():
    rc, out, dt = lake(["build", "gldriver"], timeout=1800)
    exe = os.path.join(LEAN, ".lake", "build", "bin", "gldriver")
    if rc != 0 or not os.path.exists(exe):
        return None, "gldriver build failed:\n" + out[-4000:]
    return exe, None


# ---------------------------------------------------------------- proofs
def lean_errors(out):
    errs = [l for l in out.splitlines() if l.startswith("error:") and "build failed" not in l and "Lean exited" not in l]
    return errs


def build_props(module, timeout=1500):
    """lake build one Props module. returns (ok, output, seconds)"""
    rc, out, dt = lake(["build", module], timeout=timeout)
    return rc == 0, out, dt


def list_theorems(prop_file, prefix):
    names = []
    ns = None
    with open(prop_file) as f:
        text = strip_comments(f.read())
    if True:
        for line in text.splitlines():
            m = re.match(r"\s*namespace\s+(\S+)", line)
            if m and ns is None:
                ns = m.group(1)
            m = re.match(r"\s*(?:private\s+)?theorem\s+(%s\w*)" % prefix, line)
            if m:
                names.append(m.group(1))
    return ns, names


def strip_comments(text):
    # remove /- ... -/ (nested) and -- comments
    out = []
    i, n, depth = 0, len(text), 0
    while i < n:
        if text.startswith("/-", i):
            depth += 1
            i += 2
        elif text.startswith("-/", i) and depth > 0:
            depth -= 1
            i += 2
        elif depth > 0:
            i += 1
        elif text.startswith("--", i):
            j = text.find("\n", i)
            i = n if j < 0 else j
        else:
            out.append(text[i])
            i += 1
    return "".join(out)


def local_imports(module):
    """transitive closure of GoldilocksVerif.* imports of a module (files under lean/)"""
    seen, todo = [], [module]
    while todo:
        m = todo.pop()
        if m in seen:
            continue
        seen.append(m)
        path = os.path.join(LEAN, *m.split(".")) + ".lean"
        if not os.path.exists(path):
            continue
        for line in open(path):
            mm = re.match(r"\s*import\s+(GoldilocksVerif\.\S+)", line)
            if mm:
                todo.append(mm.group(1))
    return seen


def audit_sources(module):
    """grep every local module the property depends on for forbidden constructs (outside comments)"""
    bad = []
    for m in local_imports(module):
        path = os.path.join(LEAN, *m.split(".")) + ".lean"
        if not os.path.exists(path):
            continue
        txt = strip_comments(open(path).read())
        for i, line in enumerate(txt.splitlines()):
            if FORBIDDEN_RE.search(line):
                bad.append("%s: %s" % (m, line.strip()[:120]))
    return bad


def print_axioms(module, ns, names):
    """-> dict name -> list of axioms | None (if not found)"""
    os.makedirs(os.path.join(BUILD, "audit"), exist_ok=True)
    f = os.path.join(BUILD, "audit", "Ax_%s_%d.lean" % (module.replace(".", "_"), os.getpid()))
    with open(f, "w") as fh:
        fh.write("import %s\n" % module)
        for n in names:
            fh.write("#print axioms %s.%s\n" % (ns, n))
    try:
        with Lock("lake"):
            p = subprocess.run(["lake", "env", "lean", f], cwd=LEAN, stdout=subprocess.PIPE, stderr=subprocess.STDOUT, timeout=900)
        out = p.stdout.decode()
    finally:
        try:
            os.remove(f)
        except OSError:
            pass
    res = {}
    flat = re.sub(r"\s+", " ", out)
    for n in names:
        q = "%s.%s" % (ns, n)
        m = re.search(r"'%s' depends on axioms: \[([^\]]*)\]" % re.escape(q), flat)
        if m:
            res[n] = [x.strip() for x in m.group(1).split(",") if x.strip()]
        elif re.search(r"'%s' does not depend on any axioms" % re.escape(q), flat):
            res[n] = []
        else:
            res[n] = None
    return res, out


def leanchecker(module, timeout=1800):
    with Lock("lake"):
        try:
            p = subprocess.run(["lake", "env", "leanchecker", module], cwd=LEAN, stdout=subprocess.PIPE,
                               stderr=subprocess.STDOUT, timeout=timeout)
            return p.returncode == 0, p.stdout.decode()[-2000:]
        except subprocess.TimeoutExpired:
            return False, "leanchecker timeout"


# ---------------------------------------------------------------- correspondence
def _run_lines(exe, lines, env=None, timeout=3600, stall=None):
    """feed `lines` to `exe`; returns (rc, reply lines, stderr tail).  A process that produces no further reply for
    `stall` seconds (default min(timeout, 150)), or runs longer than `timeout`, is killed: rc = 124 and the replies
    produced so far are returned (a hang is a result, not a crash of the check)."""
    import threading
    if env is None:
        # many harness processes run side by side: OpenMP teams must sleep, not spin, while waiting
        env = dict(os.environ)
        env.setdefault("OMP_WAIT_POLICY", "passive")
        env.setdefault("GOMP_SPINCOUNT", "0")
    stall = stall or min(timeout, 150)
    data = ("\n".join(lines) + "\n").encode()
    p = subprocess.Popen([exe], stdin=subprocess.PIPE, stdout=subprocess.PIPE, stderr=subprocess.PIPE, env=env)
    out, errb = [], []
    last = [time.time()]

    def rd_out():
        for l in p.stdout:
            out.append(l.decode(errors="replace").rstrip("\n"))
            last[0] = time.time()

    def rd_err():
        errb.append(p.stderr.read())

    def wr():
        try:
            p.stdin.write(data)
            p.stdin.close()
        except (BrokenPipeError, OSError):
            pass
    ths = [threading.Thread(target=f, daemon=True) for f in (rd_out, rd_err, wr)]
    for t in ths:
        t.start()
    t0 = time.time()
    killed = False
    while p.poll() is None:
        time.sleep(0.05)
        now = time.time()
        if now - last[0] > stall or now - t0 > timeout:
            p.kill()
            killed = True
            break
    p.wait()
    for t in ths:
        t.join(timeout=5)
    err = (errb[0] if errb else b"").decode(errors="replace")[-2000:]
    if killed:
        return 124, out, err + "\n[killed: no reply for %ds or total > %ds]" % (stall, timeout)
    return p.returncode, out, err


class _AnyReply(str):
    """stands for the model's reply when the model driver could not be built (its build failure is already a
    broken obligation): compares equal to every reply, so that the implementation-versus-specification part of a
    campaign still runs and can find the failing input."""
    def __eq__(self, other):
        return True

    def __ne__(self, other):
        return False

    def __hash__(self):
        return 0


NO_MODEL = "<no-model-driver>"


def run_parallel(exe, lines, jobs=None, env=None, timeout=3600):
    """run lines through exe in `jobs` chunks; returns list of replies aligned with lines.
    A chunk whose process dies is re-run line by line to locate the crashing line."""
    import concurrent.futures as cf
    jobs = jobs or NPROC
    n = len(lines)
    if n == 0:
        return []
    if exe is NO_MODEL:
        return [_AnyReply()] * n
    size = max(1, (n + jobs - 1) // jobs)
    chunks = [(i, lines[i:i + size]) for i in range(0, n, size)]
    res = [None] * n

    def work(ch):
        i0, ls = ch
        rc, out, err = _run_lines(exe, ls, env=env, timeout=timeout)
        if len(out) == len(ls) and rc == 0:
            return i0, out
        # crashed somewhere: bisect by running one at a time after the produced prefix
        outs = list(out[:len(ls)])
        k = len(outs)
        while k < len(ls):
            rc2, o2, e2 = _run_lines(exe, [ls[k]], env=env, timeout=min(timeout, 300))
            if o2 and rc2 == 0:
                outs.append(o2[0])
            else:
                tag = ("hang (killed)" if rc2 == 124 else "crash rc=%d" % rc2)
                m = re.search(r"(AddressSanitizer: [\w-]+|runtime error: [^\n]{0,80}|Assertion[^\n]{0,80})", e2)
                if m:
                    tag += " " + m.group(1)
                outs.append("err " + tag)
            k += 1
        return i0, outs

    with cf.ThreadPoolExecutor(max_workers=jobs) as ex:
        for i0, outs in ex.map(work, chunks):
            for k, o in enumerate(outs):
                res[i0 + k] = o
    return res


def relaunch_args():
    return sys.argv


# ---------------------------------------------------------------- known findings
def load_known_findings():
    path = os.path.join(ROOT, "known_findings.txt")
    known, fixed = [], []
    if os.path.exists(path):
        for line in open(path):
            line = line.strip()
            if not line or line.startswith("#"):
                continue
            if line.startswith("fixed:"):
                fixed.append(line)
            elif line.startswith("finding:"):
                # finding: property=Cxx key=<regex on failure key> <description>
                m = re.match(r"finding:\s*property=(\w+)\s+key=(\S+)\s+(.*)$", line)
                if m:
                    known.append({"property": m.group(1), "key": m.group(2), "what": m.group(3)})
    return known, fixed


# ---------------------------------------------------------------- evidence + verdict
class Result:
    def __init__(self, pid, tier, seed):
        self.pid = pid
        self.tier = tier
        self.seed = seed
        self.t0 = time.time()
        self.obligations = []       # theorem names expected
        self.discharged = []        # theorem names proved with allowed axioms
        self.broken = []            # (what, detail) proof/translation/correspondence obligations that no longer check
        self.failures = []          # dict(key, lines, expected, observed, note): concrete failing inputs (impl vs spec)
        self.evaluations = 0
        self.nontrivial = set()
        self.samples = []
        self.traces = 0
        self.rule = ""
        self.extra = {}
        self.assumptions = []
        self.checker_cmd = ""
        self.level = "proof"

    def note_case(self, key, nontrivial_tag=None):
        self.evaluations += 1
        if nontrivial_tag is not None:
            self.nontrivial.add((nontrivial_tag, key))

    def write_evidence(self, violations):
        os.makedirs(EVID, exist_ok=True)
        cov = {
            "obligations": max(1, len(self.obligations)),
            "discharged": len(self.discharged),
            "checker_cmd": self.checker_cmd or "lake build GoldilocksVerif.Props.%s && #print axioms on every theorem" % self.pid,
            "trusted_base": TRUSTED_BASE,
            "evaluations": self.evaluations,
            "distinct_nontrivial": len(self.nontrivial),
            "rule": self.rule,
            "samples": self.samples[:12] if self.samples else ["(no correspondence cases in this run)"],
            "traces_validated_against_impl": self.traces,
            "theorems": self.obligations,
            "undischarged": [t for t in self.obligations if t not in self.discharged],
            "broken_obligations": [b[0] for b in self.broken],
        }
        cov.update(self.extra)
        ev = {
            "property_id": self.pid, "tier": self.tier, "seed": self.seed, "level": self.level,
            "coverage": cov, "assumptions": self.assumptions, "wall_s": round(time.time() - self.t0, 2),
            "violations": violations,
        }
        tmp = os.path.join(EVID, "%s.json.tmp%d" % (self.pid, os.getpid()))
        with open(tmp, "w") as f:
            json.dump(ev, f, indent=1)
        os.replace(tmp, os.path.join(EVID, "%s.json" % self.pid))

    def write_replay(self, kind, payload):
        os.makedirs(REPLAYS, exist_ok=True)
        body = json.dumps(payload, indent=1, sort_keys=True)
        h = hashlib.sha256(body.encode()).hexdigest()[:10]
        path = os.path.join(REPLAYS, "%s-%s-%s.json" % (self.pid, kind, h))
        with open(path, "w") as f:
            f.write(body)
        return path

    def finish(self):
        """print verdict lines, write evidence, return exit status"""
        known, _ = load_known_findings()
        known = [k for k in known if k["property"] == self.pid]
        unlisted = []
        listed_hit = {}
        for fl in self.failures:
            hit = None
            for k in known:
                if re.fullmatch(k["key"], fl["key"]):
                    hit = k
                    break
            if hit:
                listed_hit.setdefault(hit["key"], (hit, []))[1].append(fl)
            else:
                unlisted.append(fl)
        status = 0
        for key, (k, fls) in listed_hit.items():
            print("KNOWN-FINDING: property=%s %s (key %s, %d failing cases this run)" % (self.pid, k["what"], key, len(fls)))
        nviol = 0
        if unlisted:
            bykey = {}
            for fl in unlisted:
                bykey.setdefault(fl["key"], []).append(fl)
            path = self.write_replay("input", {"property": self.pid, "kind": "failing-input",
                                               "keys": sorted(bykey),
                                               "cases": [c for k in sorted(bykey) for c in bykey[k][:5]],
                                               "broken_obligations": [[w, d[-3000:]] for w, d in self.broken[:10]]})
            print("VIOLATION property=%s replay=%s" % (self.pid, path))
            nviol += 1
            status = 1
        # broken obligations not explained by any concrete failure (listed or not)
        if self.broken and not self.failures:
            path = self.write_replay("obligation", {"property": self.pid, "kind": "broken-obligation",
                                                    "obligations": [{"what": w, "detail": d[-6000:]} for w, d in self.broken]})
            print("VIOLATION property=%s replay=%s no-failing-input-found" % (self.pid, path))
            nviol += 1
            status = 1
        elif self.broken and not unlisted:
            # broken obligations explained only by listed findings: still not shown to hold beyond them
            for w, d in self.broken:
                log("note: obligation broken (explained by listed finding): %s" % w)
        self.write_evidence(nviol)
        if status == 0:
            print("OK property=%s tier=%s obligations=%d/%d evaluations=%d nontrivial=%d wall=%.1fs" % (
                self.pid, self.tier, len(self.discharged), len(self.obligations), self.evaluations,
                len(self.nontrivial), time.time() - self.t0))
        return status


def standard_proof_phase(res, module, prefix, gen_status, needed_modules, thorough=False, timeout=1500):
    """translation status + lake build + audit + axioms. Fills res.obligations/discharged/broken."""
    prop_file = os.path.join(LEAN, *module.split(".")) + ".lean"
    ns, names = list_theorems(prop_file, prefix)
    res.obligations = names
    res.checker_cmd = "cd lean && lake build %s ; lake env lean <#print axioms of %d theorems>%s" % (
        module, len(names), " ; lake env leanchecker " + module if thorough else "")
    def fingerprints(discharged):
        # hand models: the functions they mirror must still have the text they were written from (tools/handmodels.py),
        # unless the function is also translated and its bridge theorems were re-proved on this run (discharged)
        try:
            import handmodels
            if discharged is None:
                hm, sup = handmodels.compare(res.pid), []
            else:
                hm, sup = handmodels.compare(res.pid, discharged)
            res.extra["hand_model_fingerprints"] = "match" if not hm and not sup else "%d function(s) differ, %d of them superseded by re-proved bridge theorems" % (len(hm) + len(sup), len(sup))
            if sup:
                res.extra["hand_model_fingerprints_superseded"] = sup
            for w, d in hm:
                res.broken.append((w, d))
        except Exception as e:
            res.broken.append(("hand-model fingerprints (tools/handmodels.py)", repr(e)))
    if gen_status.get("fatal"):
        fingerprints(None)
        res.broken.append(("translation (clang AST)", gen_status["fatal"]))
        return False
    if gen_status.get("operators_missing"):
        res.broken.append(("operator mapping of goldilocks_base_field.hpp changed", "\n".join(gen_status["operators_missing"])))
    for m in needed_modules:
        st = gen_status.get("modules", {}).get(m)
        if st is None or not st.get("ok"):
            res.broken.append(("translation of module %s" % m, "\n".join((st or {}).get("errors", ["module missing"]))))
    ok, out, dt = build_props(module, timeout=timeout)
    res.extra["lake_build_s"] = round(dt, 1)
    if not ok:
        errs = lean_errors(out)
        fingerprints(None)
        res.broken.append(("lake build %s" % module, "\n".join(errs[:40]) + "\n----\n" + out[-5000:]))
        return False
    bad = audit_sources(module)
    if bad:
        fingerprints(None)
        res.broken.append(("source audit (sorry/admit/axiom/native_decide/...)", "\n".join(bad)))
        return False
    ax, raw = print_axioms(module, ns, names)
    for n in names:
        a = ax.get(n)
        if a is None:
            res.broken.append(("#print axioms %s" % n, raw[-2000:]))
        elif set(a) - ALLOWED_AXIOMS:
            res.broken.append(("axioms of %s" % n, ", ".join(a)))
        else:
            res.discharged.append(n)
    res.extra["axioms"] = {n: ax.get(n) for n in names}
    # translation, build, audit and axioms all fine so far: bridge theorems among the discharged ones count
    fingerprints(set(res.discharged) if not res.broken else None)
    if thorough:
        okc, outc = leanchecker(module)
        res.extra["leanchecker"] = "ok" if okc else outc
        if not okc:
            res.broken.append(("leanchecker %s" % module, outc))
    return not res.broken


# ---------------------------------------------------------------- generic campaigns over generated dispatch entries
def dispatch_signatures():
    """name -> list of 'w' / 'r' argument kinds, parsed from the generated Lean dispatcher"""
    sigs = {}
    path = os.path.join(LEAN, "Driver", "GenDispatch.lean")
    if not os.path.exists(path):
        return sigs
    for l in open(path):
        m = re.match(r'\s*\| "(\w+)", \[(.*?)\] =>', l)
        if m:
            pats = [p.strip() for p in m.group(2).split(",") if p.strip()]
            sigs[m.group(1)] = ["w" if p.startswith(".w") else "r" for p in pats]
    return sigs


def parse_reply(r):
    if r is None or not r.startswith("ok"):
        return None
    try:
        return [int(x, 16) for x in r.split()[1:]]
    except ValueError:
        return None


def dedup_broken(res, limit=12):
    seen, out = set(), []
    for w, d in res.broken:
        if w in seen:
            continue
        seen.add(w)
        out.append((w, d))
    res.broken = out[:limit]


def with_reg_alias(cases, status, every=4):
    """add, for one case in `every` of each kernel that has them, the in-place call patterns `<op>__ra<o>_<k>` (the output
    register object is also the input register k: `f(x, x, b)`, `f(x, a, x)`): same request, same model reply (value semantics),
    same specification; a kernel that writes its output reference before it has read that input answers differently"""
    ra = status.get("reg_alias") or {}
    out = list(cases)
    count = {}
    for c in cases:
        toks = c["line"].split(" ", 1)
        op = toks[0].lstrip("!^")
        vs = ra.get(op)
        if not vs:
            continue
        count[op] = count.get(op, 0) + 1
        if count[op] % every:
            continue
        v = vs[(count[op] // every) % len(vs)]
        cc = dict(c)
        cc["line"] = toks[0].replace(op, v) + (" " + toks[1] if len(toks) > 1 else "")
        cc["key"] = v
        if cc.get("tag"):
            cc["tag"] = "%s|in-place" % cc["tag"]
        out.append(cc)
    return out


def corr_campaign(res, harness, driver, cases, flavour, spec=None):
    """cases: list of dict(line, key, tag(optional nontrivial tag), expect(optional fn(list[int]) -> (ok, expected_str)))
    compares implementation with model (correspondence) and, when `expect` is present, implementation with spec."""
    lines = [c["line"] for c in cases]
    impl = run_parallel(harness, lines)
    model = run_parallel(driver, lines)
    for c, ri, rm in zip(cases, impl, model):
        res.note_case(c["line"], c.get("tag"))
        if c.get("expect") is not None:
            vals = parse_reply(ri)
            ok, exp = (False, "a reply") if vals is None else c["expect"](vals)
            if not ok:
                res.failures.append({"key": c["key"], "lines": [c["line"][:4000]], "expected": exp, "observed": (ri or "")[:2000],
                                     "note": "implementation (%s build) vs specification" % flavour})
        if rm == "err unknown-op" and ri != rm and res.broken:
            # the function could not be translated on this tree (already a broken obligation): implementation vs oracle only
            res.extra["cases_without_model"] = res.extra.get("cases_without_model", 0) + 1
        elif ri != rm:
            res.broken.append(("correspondence %s: implementation != model" % c["key"],
                               "line: %s\nimpl : %s\nmodel: %s" % (c["line"][:2000], (ri or "")[:1000], (rm or "")[:1000])))
        else:
            res.traces += 1
    if len(res.samples) < 8:
        res.samples.extend({"line": l[:300], "impl": (i or "")[:200], "model": (m or "")[:200]} for l, i, m in list(zip(lines, impl, model))[:4])
    dedup_broken(res)
