"""File-scope vector constants of the AVX headers (MSB, P, P_n, P_s, sqmask, P8, P8_n, sqmask8).
They are not members of a class, so the filtered AST dump does not contain them; they are read from
the preprocessed text (clang -E -P) with a tiny expression parser."""
import re, subprocess, os, tempfile
from astload import CLANG_FLAGS, SRC
from tr_cxx import INTRIN


class GlobalsError(Exception):
    pass


def _tokenize(s):
    toks = re.findall(r"0[xX][0-9a-fA-F]+[uUlL]*|\d+[uUlL]*|[A-Za-z_]\w*|[(),]", s)
    return toks


def _parse(toks, i, known):
    t = toks[i]
    if re.match(r"^(0[xX][0-9a-fA-F]+|\d+)", t):
        v = int(re.sub(r"[uUlL]+$", "", t), 0)
        return "%d#64" % (v % (1 << 64)), i + 1
    if t == "(":
        # cast "(type)" expr  or parenthesised expr
        j = i + 1
        depth = 1
        while depth:
            if toks[j] == "(":
                depth += 1
            elif toks[j] == ")":
                depth -= 1
            j += 1
        inner = toks[i + 1:j - 1]
        if inner and all(re.match(r"^[A-Za-z_]\w*$", x) for x in inner) and j < len(toks) and toks[j] not in (",", ")"):
            return _parse(toks, j, known)      # a cast: ignore the type
        term, k = _parse(toks, i + 1, known)
        if toks[k] != ")":
            raise GlobalsError("expected )")
        return term, k + 1
    if re.match(r"^[A-Za-z_]\w*$", t):
        if i + 1 < len(toks) and toks[i + 1] == "(":
            args = []
            k = i + 2
            while toks[k] != ")":
                a, k = _parse(toks, k, known)
                args.append(a)
                if toks[k] == ",":
                    k += 1
            if t not in INTRIN:
                raise GlobalsError("unknown function " + t)
            lname, kinds = INTRIN[t]
            if lname is None:
                return args[0], k + 1
            return "(%s %s)" % (lname, " ".join(args)), k + 1
        if t in known:
            return known[t], i + 1
        raise GlobalsError("unknown identifier " + t)
    raise GlobalsError("unexpected token " + t)


def read_globals():
    """-> list of (cname, leanname, leantype, leanterm) in declaration order"""
    with tempfile.TemporaryDirectory(prefix="glg_") as d:
        tu = os.path.join(d, "g.cpp")
        with open(tu, "w") as f:
            f.write('#include "goldilocks_base_field.hpp"\n')
        flags = [x for x in CLANG_FLAGS if x != "-fsyntax-only"]
        p = subprocess.run(["clang++-14"] + flags + ["-E", "-P", tu], stdout=subprocess.PIPE, stderr=subprocess.PIPE, timeout=120)
        if p.returncode != 0:
            raise GlobalsError(p.stderr.decode()[:500])
        txt = p.stdout.decode()
    out, known = [], {}
    for m in re.finditer(r"^(?:static\s+)?const\s+(__m256i|__m512i)\s+(\w+)\s*=\s*(.*?);\s*$", txt, re.M):
        ty, name, expr = m.group(1), m.group(2), m.group(3)
        toks = _tokenize(expr)
        term, k = _parse(toks, 0, known)
        if k != len(toks):
            raise GlobalsError("trailing tokens in initialiser of " + name)
        lname = "g_" + name
        known[name] = lname
        out.append((name, lname, "V4" if ty == "__m256i" else "V8", term))
    return out
