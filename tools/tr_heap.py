"""HEAP mode of the C++ translator (module flag "heap" in tools/modules.py): code whose pointers are VALUES.

The basic and the extended mode of tr_cxx.py model `T *p` by the CONTENT of the memory p designates (a `Region`): that
cannot express `tmp = a2; a2 = a; a = tmp;`, `if (a != dst_)`, `if (dst == NULL)`, pointers kept in object members, `malloc`
/ `free` / `new[]` / `delete[]`.  In heap mode (ntt_goldilocks.cpp / .hpp)

  * memory is ONE value `hp : Heap` (list of blocks, Model/TrHeap.lean) threaded through every function that touches memory;
  * `Goldilocks::Element *` is `Ptr` (block number, word offset); NULL = block 0; pointer assignment, comparison, `&p[i]`;
  * data members are the fields of a generated structure (`structure NTT_Goldilocks`), a method takes `self` and returns it
    when it assigns members; constructor = function returning (heap, object); destructor = function on the heap;
    a local object (`NTT_Goldilocks ntt_extension(...)`) is a constructor call, its destructor runs at the function's ends;
  * `int` is `Int` (exact while the C++ arithmetic does not overflow), `uint32_t` is `BitVec 32`, conversions explicit (`I32`);
  * `assert(c)` = `if c then … else none` (the process is aborted), `throw` = `none`;
  * `mpz_*` calls: `mpz_t` is `Nat`, each GMP function is its documented result (`Gmp` in Model/TrHeap.lean);
  * `omp_set_dynamic`, `omp_set_num_threads`: no effect on the sequential model; `#pragma omp parallel for` loops are
    translated sequentially (as in the extended mode).

Everything else (statement sequencing with early exits, if-joins, counted / fuel-bounded loops lifted to top-level
definitions, partial functions) is inherited from the extended mode of tr_cxx.FnCtx.
"""
import re
import tr_cxx
from tr_cxx import (FnCtx, FnInfo, Unsupported, NeedPartial, Const, NatExpr, classify, qt, strip_cv, lean_ident,
                    LEAN_TY, ZERO_OF, NAT_LO)

HEAP, SELF = "__heap__", "__self__"
LEAN_TY.setdefault("hptr", "Ptr")
LEAN_TY.setdefault("heap", "Heap")
LEAN_TY.setdefault("mpz", "Nat")
ZERO_OF.setdefault("hptr", "Ptr.null")
ZERO_OF.setdefault("mpz", "0")

RESERVED = {"hp", "self", "fuel", "st__"}

NOOP_FNS = {"omp_set_dynamic", "omp_set_num_threads", "__gmpz_clear"}
# GMP procedures: name -> (index of the written mpz argument, builder(args terms) -> Lean Nat term)
GMP_PROCS = {
    "__gmpz_init": lambda a: "0",
    "__gmpz_set_ui": lambda a: a[1],
    "__gmpz_set": lambda a: a[1],
    "__gmpz_add_ui": lambda a: "(%s + %s)" % (a[1], a[2]),
    "__gmpz_fdiv_q_2exp": lambda a: "(Gmp.fdiv_q_2exp %s %s)" % (a[1], a[2]),
    "__gmpz_powm": lambda a: "(Gmp.powm %s %s %s)" % (a[1], a[2], a[3]),
    "__gmpz_invert": lambda a: "(Gmp.invert %s %s)" % (a[1], a[2]),
}
GMP_VALUES = {   # name -> (result category, builder)
    "__gmpz_cmp_ui": ("int", lambda a: "(Gmp.cmp_ui %s %s)" % (a[0], a[1])),
    "__gmpz_tstbit": ("int", lambda a: "(Gmp.tstbit %s %s)" % (a[0], a[1])),
    "__gmpz_get_ui": ("u64", lambda a: "(Gmp.get_ui %s)" % a[0]),
}

CAST_KINDS = ("ImplicitCastExpr", "CStyleCastExpr", "CXXStaticCastExpr", "CXXFunctionalCastExpr", "CXXReinterpretCastExpr")


class HeapMode:
    """per-module state of the heap mode: the class whose data members form the object state"""

    def __init__(self, ast, cls):
        self.ast = ast
        self.cls = cls
        self.fields = []        # dict(name, lname, cat, id, init node)
        rec = [o for o in ast.objs if o.get("kind") == "CXXRecordDecl" and o.get("name") == cls and
               any(c.get("kind") == "FieldDecl" for c in o.get("inner", []))]
        if len(rec) != 1:
            raise Unsupported({"kind": "CXXRecordDecl"}, "definition of class %s not found" % cls)
        self.record = rec[0]

    def setup(self, tr):
        """emit the object-state structure and its initial value (in-class initialisers; every other member is
        uninitialised in C++ and modelled as zero / NULL)"""
        LEAN_TY["obj"] = self.cls
        ctx = HeapCtx(tr, None)
        for f in self.record.get("inner", []):
            if f.get("kind") != "FieldDecl":
                continue
            cat = ctx.hcat(qt(f))
            if cat == "i64":
                cat = "u64"
            if cat not in ("u64", "u32", "int", "bool", "hptr"):
                raise Unsupported(f, "data member of type " + f["type"]["qualType"])
            init = [c for c in f.get("inner", []) if "kind" in c]
            self.fields.append({"name": f["name"], "lname": lean_ident(f["name"]), "cat": cat, "id": f["id"],
                                "init": init[0] if init else None})
        lines = ["/-- the data members of `class %s` -/" % self.cls, "structure %s where" % self.cls]
        for f in self.fields:
            lines.append("  %s : %s" % (f["lname"], LEAN_TY[f["cat"]]))
        tr.items.append("\n".join(lines))
        inits = []
        for f in self.fields:
            v = ZERO_OF[f["cat"]]
            if f["init"] is not None:
                v = ctx.as_ty(ctx.ex(f["init"]), f["cat"])
            inits.append("%s := %s" % (f["lname"], v))
        tr.items.append("/-- members before the constructor body runs: in-class initialisers; the others are uninitialised in C++\n"
                        "    (modelled as zero / NULL) -/\ndef %s.init : %s :=\n  { %s }" % (self.cls, self.cls, ", ".join(inits)))

    def field(self, node):
        mid = node.get("referencedMemberDecl")
        for f in self.fields:
            if f["id"] == mid:
                return f
        for f in self.fields:
            if f["name"] == node.get("name"):
                return f
        raise Unsupported(node, "unknown data member " + str(node.get("name")))

    def wants(self, d):
        """functions translated in heap mode right away: members of the class, functions with pointer parameters"""
        if d.get("_class") == self.cls:
            return True
        for p in d.get("inner", []):
            if p.get("kind") == "ParmVarDecl" and classify(p["type"]["qualType"])[0] in ("ptr", "arr"):
                return True
        return False

    def translate_fn(self, tr, d, alias, basic_error=None):
        if alias:
            raise Unsupported(d, "aliased call pattern in heap mode")
        try:
            return HeapCtx(tr, d, partial=False).translate()
        except NeedPartial:
            return HeapCtx(tr, d, partial=True).translate()


class HeapCtx(FnCtx):
    def __init__(self, tr, decl, partial=False):
        super().__init__(tr, decl, ext=True, partial=partial)
        self.hm = tr.heap_mode
        self.frames = []
        self.cname_env = {}
        self.var_inits = {}

    # ------------------------------------------------------------ types
    def hcat(self, t):
        t0 = strip_cv(t.strip())
        if t0.endswith("&"):
            t0 = strip_cv(t0[:-1].strip())
        if re.match(r"^(mpz_t|__mpz_struct\s*\[1\]|(const\s+)?__mpz_struct\s*\*|mpz_srcptr|mpz_ptr)$", t0):
            return "mpz"
        if self.hm is not None and t0 == self.hm.cls:
            return "obj"
        if re.match(r"^(Goldilocks::)?Element\s*\[\s*(\d+|[A-Za-z_]\w*)\s*\]$", t0):
            return "vla"       # stack array of field elements, run-time or compile-time sized: a block of its own
        c, ex = classify(t0)
        if c == "ptr":
            return "hptr" if ex[0] == "u64" else "other"
        if c in ("u64", "bool", "void"):
            return c
        if c == "int":
            if ex in ("unsigned int", "uint32_t", "u_int32_t"):
                return "u32"
            if ex in ("int", "int32_t"):
                return "int"
            if ex in ("long", "long long", "int64_t"):
                return "i64"     # 64-bit signed: kept as the 64-bit pattern (only shifts / conversions occur)
        if t0 in ("u_int32_t", "uint32_t"):
            return "u32"
        if t0 in ("u_int64_t", "uint64_t"):
            return "u64"
        return "other"

    def ncat(self, n):
        return self.hcat(qt(n))

    def as_ty(self, t, cat):
        if cat in ("u64", "i64"):
            return self.as_u64(t)
        if cat == "u32":
            if isinstance(t, Const):
                return "%d#32" % (t.v % (1 << 32))
            if isinstance(t, NatExpr):
                return "(BitVec.ofNat 32 %s)" % t.t
            return t
        if cat == "int":
            if isinstance(t, Const):
                return "(%d : Int)" % t.v
            if isinstance(t, NatExpr):
                return "(Int.ofNat %s)" % t.t
            return t
        if cat == "bool":
            if isinstance(t, Const):
                return "true" if t.v != 0 else "false"
            return t
        return self.show(t)

    def nat_of(self, t, node):
        if isinstance(t, Const):
            if t.v < 0:
                raise Unsupported(node, "negative count / index")
            return str(t.v)
        if isinstance(t, NatExpr):
            return t.t
        return "(%s).toNat" % t

    def index(self, idx):
        return self.nat_of(self.ex(idx), idx)

    # ------------------------------------------------------------ expressions
    def ex(self, n):
        n = self.skip(n)
        k = n.get("kind")
        if k in ("GNUNullExpr", "CXXNullPtrLiteralExpr"):
            return "Ptr.null"
        if k == "CXXDefaultArgExpr":
            raise Unsupported(n, "default argument outside a call of a translated function")
        if k == "MemberExpr":
            if n.get("name") == "fe":
                return self.ex(n["inner"][0])
            return self.member_read(n)
        if k in CAST_KINDS:
            return self.cast(n)
        if k == "ArraySubscriptExpr":
            p = self.ptr(n["inner"][0])
            return "(Heap.get hp %s %s)" % (p, self.index(n["inner"][1]))
        if k == "UnaryOperator":
            return self.unop(n)
        if k == "ConditionalOperator":
            c = self.cond(n["inner"][0])
            if c == "true":
                return self.ex(n["inner"][1])
            if c == "false":
                return self.ex(n["inner"][2])
            cat = self.ncat(n)
            self.no_hoist += 1
            try:
                a = self.ex(n["inner"][1])
                b = self.ex(n["inner"][2])
            finally:
                self.no_hoist -= 1
            return "(if %s then %s else %s)" % (c, self.as_ty(a, cat), self.as_ty(b, cat))
        if k == "CXXMemberCallExpr":
            return self.member_call(n, True)
        if k == "CXXNewExpr":
            if not n.get("isArray"):
                raise Unsupported(n, "scalar new")
            cnt = self.nat_of(self.ex(n["inner"][0]), n)
            return self.alloc(cnt, n)
        return super().ex(n)

    def ptr(self, n):
        n = self.skip(n)
        while n.get("kind") in CAST_KINDS and n.get("castKind") in ("BitCast", "NoOp", "LValueToRValue", "ArrayToPointerDecay"):
            n = self.skip(n["inner"][0])
        if n.get("kind") == "CallExpr" and self.callee_name(n) == "malloc":
            return self.ex(n)
        if self.ncat(n) not in ("hptr", "vla"):
            raise Unsupported(n, "pointer expression of type " + qt(n))
        return self.ex(n)

    def lifted_body(self, stmts, term, pre=None):
        # declarations directly in a lifted loop body would need their scope end at every exit of the body
        self.frames.append({"vlas": [], "objs": [], "kind": "flat"})
        try:
            return super().lifted_body(stmts, term, pre)
        finally:
            self.frames.pop()

    def region(self, n):
        return self.ex(n)

    def member_read(self, n):
        base = self.skip(n["inner"][0])
        f = self.hm.field(n)
        if base.get("kind") == "CXXThisExpr":
            return "self.%s" % f["lname"]
        if base.get("kind") == "DeclRefExpr":
            e = self.env.get(base["referencedDecl"]["id"])
            if e is not None and e["cat"] == "obj":
                return "%s.%s" % (e["name"], f["lname"])
        raise Unsupported(n, "member access")

    def cast(self, n):
        ck = n.get("castKind")
        inner = n["inner"][0]
        if ck == "NullToPointer":
            return "Ptr.null"
        if ck in ("NoOp", "BitCast", "LValueToRValue", "ArrayToPointerDecay", "DerivedToBase", "ConstructorConversion"):
            return self.ex(inner)
        if ck == "IntegralCast":
            return self.intcast(self.ex(inner), self.ncat(inner), self.ncat(n), n)
        if ck == "IntegralToBoolean":
            v = self.ex(inner)
            if isinstance(v, Const):
                return "true" if v.v != 0 else "false"
            src = self.ncat(inner)
            if src == "bool":
                return v
            return "(%s != %s)" % (self.as_ty(v, src), self.as_ty(Const(0), src))
        if ck == "PointerToBoolean":
            return "(%s != Ptr.null)" % self.ex(inner)
        raise Unsupported(n, "cast kind %s" % ck)

    def intcast(self, v, src, dst, n):
        if isinstance(v, NatExpr):
            return v
        if isinstance(v, Const):
            if dst in ("u64", "i64"):
                return Const(v.v % (1 << 64))
            if dst == "u32":
                return Const(v.v % (1 << 32))
            if dst == "int":
                w = v.v % (1 << 32)
                return Const(w - (1 << 32) if w >= (1 << 31) else w)
            return v
        w64 = ("u64", "i64")
        if src == dst or (src in w64 and dst in w64):
            return v
        if src == "bool":
            if dst in ("u64", "i64", "u32", "int"):
                return "(if %s then %s else %s)" % (v, self.as_ty(Const(1), dst), self.as_ty(Const(0), dst))
        if src == "u32" and dst in w64:
            return "(BitVec.setWidth 64 %s)" % v
        if src in w64 and dst == "u32":
            return "(BitVec.setWidth 32 %s)" % v
        if src in w64 and dst == "int":
            return "(I32.ofU64 %s)" % v
        if src == "int" and dst in w64:
            return "(I32.toU64 %s)" % v
        if src == "u32" and dst == "int":
            return "(I32.ofU32 %s)" % v
        if src == "int" and dst == "u32":
            return "(I32.toU32 %s)" % v
        raise Unsupported(n, "integral cast %s -> %s" % (src, dst))

    def unop(self, n):
        op = n["opcode"]
        inner = n["inner"][0]
        if op == "&":
            i0 = self.skip(inner)
            if i0.get("kind") == "ArraySubscriptExpr":
                p = self.ptr(i0["inner"][0])
                i = self.index(i0["inner"][1])
                return p if i == "0" else "(Ptr.add %s %s)" % (p, i)
            if i0.get("kind") == "MemberExpr" and i0.get("name") == "fe":
                return self.unop({"kind": "UnaryOperator", "opcode": "&", "inner": [i0["inner"][0]]})
            if i0.get("kind") == "UnaryOperator" and i0.get("opcode") == "*":
                return self.ptr(i0["inner"][0])
            raise Unsupported(n, "address of a variable")
        if op == "*":
            return "(Heap.get hp %s 0)" % self.ptr(inner)
        if op == "__extension__":
            return self.ex(inner)
        cat = self.ncat(n)
        if op == "-":
            v = self.ex(inner)
            if isinstance(v, Const):
                return Const(-v.v)
            return "(- %s)" % self.as_ty(v, cat)
        if op == "+":
            return self.ex(inner)
        if op == "!":
            v = self.cond(inner)
            if v == "true":
                return "false"
            if v == "false":
                return "true"
            return "(!%s)" % v
        if op == "~":
            v = self.ex(inner)
            return "(~~~%s)" % self.as_ty(v, cat)
        raise Unsupported(n, "unary " + op)

    def from_bool(self, n):
        """the bool expression under an implicit bool -> int conversion, or None"""
        n = self.skip(n)
        if n.get("kind") in CAST_KINDS and n.get("castKind") == "IntegralCast" and self.ncat(n["inner"][0]) == "bool":
            return n["inner"][0]
        return None

    def binop(self, n):
        op = n["opcode"]
        a, b = n["inner"][0], n["inner"][1]
        if op in ("=", ","):
            raise Unsupported(n, "assignment / comma inside an expression")
        ta, tb = self.ncat(a), self.ncat(b)
        if "hptr" in (ta, tb) or "vla" in (ta, tb):
            if op in ("==", "!="):
                return "(%s %s %s)" % (self.ex(a), op, self.ex(b))
            if op == "+" and ta in ("hptr", "vla"):
                return "(Ptr.add %s %s)" % (self.ptr(a), self.index(b))
            raise Unsupported(n, "pointer operator " + op)
        if op in ("&&", "||"):
            x = self.cond(a)
            self.no_hoist += 1
            try:
                y = self.cond(b)
            finally:
                self.no_hoist -= 1
            if op == "&&":
                if x == "false" or y == "false":
                    return "false"
                if x == "true":
                    return y
                if y == "true":
                    return x
            else:
                if x == "true" or y == "true":
                    return "true"
                if x == "false":
                    return y
                if y == "false":
                    return x
            return "(%s %s %s)" % (x, op, y)
        if op in ("==", "!="):
            ba, bb = self.from_bool(a), self.from_bool(b)
            if ba is not None and bb is not None:
                return "(%s %s %s)" % (self.cond(ba), op, self.cond(bb))
        x, y = self.ex(a), self.ex(b)
        if (isinstance(x, NatExpr) or isinstance(y, NatExpr)) and isinstance(x, (NatExpr, Const)) and isinstance(y, (NatExpr, Const)):
            X, Y = NatExpr.lift(x), NatExpr.lift(y)
            if op == "+":
                return X.add(Y)
            if op == "-":
                try:
                    r = X.add(Y, -1)
                    r.t
                    return r
                except Unsupported:
                    pass
            if op == "*" and not Y.coeffs:
                return X.scale(Y.const)
            if op == "*" and not X.coeffs:
                return Y.scale(X.const)
        tc = ta if (op in ("<<", ">>") or ta == tb) else (tb if isinstance(x, (Const, NatExpr)) else ta)
        if isinstance(x, Const) and isinstance(y, Const):
            r = self.fold(op, x.v, y.v, tc, n)
            if r is not None:
                return r
        rel = {"<": "<", ">": ">", "<=": "≤", ">=": "≥"}
        if tc in ("u64", "i64", "u32"):
            w = "u32" if tc == "u32" else "u64"
            xs = self.as_ty(x, w)
            if op in ("<<", ">>"):
                return "(%s %s %s)" % (xs, "<<<" if op == "<<" else ">>>", self.nat_of(y, b))
            ys = self.as_ty(y, w)
            if op in ("+", "-", "*", "&", "|", "^", "/", "%"):
                lop = {"&": "&&&", "|": "|||", "^": "^^^"}.get(op, op)
                if tc == "i64" and op in ("/", "%"):
                    raise Unsupported(n, "signed 64-bit division")
                return "(%s %s %s)" % (xs, lop, ys)
            if op in rel:
                if tc == "i64":
                    raise Unsupported(n, "signed 64-bit comparison")
                return "(decide (%s %s %s))" % (xs, rel[op], ys)
            if op in ("==", "!="):
                return "(%s %s %s)" % (xs, op, ys)
        if tc == "int":
            xs = self.as_ty(x, "int")
            if op == "<<":
                return "(I32.shl %s %s)" % (xs, self.nat_of(y, b))
            if op == ">>":
                return "(I32.shr %s %s)" % (xs, self.nat_of(y, b))
            ys = self.as_ty(y, "int")
            if op in ("+", "-", "*"):
                return "(%s %s %s)" % (xs, op, ys)
            if op == "/":
                return "(Int.tdiv %s %s)" % (xs, ys)
            if op == "%":
                return "(Int.tmod %s %s)" % (xs, ys)
            if op in rel:
                return "(decide (%s %s %s))" % (xs, rel[op], ys)
            if op in ("==", "!="):
                return "(%s %s %s)" % (xs, op, ys)
        if tc == "bool" and op in ("==", "!="):
            return "(%s %s %s)" % (self.as_ty(x, "bool"), op, self.as_ty(y, "bool"))
        raise Unsupported(n, "binary %s on %s" % (op, tc))

    def fold(self, op, p, q, tc, n):
        f = {"+": lambda: p + q, "-": lambda: p - q, "*": lambda: p * q, "<<": lambda: p << q, ">>": lambda: p >> q,
             "&": lambda: p & q, "|": lambda: p | q, "^": lambda: p ^ q,
             "/": lambda: (abs(p) // abs(q)) * (1 if (p < 0) == (q < 0) else -1) if q else None,
             "%": lambda: p - q * ((abs(p) // abs(q)) * (1 if (p < 0) == (q < 0) else -1)) if q else None}
        if op in f:
            r = f[op]()
            if r is None:
                raise Unsupported(n, "division by the constant zero")
            if tc in ("u64", "i64"):
                r %= (1 << 64)
            elif tc == "u32":
                r %= (1 << 32)
            return Const(r)
        g = {"<": p < q, ">": p > q, "<=": p <= q, ">=": p >= q, "==": p == q, "!=": p != q}
        if op in g:
            return "true" if g[op] else "false"
        return None

    # ------------------------------------------------------------ memory
    def alloc(self, cnt, n):
        if self.no_hoist:
            raise Unsupported(n, "allocation inside a conditionally evaluated expression")
        v = self.fresh("al")
        self.emit("let %s := Heap.alloc hp %s" % (v, cnt))
        self.emit("let hp := %s.1" % v)
        return "%s.2" % v

    def byte_words(self, node):
        """byte count of malloc / memcpy / memset -> number of 64-bit words (the wrapping 64-bit product, as in C++, / 8)"""
        nb = self.ex(node)
        if isinstance(nb, Const):
            if nb.v % 8 != 0 or nb.v < 0:
                raise Unsupported(node, "byte count that is not a multiple of the element size")
            return str(nb.v // 8)
        if not self.has_word_factor(node):
            raise Unsupported(node, "byte count that is not visibly a multiple of the element size")
        return "((%s).toNat / 8)" % self.as_u64(nb)

    def has_word_factor(self, n):
        n0 = self.skip(n)
        if n0.get("kind") == "DeclRefExpr":
            # a local whose every definition is a product with the element size (`dim_` in parcpy)
            rid = n0["referencedDecl"]["id"]
            defs = self.var_inits.get(rid)
            if defs:
                return all(super(HeapCtx, self).has_word_factor(d) for d in defs)
        return super().has_word_factor(n)

    def collect_var_defs(self, body):
        def target(x):
            x = self.skip(x)
            return x["referencedDecl"]["id"] if x.get("kind") == "DeclRefExpr" else None

        def walk(x):
            if not isinstance(x, dict):
                return
            if x.get("kind") == "VarDecl":
                init = [c for c in x.get("inner", []) if "kind" in c]
                self.var_inits.setdefault(x["id"], []).extend(init[:1])
            if x.get("kind") == "BinaryOperator" and x.get("opcode") == "=":
                t = target(x["inner"][0])
                if t:
                    self.var_inits.setdefault(t, []).append(x["inner"][1])
            if x.get("kind") in ("CompoundAssignOperator",) or (x.get("kind") == "UnaryOperator" and x.get("opcode") in ("++", "--")):
                t = target(x["inner"][0])
                if t:
                    self.var_inits.setdefault(t, []).append({"kind": "Opaque"})
            for c in x.get("inner", []):
                walk(c)
        walk(body)

    # ------------------------------------------------------------ calls
    def callee_name(self, n):
        try:
            return self.callee(n).get("name")
        except Unsupported:
            return None

    def gmp_args(self, args):
        out = []
        for a in args:
            c = self.ncat(a)
            v = self.ex(a)
            out.append(self.show(v) if c == "mpz" else self.nat_of(v, a))
        return out

    def call_expr(self, n):
        rd = self.callee(n)
        name = rd["name"]
        args = n["inner"][1:]
        if name == "__builtin_constant_p":
            return Const(1 if self.skip(args[0]).get("kind") == "IntegerLiteral" else 0)
        if name in GMP_VALUES:
            return GMP_VALUES[name][1](self.gmp_args(args))
        if name == "malloc":
            return self.alloc(self.byte_words(args[0]), n)
        d = self.ast.resolve_fn(rd["id"])
        if d is not None:
            info = self.tr.need_fn(d)
            if getattr(info, "heap", False):
                return self.hcall(n, info, None, args, True)
        return super().call_expr(n)

    def call_stmt(self, n, want_value=False):
        rd = self.callee(n)
        name = rd["name"]
        args = n["inner"][1:]
        if name in ("memcpy", "memset"):
            cnt = self.byte_words(args[2])
            d = self.ptr(args[0])
            if name == "memcpy":
                self.emit("let hp := Heap.copy hp %s %s %s" % (d, self.ptr(args[1]), cnt))
            else:
                v = self.ex(args[1])
                if not (isinstance(v, Const) and v.v == 0):
                    raise Unsupported(n, "memset with a non-zero fill")
                self.emit("let hp := Heap.zero hp %s %s" % (d, cnt))
            return None
        if name == "free":
            self.emit("let hp := Heap.free hp %s" % self.ptr(args[0]))
            return None
        if name in NOOP_FNS:
            return None
        if name == "__gmpz_import":
            # mpz_import(rop, 1, order, 8, endian, 0, &word): one 64-bit word in host byte order
            cs = [self.ex(a) for a in args[1:6]]
            ok = all(isinstance(c, Const) for c in cs) and cs[0].v == 1 and cs[2].v == 8 and cs[3].v == 0 and cs[4].v == 0
            w = self.skip(args[6])
            while w.get("kind") in CAST_KINDS:
                w = self.skip(w["inner"][0])
            if not ok or not (w.get("kind") == "UnaryOperator" and w.get("opcode") == "&"):
                raise Unsupported(n, "mpz_import other than one native 64-bit word")
            self.assign(args[0], self.nat_of(self.ex(w["inner"][0]), n))
            return None
        if name in GMP_PROCS:
            self.assign(args[0], GMP_PROCS[name]([None] + self.gmp_args(args[1:])))
            return None
        if name in GMP_VALUES or name == "__builtin_constant_p":
            return self.call_expr(n) if want_value else None
        if name == "malloc":
            return self.call_expr(n)
        d = self.ast.resolve_fn(rd["id"])
        if d is not None:
            info = self.tr.need_fn(d)
            if getattr(info, "heap", False):
                return self.hcall(n, info, None, args, want_value)
        return super().call_stmt(n, want_value)

    def member_call(self, n, want_value):
        me = self.skip(n["inner"][0])
        if me.get("kind") != "MemberExpr":
            raise Unsupported(n, "member call shape")
        d = self.ast.resolve_fn(me.get("referencedMemberDecl"))
        if d is None:
            raise Unsupported(n, "call of an unknown member function " + str(me.get("name")))
        base = self.skip(me["inner"][0])
        if base.get("kind") == "CXXThisExpr":
            obj = SELF
        elif base.get("kind") == "DeclRefExpr" and self.env.get(base["referencedDecl"]["id"], {}).get("cat") == "obj":
            obj = base["referencedDecl"]["id"]
        else:
            raise Unsupported(n, "member call on an expression")
        info = self.tr.need_fn(d)
        if not getattr(info, "heap", False):
            raise Unsupported(n, "member function outside the heap mode")
        return self.hcall(n, info, obj, n["inner"][1:], want_value)

    def default_arg(self, d, idx, n):
        for dd in (d, self.ast.by_id.get(d.get("previousDecl"))):
            if dd is None:
                continue
            ps = [c for c in dd.get("inner", []) if c.get("kind") == "ParmVarDecl"]
            if idx < len(ps):
                init = [c for c in ps[idx].get("inner", []) if "kind" in c]
                if init:
                    return init[0]
        raise Unsupported(n, "default argument %d not found" % idx)

    def hcall(self, n, info, obj, args, want_value):
        ins = []
        if info.partial:
            self.need_partial(n)
            if self.no_hoist:
                raise Unsupported(n, "call that can end the process inside a conditionally evaluated expression")
            ins.append("fuel")
        if info.uses_heap:
            ins.append("hp")
        objname = None
        if info.uses_self or info.writes_self:
            if obj is None:
                raise Unsupported(n, "member function called without an object")
            objname = self.env[obj]["name"]
        if info.uses_self:
            ins.append(objname)
        real = [p for p in info.params if not p.get("pseudo")]
        for i, p in enumerate(real):
            a = args[i] if i < len(args) else None
            if a is None or self.skip(a).get("kind") == "CXXDefaultArgExpr":
                a = self.default_arg(info.decl, i, n)
            ins.append(self.as_ty(self.ex(a), p["cat"]))
        call = " ".join([info.lean_name] + ins)
        outs = info.outs
        if not outs:
            if info.partial:
                self.pbind(call, self.fresh("u"))
            return None
        if len(outs) == 1 and outs[0][0] == "ret" and not info.partial:
            return "(%s)" % call
        if self.no_hoist:
            raise Unsupported(n, "call with effects inside a conditionally evaluated expression")
        tt = self.fresh("rt")
        if info.partial:
            self.pbind(call, tt)
        else:
            self.emit("let %s := %s" % (tt, call))
        ret = None
        for k, o in enumerate(outs):
            pr = self.proj(k, len(outs), tt)
            if o[0] == "ret":
                ret = self.fresh("r")
                self.emit("let %s := %s" % (ret, pr))
            else:
                p = info.params[o[1]]
                if p["cat"] == "heap":
                    self.emit("let hp := %s" % pr)
                elif p.get("pseudo"):
                    self.emit("let %s := %s" % (objname, pr))
                else:
                    raise Unsupported(n, "reference parameter of a heap-mode function")
        return ret

    def lvalue_target(self, a):
        a0 = self.skip(a)
        k = a0.get("kind")
        if k == "ArraySubscriptExpr":
            p = self.ptr(a0["inner"][0])
            i = self.index(a0["inner"][1])
            return "(Heap.get hp %s %s)" % (p, i), (lambda new: self.emit("let hp := Heap.set hp %s %s %s" % (p, i, new)))
        if k == "UnaryOperator" and a0.get("opcode") == "*":
            p = self.ptr(a0["inner"][0])
            return "(Heap.get hp %s 0)" % p, (lambda new: self.emit("let hp := Heap.set hp %s 0 %s" % (p, new)))
        if k == "MemberExpr" and a0.get("name") != "fe":
            rd = self.member_read(a0)
            return rd, (lambda new: self.assign(a0, new))
        return super().lvalue_target(a)

    def lvalue_region(self, a):
        raise Unsupported(a, "pointer argument written by a function outside the heap mode")

    # ------------------------------------------------------------ statements
    def assign(self, lhs, rhs_term):
        l0 = self.skip(lhs)
        k = l0.get("kind")
        if k == "DeclRefExpr":
            rid = l0["referencedDecl"]["id"]
            if rid not in self.env:
                raise Unsupported(lhs, "assignment to non-local")
            e = self.env[rid]
            if e.get("const") is not None or e["cat"] == "nat":
                raise Unsupported(lhs, "assignment to a loop index / constant")
            self.emit("let %s := %s" % (e["name"], self.as_ty(rhs_term, e["cat"])))
            return
        if k == "MemberExpr":
            if l0.get("name") == "fe":
                return self.assign(l0["inner"][0], rhs_term)
            f = self.hm.field(l0)
            base = self.skip(l0["inner"][0])
            if base.get("kind") == "CXXThisExpr":
                o = "self"
            elif base.get("kind") == "DeclRefExpr" and self.env.get(base["referencedDecl"]["id"], {}).get("cat") == "obj":
                o = self.env[base["referencedDecl"]["id"]]["name"]
            else:
                raise Unsupported(lhs, "member assignment")
            self.emit("let %s := { %s with %s := %s }" % (o, o, f["lname"], self.as_ty(rhs_term, f["cat"])))
            return
        if k == "ArraySubscriptExpr":
            p = self.ptr(l0["inner"][0])
            self.emit("let hp := Heap.set hp %s %s %s" % (p, self.index(l0["inner"][1]), self.as_u64(rhs_term)))
            return
        if k == "UnaryOperator" and l0.get("opcode") == "*":
            self.emit("let hp := Heap.set hp %s 0 %s" % (self.ptr(l0["inner"][0]), self.as_u64(rhs_term)))
            return
        raise Unsupported(lhs, "assignment target")

    def lcat(self, lhs):
        l0 = self.skip(lhs)
        c = self.ncat(l0)
        return "u64" if c == "i64" else c

    def stmt(self, n):
        k = n.get("kind")
        if k == "CompoundStmt":
            self.frames.append({"vlas": [], "objs": [], "kind": "block"})
            try:
                for s in n.get("inner", []):
                    r = self.stmt(s)
                    if r is not None:
                        raise Unsupported(s, "return value outside a return statement")
                self.close_frame()
            finally:
                self.frames.pop()
            return None
        if k == "BinaryOperator" and n.get("opcode") == ",":
            self.stmt(n["inner"][0])
            self.stmt(n["inner"][1])
            return None
        if k == "CompoundAssignOperator":
            op = n["opcode"][:-1]
            lhs, rhs = n["inner"][0], n["inner"][1]
            cat = self.lcat(lhs)
            fake = {"kind": "BinaryOperator", "opcode": op, "inner": [lhs, rhs], "type": {"qualType": qt(lhs)}}
            if cat not in ("u64", "u32", "int"):
                raise Unsupported(n, "compound assignment on " + cat)
            # the operands of `x op= y` are converted as for `x op y` (computeLHSType): same width here
            ct = (n.get("computeLHSType") or {}).get("desugaredQualType") or (n.get("computeLHSType") or {}).get("qualType")
            if ct and self.hcat(ct) not in (cat, "i64" if cat == "u64" else cat) and op not in ("<<", ">>"):
                raise Unsupported(n, "compound assignment computed in another type")
            self.assign(lhs, self.binop(fake))
            return None
        if k == "UnaryOperator" and n.get("opcode") in ("++", "--"):
            lhs = n["inner"][0]
            cat = self.lcat(lhs)
            if cat not in ("u64", "u32", "int"):
                raise Unsupported(n, "increment of a value of type " + cat)
            cur = self.as_ty(self.ex(lhs), cat)
            self.assign(lhs, "(%s %s %s)" % (cur, "+" if n["opcode"] == "++" else "-", self.as_ty(Const(1), cat)))
            return None
        if k == "CXXMemberCallExpr":
            self.member_call(n, False)
            return None
        if k == "CXXDeleteExpr":
            self.emit("let hp := Heap.free hp %s" % self.ptr(n["inner"][0]))
            return None
        if k in ("ParenExpr", "ConditionalOperator") and self.is_assert(self.skip(n)):
            raise Unsupported(n, "assert in a position the translator does not follow")
        return super().stmt(n)

    def close_frame(self):
        fr = self.frames[-1]
        for nm in reversed(fr["vlas"]):
            self.emit("let hp := Heap.free hp %s" % nm)
        for nm in reversed(fr["objs"]):
            self.destroy(nm)

    def destroy(self, nm):
        dt = self.ast.find_methods(self.hm.cls, "~" + self.hm.cls)
        if not dt:
            return      # implicit destructor: nothing to run
        info = self.tr.need_fn(dt[0])
        ins = [info.lean_name] + (["fuel"] if info.partial else []) + (["hp"] if info.uses_heap else []) + ([nm] if info.uses_self else [])
        if info.partial:
            self.need_partial(self.decl)
        if not info.outs:
            if info.partial:
                self.pbind(" ".join(ins), self.fresh("u"))
            return
        if len(info.outs) != 1 or info.params[info.outs[0][1]]["cat"] != "heap":
            raise Unsupported(self.decl, "destructor with results other than the heap")
        if info.partial:
            v = self.fresh("rt")
            self.pbind(" ".join(ins), v)
            self.emit("let hp := %s" % v)
        else:
            self.emit("let hp := %s" % " ".join(ins))

    def emit_fn_terminal(self, ret):
        if self.frames:
            for fr in reversed(self.frames):
                for nm in reversed(fr["vlas"]):
                    self.emit("let hp := Heap.free hp %s" % nm)
                for nm in reversed(fr["objs"]):
                    self.destroy(nm)
        return super().emit_fn_terminal(ret)

    def emit_term(self, kind, node):
        if kind == "return" and not self.loop_stack:
            inner = [c for c in node.get("inner", []) if "kind" in c]
            ret = None
            if inner:
                if self.ret_cat is None:
                    self.stmt(inner[0])
                else:
                    ret = self.as_ty(self.ex_hoist(inner[0]), self.ret_cat)
            self.emit_fn_terminal(ret)
            return
        return super().emit_term(kind, node)

    def local_name(self, v):
        name = lean_ident(v["name"])
        if name in RESERVED:
            name += "_"
        return name

    def vardecl(self, v):
        if v.get("kind") != "VarDecl":
            raise Unsupported(v, "declaration kind")
        cat = self.hcat(qt(v))
        name = self.local_name(v)
        init = [c for c in v.get("inner", []) if "kind" in c]
        self.cname_env[v["name"]] = v["id"]
        if cat == "vla":
            m = re.search(r"\[\s*(\d+|[A-Za-z_]\w*)\s*\]\s*$", v["type"]["qualType"])
            if not m or not self.frames or self.frames[-1]["kind"] == "flat" or \
                    not (m.group(1).isdigit() or m.group(1) in self.cname_env):
                raise Unsupported(v, "stack array whose size / scope the translator does not follow")
            if init and not (init[0].get("kind") == "CXXConstructExpr" and not init[0].get("inner")):
                raise Unsupported(v, "initialised stack array")
            if m.group(1).isdigit():
                cnt = m.group(1)
            else:
                e = self.env[self.cname_env[m.group(1)]]
                cnt = self.nat_of(e["const"] if e.get("const") is not None else (NatExpr({e["nat"]: 1}) if e.get("nat") else e["name"]), v)
            p = self.alloc(cnt, v)
            self.emit("let %s : Ptr := %s" % (name, p))
            self.env[v["id"]] = {"name": name, "cat": "hptr", "const": None}
            self.frames[-1]["vlas"].append(name)
            return
        if cat == "obj":
            if not self.frames or self.frames[-1]["kind"] == "flat":
                raise Unsupported(v, "object declared in a scope the translator does not follow")
            ce = self.skip(init[0]) if init else None
            if ce is None or ce.get("kind") != "CXXConstructExpr":
                raise Unsupported(v, "object initialiser")
            cty = (ce.get("ctorType") or {}).get("qualType")
            ctors = [d for d in self.ast.find_methods(self.hm.cls, self.hm.cls) if d["type"]["qualType"] == cty]
            if len(ctors) != 1:
                raise Unsupported(v, "constructor %s not found" % cty)
            info = self.tr.need_fn(ctors[0])
            self.env[v["id"]] = {"name": name, "cat": "obj", "const": None}
            self.emit("let %s : %s := %s.init" % (name, self.hm.cls, self.hm.cls))
            self.hcall(v, info, v["id"], ce.get("inner", []), False)
            self.frames[-1]["objs"].append(name)
            return
        if cat == "i64":
            cat = "u64"
        if cat not in ("u64", "u32", "int", "bool", "hptr", "mpz"):
            raise Unsupported(v, "local of type " + v["type"]["qualType"])
        if not init or (init[0].get("kind") == "CXXConstructExpr" and not init[0].get("inner")):
            self.env[v["id"]] = {"name": name, "cat": cat, "const": None}
            self.emit("let %s : %s := %s" % (name, LEAN_TY[cat], ZERO_OF[cat]))     # uninitialised
            return
        val = self.ex_hoist(init[0])
        self.env[v["id"]] = {"name": name, "cat": cat, "const": None}
        self.emit("let %s : %s := %s" % (name, LEAN_TY[cat], self.as_ty(val, cat)))

    # ------------------------------------------------------------ writes (loop states, if joins, signatures)
    def assigned_vars(self, nodes):
        found = []

        def note(rid):
            if rid in self.env and rid not in found:
                found.append(rid)

        def lv(x):
            x = self.skip(x)
            k = x.get("kind")
            if k == "DeclRefExpr":
                note(x["referencedDecl"]["id"])
            elif k == "MemberExpr":
                if x.get("name") == "fe":
                    lv(x["inner"][0])
                else:
                    b = self.skip(x["inner"][0])
                    if b.get("kind") == "CXXThisExpr":
                        note(SELF)
                    elif b.get("kind") == "DeclRefExpr":
                        note(b["referencedDecl"]["id"])
            elif k == "ArraySubscriptExpr" or (k == "UnaryOperator" and x.get("opcode") == "*"):
                note(HEAP)
            elif k in CAST_KINDS and x.get("inner"):
                lv(x["inner"][0])

        def walk(x):
            if not isinstance(x, dict):
                return
            k = x.get("kind")
            if k in ("BinaryOperator", "CompoundAssignOperator") and x.get("opcode", "").endswith("=") and \
                    x.get("opcode") not in ("==", "!=", "<=", ">="):
                lv(x["inner"][0])
            elif k == "CXXOperatorCallExpr":
                c = self.skip(x["inner"][0])
                if c.get("kind") == "DeclRefExpr" and c["referencedDecl"]["name"] == "operator=":
                    lv(x["inner"][1])
            elif k == "UnaryOperator" and x.get("opcode") in ("++", "--"):
                lv(x["inner"][0])
            elif k in ("CXXNewExpr", "CXXDeleteExpr"):
                note(HEAP)
            elif k == "VarDecl" and self.hcat(qt(x)) in ("vla", "obj"):
                note(HEAP)
            elif k == "CallExpr":
                name = self.callee_name(x)
                args = x["inner"][1:]
                if name in ("memcpy", "memset", "malloc", "free"):
                    note(HEAP)
                elif name in GMP_PROCS or name == "__gmpz_import":
                    lv(args[0])
                elif name in NOOP_FNS or name in GMP_VALUES or name is None or name.startswith("__builtin") or name == "__assert_fail":
                    pass
                else:
                    d = self.ast.resolve_fn(self.callee(x)["id"])
                    if d is not None:
                        info = self.tr.need_fn(d)
                        if getattr(info, "heap", False):
                            if info.writes_heap:
                                note(HEAP)
                        else:
                            for p, a in zip(info.params, args):
                                if p["mode"] != "in":
                                    lv(a)
            elif k == "CXXMemberCallExpr":
                me = self.skip(x["inner"][0])
                d = self.ast.resolve_fn(me.get("referencedMemberDecl")) if me.get("kind") == "MemberExpr" else None
                if d is not None:
                    info = self.tr.need_fn(d)
                    if getattr(info, "writes_heap", False):
                        note(HEAP)
                    if getattr(info, "writes_self", False):
                        b = self.skip(me["inner"][0])
                        if b.get("kind") == "CXXThisExpr":
                            note(SELF)
                        elif b.get("kind") == "DeclRefExpr":
                            note(b["referencedDecl"]["id"])
            elif k == "GCCAsmStmt":
                raise Unsupported(x, "inline assembly in heap mode")
            for c in x.get("inner", []):
                walk(c)

        for s in nodes:
            walk(s)
        return found

    def find_pointer_aliases(self, body):
        return      # pointers are values

    def rewrite_asserts(self, node):
        """assert(c)  ->  if (c) {} else abort();   (the rest of the function continues in the then-branch)"""
        if not isinstance(node, dict):
            return
        inner = node.get("inner")
        if not inner:
            return
        for i, c in enumerate(inner):
            if isinstance(c, dict) and c.get("kind") in ("ParenExpr", "ConditionalOperator"):
                c0 = self.skip(c)
                if c0.get("kind") == "ConditionalOperator" and self.is_assert(c0) and node.get("kind") in (
                        "CompoundStmt", "IfStmt", "ForStmt", "WhileStmt"):
                    abort = {"kind": "CallExpr", "inner": [{"kind": "DeclRefExpr", "referencedDecl": {
                        "id": "__abort__", "kind": "FunctionDecl", "name": "abort"}}], "range": c.get("range", {})}
                    inner[i] = {"kind": "IfStmt", "range": c.get("range", {}), "_assert": True,
                                "inner": [c0["inner"][0], {"kind": "CompoundStmt", "inner": []}, abort]}
                    continue
            self.rewrite_asserts(c)

    # ------------------------------------------------------------ whole function
    def translate(self, alias=None):
        d = self.decl
        hm = self.hm
        info = FnInfo()
        info.decl = d
        info.alias = None
        info.heap = True
        info.lean_name = self.tr.fn_lean_name(d)
        self.fn_lean_name_for_aux = info.lean_name
        kind = d.get("kind")
        is_ctor = kind == "CXXConstructorDecl"
        is_dtor = kind == "CXXDestructorDecl"
        in_cls = d.get("_class") == hm.cls
        if (is_ctor or is_dtor) and not in_cls:
            raise Unsupported(d, "constructor / destructor of another class")
        fty = d["type"]["qualType"]
        rett = "void" if (is_ctor or is_dtor) else fty.split("(")[0].strip()
        rc = "void" if (is_ctor or is_dtor) else self.hcat(rett)
        if rc == "i64":
            rc = "u64"
        if rc not in ("u64", "u32", "int", "bool", "void"):
            raise Unsupported(d, "return type " + rett)
        info.ret_cat = None if rc == "void" else rc
        self.ret_cat = info.ret_cat
        body = [c for c in d.get("inner", []) if c.get("kind") == "CompoundStmt"][0]
        params = [c for c in d.get("inner", []) if c.get("kind") == "ParmVarDecl"]
        used = set(RESERVED)
        for p in params:
            t = qt(p)
            cat = self.hcat(t)
            if cat == "i64":
                cat = "u64"
            if cat not in ("u64", "u32", "int", "bool", "hptr"):
                raise Unsupported(p, "parameter type " + p["type"]["qualType"])
            if t.strip().endswith("&") and not ("const " in t or " const" in t):
                raise Unsupported(p, "reference parameter in heap mode")
            nm = lean_ident(p.get("name", "arg"))
            while nm in used:
                nm += "_"
            used.add(nm)
            info.params.append({"name": nm, "cat": cat, "mode": "in", "id": p["id"], "cname": p.get("name", "")})
            self.env[p["id"]] = {"name": nm, "cat": cat, "const": None}
            self.cname_env[p.get("name", "")] = p["id"]
        self.env[HEAP] = {"name": "hp", "cat": "heap", "const": None}
        method = in_cls and d.get("storageClass") != "static"
        if method:
            self.env[SELF] = {"name": "self", "cat": "obj", "const": None}
        self.rewrite_asserts(body)
        self.collect_var_defs(body)
        written = set(self.assigned_vars([body]))
        info.writes_heap = HEAP in written
        info.writes_self = is_ctor or (SELF in written)
        ih = len(info.params)
        info.params.append({"name": "hp", "cat": "heap", "mode": "inout" if info.writes_heap else "in", "id": HEAP,
                            "cname": HEAP, "pseudo": True})
        info.params.append({"name": "self", "cat": "obj", "mode": "inout" if info.writes_self else "in", "id": SELF,
                            "cname": SELF, "pseudo": True})
        outs = []
        if info.ret_cat is not None:
            outs.append(("ret", info.ret_cat))
        if info.writes_heap:
            outs.append(("param", ih))
        if info.writes_self:
            outs.append(("param", ih + 1))
        info.outs = outs
        info.partial = self.partial
        self.info = info
        if is_ctor:
            # the object the constructor works on is passed in already holding the in-class initialisers (NTT_Goldilocks.init)
            for ci in d.get("inner", []):
                if ci.get("kind") == "CXXCtorInitializer":
                    ie = [c for c in ci.get("inner", []) if "kind" in c]
                    if ie and ie[0].get("kind") != "CXXDefaultInitExpr":
                        f = hm.field({"referencedMemberDecl": (ci.get("anyInit") or {}).get("id"), "name": (ci.get("anyInit") or {}).get("name")})
                        self.emit("let self := { self with %s := %s }" % (f["lname"], self.as_ty(self.ex(ie[0]), f["cat"])))
        self.frames = [{"vlas": [], "objs": [], "kind": "function"}]
        self.seq(body.get("inner", []))
        text_body = "\n".join(self.lines) + "\n" + "\n".join(getattr(self, "aux_defs", []))

        def mentions(nm):
            return re.search(r"(?<![A-Za-z0-9_'.])%s(?![A-Za-z0-9_'])" % nm, text_body) is not None
        info.uses_heap = info.writes_heap or mentions("hp")
        info.uses_self = method and (info.writes_self or mentions("self"))

        def oty(o):
            if o[0] == "ret":
                return LEAN_TY[o[1]]
            return LEAN_TY[info.params[o[1]]["cat"]]
        rty = " × ".join(oty(o) for o in outs) if outs else "Unit"
        sig = ""
        if self.partial:
            sig += " (fuel : Nat)"
        if info.uses_heap:
            sig += " (hp : Heap)"
        if info.uses_self:
            sig += " (self : %s)" % hm.cls
        sig += "".join(" (%s : %s)" % (p["name"], LEAN_TY[p["cat"]]) for p in info.params if not p.get("pseudo"))
        if self.partial:
            rty = "Option (%s)" % rty
        src = "%s::%s  %s" % (d.get("_class"), d["name"], fty)
        text = "/-- `%s` -/\ndef %s%s : %s :=\n%s" % (src, info.lean_name, sig, rty, "\n".join(self.lines))
        if getattr(self, "aux_defs", None):
            text = "\n\n".join(self.aux_defs) + "\n\n" + text
        info.text = text
        return info
