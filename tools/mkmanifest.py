#!/usr/bin/env python3
"""Write /verif/MANIFEST.json from the table below (and validate it against the schema)."""
import json, os, sys
ROOT = os.path.dirname(os.path.dirname(os.path.abspath(__file__)))

NOTE_BASE = ("Trusted: Lean 4.33 kernel; axioms propext/Classical.choice/Quot.sound only (audited each run); "
             "Isa/ instruction semantics (validated on this CPU each run); translators tr_cxx/tr_asm over clang-14's AST; "
             "the correspondence harness and generators.")

CHECKS = {
    "C01": dict(
        text=("Machine-checked theorems (Props/C01.lean) about Gen/Scalar.lean, the Lean definitions regenerated on every run "
              "from the inline-asm blocks and wrappers of goldilocks_base_field_scalar.hpp: add/sub/mul/square/neg/inc/dec/"
              "mulScalar read back with the library's toU64 equal the exact result mod p for ALL 2^64 x 2^64 operand "
              "representations, and depend only on residue classes. Tie: regeneration from the current source plus "
              "execution of the generated definitions against the compiled functions (incl. all aliasing patterns)."),
        technique="Lean 4 proof over a model translated from the asm (clang AST) + CPU correspondence",
        design="§4 C01", note=NOTE_BASE),
}

CHECKS["C02"] = dict(
    text=("Machine-checked theorems (Props/C02.lean) about Gen/Avx2.lean, regenerated on every run from the intrinsics code of "
          "goldilocks_base_field_avx.hpp over the intrinsic semantics of Isa/Avx2.lean: every lane of every kernel "
          "(shift, canonicalise, add/sub incl. the 32-bit-compare variants, 128/72-bit products, both reductions, square) "
          "is exact for ALL lane contents, the assumption-carrying kernels under exactly their documented operand "
          "assumption, and the general kernels agree with the scalar ops of C01. Tie: regeneration + execution of the "
          "generated definitions against the compiled kernels on this CPU."),
    technique="Lean 4 proof over a model translated from the intrinsics code (clang AST) + CPU correspondence",
    design="§4 C02", note=NOTE_BASE)

CHECKS["C11"] = dict(
    text=("Machine-checked theorems (Props/C11.lean) about Gen/Avx512.lean, regenerated on every run from "
          "goldilocks_base_field_avx512.hpp (configuration -D__AVX512__, never built by the shipped tests) over Isa/Avx512.lean: "
          "every lane of every 8-lane kernel is exact for ALL lane contents; the _b_c variants under the documented canonical "
          "second operand (and under the weaker a+b < 2^64+p actually needed), the _8/_72/_96 variants under their multiplier "
          "bound. Tie: regeneration + execution against the compiled kernels on this machine's AVX512F unit."),
    technique="Lean 4 proof over a model translated from the intrinsics code (clang AST) + CPU correspondence",
    design="§4 C11", note=NOTE_BASE)

CHECKS["C13"] = dict(
    text=("Machine-checked theorems (Props/C13.lean) about Gen/Avx2Mat.lean (regenerated from the intrinsics code): for every "
          "state held in three 4-lane registers and every coefficient region, spmv/dot/mmult_4x12/mmult (aligned and unaligned) "
          "return the inner products / matrix-vector products in ZMod p in the documented layout, including when intermediate "
          "products and sums are non-canonical; the _8 variants under 'all coefficients < 2^8'. Proof by composition of the C02 "
          "lane theorems with the permute/unpack transpose lemma. Tie: regeneration + CPU correspondence."),
    technique="Lean 4 proof (ZMod p, ring) over a model translated from the intrinsics code + CPU correspondence",
    design="§4 C13", note=NOTE_BASE)
CHECKS["C14"] = dict(
    text=("Machine-checked theorems (Props/C14.lean) about Gen/Avx512Mat.lean: the same statements per interleaved state "
          "(lanes 0-3 / 4-7), incl. the permutex2var/unpack transpose and the 8-bit variants. On the pinned tree the obligation "
          "did not close (defect D4, found with a concrete replay by this check and repaired by a fix: commit); the lane-level "
          "witness is kept as a theorem. Tie: regeneration + execution on AVX512F hardware."),
    technique="Lean 4 proof (ZMod p, ring) over a model translated from the intrinsics code + CPU correspondence",
    design="§4 C14", note=NOTE_BASE)

CHECKS["C10"] = dict(
    text=("Machine-checked theorems (Props/C10.lean) about the hand model Model/Inv.lean (the Euclid loop of Goldilocks::inv, "
          "exp's square-and-multiply loop, div = mul∘inv, written over the GENERATED scalar ops): inv refuses exactly the zero "
          "class (both representations), otherwise returns a canonical r with r·a = 1 in ZMod p (uses a kernel-checked proof that "
          "p is prime, Lucas test); div(a,b)·b = a; exp(b,e) = b^e for all 64-bit e; residue-class independence. Termination of "
          "inv is a proof obligation of the model's definition. Tie: correspondence of model and compiled functions incl. the "
          "exit status of a forked child on zero operands. ALSO (tighter tie): Goldilocks::inv/div/exp are translated from the current source on every run (fuel-bounded while loops, exit(-1) as none) and bridge theorems C10_generated_* prove the generated functions EQUAL to the hand model for every fuel >= 129 (exp: 64), so the statements above hold of the regenerated code."),
    technique="Lean 4 proof over a hand-written model (well-founded recursion, invariant) + correspondence with the implementation",
    design="§4 C10", note=NOTE_BASE + " Hand model tied to the code only on the executed cases (counts in the evidence).")

CHECKS["C15"] = dict(
    text=("Machine-checked theorems (Props/C15.lean) about hand models of the conversions (Model/Conv.lean; GMP's truncated "
          "remainder and get_ui modelled on Int) and the generated toU64/equal/is* : every integer of any sign and magnitude "
          "converts to its residue, canonically; fromS64/fromS32 on all two's-complement values; toU64 canonical; toS64 centred; "
          "toS32 succeeds exactly on [-2^31, 2^31); the three round trips (incl. INT32_MIN); predicates depend only on the "
          "residue class. The pinned tree violated this (D1, D2: found with replays by this check, repaired by fix: commits). "
          "Tie: correspondence with the compiled conversions incl. GMP, radix 2..36, up to 400-bit integers. ALSO (tighter tie): "
          "fromS64/fromS32/fromString/fromScalar/toS64/toS32/toString are translated from goldilocks_base_field_tools.hpp on every "
          "run (mpz_class arithmetic on Int, % = truncated remainder, get_ui/get_si as GMP computes them; GMP's numeral parser and "
          "printer stay modelled as externs) and bridge theorems C15_generated_* prove every generated function EQUAL to the hand "
          "model, so the statements above hold of the regenerated code; the generated functions are executed against the code too."),
    technique="Lean 4 proof over a hand-written model (Int/BitVec arithmetic) and over the model translated from the source (bridge theorems) + correspondence with the implementation",
    design="§4 C15, DESIGN.CONV.md", note=NOTE_BASE + " GMP numeral parsing/printing are modelled, not verified; mpz arithmetic is stated on Int.")

CHECKS["C09"] = dict(
    text=("Machine-checked theorems (Props/C09.lean) about Gen/Ext.lean, regenerated from goldilocks_cubic_extension.hpp "
          "INCLUDING a generated model for every aliased call pattern, and about hand models of inv/div/mulScalar/batchInverse: "
          "every add/sub/neg/mul/square overload (extension, base element, integer, pointer forms) returns the exact coefficients "
          "in F_p[x]/(x^3-x-1) for all operand representations, with outputs aliasing inputs; isOne holds exactly for (1,0,0) "
          "(was false on the pinned tree: D3, found with a replay and fixed); div and mulScalar(string) exact; x^3-x-1 has no root in "
          "F_p (x^p in K3 by kernel evaluation, Fermat, an explicit Bezout certificate) hence t(a)=0 iff a=0; inv returns for every "
          "non-zero element (any representation) an r with r·a = 1 and refuses exactly the zero class; batchInverse (prefix products, "
          "one inversion, backward sweep; hand model) returns element-wise inverses for every array length >= 1, refuses exactly when "
          "an element is zero or the array is empty, and agrees with inv. Tie of the hand-modelled parts: correspondence (inv on "
          "non-zero elements, batchInverse lengths 1..66, every output checked against the spec). ALSO: Goldilocks3::inv/div/batchInverse are translated on every run and C09_generated_* prove the property statements directly about the generated functions (batchInverse for every 1 <= size < 2^59; mulScalar(string) through the translated fromString, default radix 10)."),
    technique="Lean 4 proof (ZMod p, ring) over a translated model incl. aliasing variants + correspondence for the hand-modelled parts",
    design="§4 C09", note=NOTE_BASE)

CHECKS["C20"] = dict(
    text=("Machine-checked theorems (Props/C20.lean) about Gen/Ptx.lean, the Lean definitions regenerated on every run by "
          "tools/tr_ptx.py from the PTX asm strings, operand lists and surrounding C++ of src/gl64_t.cuh for BOTH "
          "__CUDA_ARCH__ >= 700 and < 700 (configuration GL64_PARTIALLY_REDUCED undefined), over the PTX semantics of "
          "Isa/Ptx.lean: operator+=/-=/cneg/unary minus return the canonical result for all canonical operands; "
          "multiplication by element and by 32-bit word, squaring and the final reduction return the canonical result for "
          "ALL 64-bit operands (the documented tolerance of partially reduced multiplicands), both variants, which therefore "
          "agree word for word; and about Gen/PtxTables.lean: for all 33 rows omegas = Goldilocks::W, omegas*omegas_inv = 1, "
          "domain_size_inverse[i]*2^i = 1, all canonical (kernel evaluation). Tie: REGENERATION ONLY - no nvcc / GPU exists "
          "here, nothing is executed on an implementation (traces_validated_against_impl = 0); the generated model is executed "
          "against python integers as translator/ISA self-check and failing-input search."),
    technique="Lean 4 proof over a model translated from the PTX inline asm (both arch variants) + kernel-evaluated tables; regeneration only",
    design="§4 C20",
    note=("Trusted: Lean 4.33 kernel; axioms propext/Classical.choice/Quot.sound only (audited each run); the PTX semantics of "
          "Isa/Ptx.lean, written from the PTX ISA manual and NOT validated on hardware; translator tools/tr_ptx.py (clang-14 as "
          "textual preprocessor only); nvcc's inline-asm contract (distinct virtual registers for outputs and inputs, program "
          "order of volatile asm, predicate scope across asm statements); gl64_device::W keeps its initialiser."))

CHECKS["C06"] = dict(
    text=("Machine-checked theorems (Props/C06.lean): the three permutations (scalar hash_full_result_seq, AVX2 hash_full_result, "
          "two-state AVX512 hash_full_result_avx512) and all constant tables are regenerated into Lean from the current source on "
          "every run (the 22 partial rounds as a fold over a lifted loop body); for ALL 2^768 states in ANY representation each "
          "backend's output, read in ZMod p, equals the Poseidon specification Model/PoseidonSpec.lean (add C; 4 full rounds; 22 "
          "partial rounds with the sparse matrices S; 4 full rounds; x^7 S-box; MDS), words outside the state are untouched, the "
          "backends agree, hash = first four elements; table side conditions (canonical constants, M_ < 2^8, transposes) by "
          "decide +kernel over the generated tables. Tie: regeneration + execution of the generated models against the compiled "
          "functions and an independent Python reference (incl. the suite's known-answer inputs) + an in-process backend-agreement "
          "search (failing-input search, 1.6M states quick, 64M when an obligation is broken)."),
    technique="Lean 4 proof (ZMod p) that the translated permutation code of all three backends equals the Poseidon spec + CPU correspondence",
    design="§4 C06", note=NOTE_BASE + " The specification PoseidonSpec.lean is hand-written from the reference description; its agreement with "
                               "the published Poseidon-Goldilocks instance is validated by the known-answer vectors only.")
CHECKS["C07"] = dict(
    text=("Machine-checked theorems (Props/C07.lean): for EVERY permutation and EVERY input length the loop model of linear_hash "
          "(remaining counter, capacity feedback, zero padding; Model/Sponge.lean) equals the rate-8/capacity-4 sponge specification, "
          "inputs of at most four elements pass through zero-padded; digest length; variant agreement; and the two-at-a-time AVX512 "
          "variant equals the sponge on each of its two interleaved inputs (C07_avx512, C07_avx512_is_sponge). Tie: correspondence "
          "of the models (instantiated with the translated permutations) with linear_hash_seq / linear_hash / linear_hash_avx512 for "
          "every length 0..40, 63..65, 127..129 (thorough: 0..300, 1000), each call in a forked child with the input ending at a "
          "PROT_NONE guard page so that reads beyond the declared length fault. ALSO: linear_hash_seq / linear_hash / linear_hash_avx512 are translated on every run (while loop, memcpy/memset) and C07_generated_* prove that for every size and every fuel > size the generated functions return Model.linearHash / linearHash512 of the input words and write nothing else."),
    technique="Lean 4 proof by induction over the block loop of a hand-written model, generic in the permutation + correspondence",
    design="§4 C07", note=NOTE_BASE)
NOTE_NTT = (NOTE_BASE + " The NTT source is ALSO translated on every run (Gen/NttGen.lean) and bridged to the hand model (DESIGN.NTTGEN.md). Model/Ntt.lean is a HAND model (sequential, functional, no threads, no caller scratch buffer, Nat index arithmetic exact for "
            "log2 n <= 30): its tie to ntt_goldilocks.cpp is the differential campaign only (thread counts 1,2,3,5,16; with/without buffer; dst modes).")
CHECKS["C03"] = dict(
    text=("Machine-checked theorems (Props/C03.lean, Lemmas/Ntt*.lean 3.2 kLOC) about the hand model Model/Ntt.lean, which mirrors NTT_iters / "
          "reversePermutation / the phase schedule / column blocks loop by loop over the GENERATED scalar ops and root table: for every "
          "n = 2^d <= maxDomain (d <= 32), every ncols >= 1, every nphase, nblock (clamped as the code clamps), every destination mode "
          "(same/other/NULL) and every input, ntt returns ok and out[k][c] = sum_j in[j][c]*w_d^(jk) in ZMod p, with w_d the library's root "
          "(proved primitive of order 2^d); the source is unchanged for a distinct destination; size 0 / ncols 0 are no-ops; the 'never needed "
          "copy' assert is unreachable (the D6 parity argument). Tie: correspondence model vs compiled code vs an O(n^2) reference over an "
          "exhaustive small-shape grid + sampled shapes to 2^10 (thorough 2^12), threads 1,2,3,5,16, exact-size redzoned buffers, forked. ALSO (tighter tie): ntt_goldilocks.cpp/.hpp are translated from the current source on every run (Gen/NttGen.lean, heap mode of the translator: pointers as block/offset values, the object as a generated structure, malloc/free, the pointer ping-pong, asserts as none), executed against the compiled code on the same request lines, and bridge theorems (Lemmas/BridgeNtt*.lean, C03_generated_*) prove the generated log2/intt_idx/BR/root/reversePermutation/butterfly stages/passes/NTT_iters/NTT equal to the hand model for 2 <= n <= 2^30, single column block, with or without caller buffer, and the constructor equal to mkObj; C03_generated_construct_and_transform states the DFT property of the GENERATED constructor+NTT with no model hypothesis. Not bridged (executed only): nblock > 1, n = 1 (parcpy path), log2 n in {31,32}."),
    technique="Lean 4 proof by loop invariants / refinement of a hand-written model to the DFT specification + differential correspondence",
    design="§4 C03", note=NOTE_NTT)
CHECKS["C04"] = dict(
    text=("Machine-checked theorems (Props/C04.lean) on the same model: intt returns out[k][c] = n^-1 * sum_j in[j][c]*w_d^(-jk) for the same "
          "configuration space; INTT(NTT(x)) = x and NTT(INTT(x)) = x as field elements with independent nphase/nblock/dst mode in the two "
          "calls; NULL destination means in place; source unchanged; no-ops. Tie: round-trip and single-call correspondence campaign. ALSO: the same statements for the GENERATED INTT (C04_generated_*), via the bridge NTT_iters = nttIters (DESIGN.NTTGEN.md)."),
    technique="Lean 4 proof (refinement to the inverse DFT, orthogonality of roots) over a hand-written model + differential correspondence",
    design="§4 C04", note=NOTE_NTT)
CHECKS["C05"] = dict(
    text=("Machine-checked theorems (Props/C05.lean): for every N = 2^dn <= N_ext = 2^de <= 2^32 (N = 1 and N_ext = N included), in place or "
          "not, every nphase/nblock: extendPol returns ok, N_ext rows, and for each column the unique polynomial f of degree < N with "
          "f(w_dn^j) = in[j] satisfies out[k] = f(7*w_de^k) (coset shift 7 = the library's SHIFT, proved); uniqueness of the interpolant. "
          "The pinned tree violated this (D8: even effective nphase hit assert(0) 'not implemented'; found with replay, repaired by a fix: "
          "commit that implements the zero-extending in-place bit reversal, which the theorem now covers). Tie: correspondence vs code vs LDE reference. ALSO: C05_generated_extendPol — the GENERATED extendPol (translated from the source on every run) satisfies the low-degree-extension statement on any reachable cache state; C05_generated_computeR. ALSO (third bridge round): extendPol WITH a caller scratch buffer is bridged bit for bit too (C05_generated_extendPol_buffer_eq_model / _buffer_all), every nblock, every cache state, in place or not."),
    technique="Lean 4 proof (refinement to low-degree extension on the coset) over a hand-written model + differential correspondence",
    design="§4 C05", note=NOTE_NTT)
CHECKS["C19"] = dict(
    text=("Machine-checked theorems (Props/C19.lean): for EVERY list of calls (NTT / INTT / extendPol with arbitrary arguments, aborting calls "
          "included) on one object, the k-th result equals the result of the same call on a freshly constructed object "
          "(C19_history_eq_fresh); the only mutable state is the extendPol coefficient cache, which keeps the invariant 'absent or computeR of "
          "the N it is keyed with'; NTT/INTT neither read nor change it. The pinned tree violated this (D9: stale cache after a change of N; "
          "repaired by a fix: commit). Tie: histories of up to 6 calls on shared vs fresh objects, model vs code. ALSO: C19_generated_extendPol_ignores_cache for the generated model; the generated cache refresh equals refreshCache (absent / valid / stale); whole histories are compared by execution (generated model vs code vs hand model). ALSO (third bridge round): histories of GENERATED calls with caller buffers and dst == NULL preserve the object invariant and deliver the hand model's results (C19_generated_history_buffers), and a history followed by the generated DESTRUCTOR releases exactly the object's blocks and leaves every caller block as the history left it (C19_generated_life_then_dtor)."),
    technique="Lean 4 proof by invariant over call histories (refinement: shared object = fresh object) + differential correspondence of histories",
    design="§4 C19", note=NOTE_NTT)

CHECKS["C18"] = dict(
    text=("PARTIAL BY NATURE, but with theorems about the model REGENERATED from the source. Machine-checked (Props/C18.lean, 28 theorems): "
          "(A) on the generated HEAP model of ntt_goldilocks.cpp/.hpp (Gen/NttGen.lean, translated on every run; pointers = block/offset, "
          "malloc/new[]/VLA = Heap.alloc, free/delete[]/scope end = Heap.free): ALLOCATION BALANCE — NTT, INTT, NTT_iters, reversePermutation "
          "return a heap with exactly the same live blocks and extents for every argument value, nblock, buffer or not; the constructor "
          "allocates exactly the two tables it stores, extendPol changes only the r/r_ cache blocks (replaced ones released), the destructor "
          "releases exactly the owned blocks; for every history constructor -> calls -> destructor the live blocks at the end are those at the "
          "start (C18_generated_alloc_balance). IN-BOUNDS ACCESSES — a command derives from each generated definition the predicate 'every "
          "Heap.get/set is inside its block, every memcpy has both ranges inside their blocks and disjoint, every memset range is inside, every "
          "free is NULL or the start of a live block', along all paths, loop iterations and callees (a construct without a rule is an error, so "
          "no access is dropped); proved for reversePermutation (4 branches), the butterfly batch, NTT_iters (1 <= n <= 2^30, any nphase), NTT and INTT for EVERY nblock with or without caller buffer under the documented buffer sizes (dst, buffer: size*ncols words), parcpy, the CONSTRUCTOR with no hypothesis at all (1 <= s <= 32 is proved as an invariant of the translated loop), computeR (object built for at least N points), extendPol (every nblock, all three cache states, buffer or not, in place or not; object built for at least N points, cache invariant re-established), the destructor, and every HISTORY constructor -> calls -> destructor whose calls have the documented shapes (C18_generated_inbounds_history); the one hypothesis beyond the arguments (log2 N <= s) was run on the real code: violating it overflows powTwoInv (caller error, the constructor argument is the documented maximum); NOT discharged: log2 n > 30, direct NTT/INTT with extend=true inside a history, buffers that are ranges of one block; (B) hand model of the malloc/free/new[]/delete[] TRACE (Model/NttAlloc.lean): clean for every call history, incl. the "
          "deallocator family (the pinned tree's delete-vs-delete[] D10 is a non-clean trace), tied to the code by recording the library's REAL "
          "allocator calls (wrapped malloc/free, replaced operator new[]/delete[]/delete) and comparing word for word; (C) scratch extents of "
          "NTT() and frame conditions re-exported from C17/C08. NOT proved, only observed, for the rest of the library: absence of "
          "out-of-extent accesses / UB on the shape grids of C03-C05, C07-C09, C17, C19 re-run on exact-size buffers with redzones + PROT_NONE "
          "guard pages (O1), under AddressSanitizer+UBSan with exact heap blocks, and under ASan over the stand-in OpenMP runtime."),
    technique="Lean 4 proofs of allocation balance and in-bounds accesses on the heap model translated from the source (derived safety predicates) + invariant proof over a hand-written allocator-trace model tied by recording the real allocator calls; sanitizer/guard-page campaigns as observation only",
    design="§4 C18", note=NOTE_BASE + " Uninitialised reads, alignment, integer/shift UB inside the C++ and stack VLAs are outside every model (observed by UBSan/ASan only; no MSan).")

CHECKS["C12"] = dict(
    text=("PARTIAL BY NATURE. Machine-checked (Props/C12.lean, 57 theorems; Lemmas/Bernstein.lean, NttPar*.lean, MerklePar.lean): "
          "(1) generic theorem — iterations whose read/write footprints satisfy Bernstein's conditions pairwise can be executed in ANY "
          "order (any assignment to team members, any team size below/at/above the iteration count, any order of members) with the same "
          "final memory; (2) Bernstein's conditions, for ALL shapes, for the footprints of all 20 `omp parallel for` loops (NTT butterfly "
          "batches incl. the transposing and the reflecting copy, block scatter, out-of-place and in-place bit reversal with BR proved "
          "an involutive bit reversal up to 2^32, Merkle leaf and level loops, parcpy/parSetZero chunks); (3) for the executable NTT MODEL "
          "(Model/Ntt.lean, the one tied to the code by the differential campaigns of C03-C05): each loop body of passBatch / "
          "scatterBlock / all four reversePermutation branches provably touches only its footprint and depends only on it, hence "
          "folding the iterations over ANY permutation equals the model's sequential loop, lifted to whole ntt / intt / extendPol "
          "calls with arbitrary per-pass, per-block orders (C12_model_*_any_order); Merkle: node dependency of the functional model and "
          "order independence of an imperative rendering of the tree loops; (4) parcpy/parSetZero end to end for every chunk order (C17); "
          "(5) for the GENERATED lifted loop bodies (translated from the source on every run: NTT butterfly batches, scatter, the four "
          "reversal loops, parcpy and parSetZero chunks, Merkle leaf and level loops of all builders) folding the body over ANY permutation of the "
          "iteration indices equals the generated sequential loop and returns (C12_generated_*_any_order): the footprints are no longer "
          "only hand-written. NOT proved: that the COMPILED loop bodies access exactly these footprints. That is checked/observed on every run: "
          "fingerprint of every parallel loop statement of the current source against the text the footprints were written from (for the parcpy and parSetZero loops a changed text is accepted when the any-order theorem about the regenerated loop is re-proved and the sequence of OpenMP pragmas is unchanged), no "
          "OpenMP construct outside `parallel for`+static schedule; ThreadSanitizer over a pthread stand-in for the OpenMP runtime; "
          "controlled sequential execution of team members in permuted orders, team sizes 1,2,3,5,8,64 and a runtime granting fewer "
          "members than requested, outputs bit-identical to the one-member run; real libgomp teams of 1,2,3,5,16."),
    technique="Lean 4 proof (Bernstein conditions on modelled footprints + order-independence theorem); TSan / permuted-team-order runs over a stand-in OpenMP runtime as observation",
    design="§4 C12", note=NOTE_BASE + " Footprints are hand-written (modelled, not derived); harness/omp_standin.cpp replaces libgomp for the controlled-order and TSan runs.")

CHECKS["C17"] = dict(
    text=("Machine-checked theorems: (1) Props/C17Gen.lean, GENERATED on every run — for each of the 160 copy/add/sub/mul "
          "_batch/_avx/_avx512 overloads a structural equality between the body translated from the current source and "
          "'lane kernel applied to the operands the parameters designate, written lane 0 first to the positions the output "
          "parameters designate', the designation being derived from the C++ SIGNATURE (types and names: offset_a/b/c, offsets1/2, "
          "stride, stride_dst); valid for EVERY stride and index array (0, colliding and wrapping included) and every operand "
          "value; (2) Props/C17.lean — frame condition (nothing else written), value of each designated position at field level "
          "through the kernel theorems of C01/C02/C11, set/load/store; (3) parcpy/parSetZero transfer exactly size elements for "
          "every size, every int thread count (<= 0 included) and every execution order of the chunks (hand model "
          "Model/ParCopy.lean; both functions are also translated from the source and bridged: C17_generated_parcpy, C17_generated_parSetZero). Tie: bodies regenerated from the source; correspondence of every overload (implementation vs "
          "generated model vs signature-derived oracle) with exact-extent arrays against PROT_NONE guard pages, including call "
          "patterns in which the broadcast scalar is an element of the result array itself (f(out, out[j], ...): the designated "
          "scalar is the value at the call)."),
    technique="Lean 4 proof, statements generated from C++ signatures and bodies translated from the source (clang AST) + CPU correspondence",
    design="§4 C17", note=NOTE_BASE + " Distinct pointer arguments are modelled as disjoint regions (aliasing of pointer arguments not covered; a scalar taken from the result array is exercised, not proved); parcpy and parSetZero are also translated and bridged.")
CHECKS["C08"] = dict(
    text=("Machine-checked theorems (Props/C08.lean) about the Merkle model (leaf digests, then level by level the hashes of adjacent "
          "digest pairs), generic in leaf and node hash: for every power-of-two row count incl. one the buffer size equals the "
          "element-count helper = 4(2·rows−1), the leaves come first, the root is the last four elements = recursive pairwise hash; "
          "backends agree when their hashes agree; the batched leaf. Tie: correspondence over rows x cols x dim x batch x backend "
          "(seq/avx/avx512/default wrapper) x threads, every buffer element compared, forked child with redzones. D5/D11 (AVX512 "
          "builders out of bounds for one row) found with replays and fixed. ALSO: all six builders and the two wrappers are translated on every run (OpenMP loops sequentially, floor on doubles modelled) and executed against the code; C08_generated_* prove for ALL eight (merkletree_seq/_avx/_avx512, merkletree_batch_seq/_avx/_avx512, both default wrappers) that for rows = 2^k the generated builder returns exactly the model tree (batched leaves = Model.batchLeaf) in the first 4(2·rows-1) words and writes nothing else; for the AVX512 builders the leaf level is stated as the halves of the two-at-a-time digests unconditionally, and as per-row leaves under the bit-level interleaving hypothesis on the translated two-state permutation (C06 has it at field level)."),
    technique="Lean 4 proof by induction over levels of a hand-written model + correspondence over the shape grid",
    design="§4 C08", note=NOTE_BASE)

NOT_YET = {
}


CHECKS["C16"] = dict(
    text=("Machine-checked theorems: (1) Props/C16Gen*.lean, GENERATED on every run — one theorem for each of the 156 add/sub/mul "
          "_batch/_avx/_avx512 overloads of goldilocks_cubic_extension.hpp and the 3 planar<->interleaved copies: the STATEMENT is "
          "derived from the routine name (operation, operand shape 13/31/33, 'c' = broadcast constant, family) and the parameter "
          "TYPES and NAMES only (tools/extspec.py); it says that the body translated from the current source writes, for element k, "
          "three words whose values in ZMod p are the coefficients of the K3 = F_p[x]/(x^3-x-1) sum/difference/product of the k-th "
          "designated operands (array operands at exactly the positions the stride / index-array parameters designate, 64-bit index "
          "arithmetic; registers lane k), as sequential writes at exactly the designated output positions (array outputs), planar "
          "registers 0..2 with the rest of the register array untouched (Element_avx outputs) or three register references; valid "
          "for EVERY stride / index array (0, colliding, wrapping) and every operand representation; the three challenge products "
          "under the hypothesis that the extra operand holds b0+b1, b0+b2, b1+b2; (2) Props/C16.lean — frame, order-agnostic and "
          "exact value of every designated position, closed forms for the interleaved and the non-overlapping strided layout, the "
          "link to the scalar Goldilocks3 add/sub/mul of C09 (all operand forms), the copies. The READ footprint is not a theorem "
          "(total model): it is established by the correspondence run. Tie: bodies regenerated from the source; correspondence of "
          "every overload (implementation vs generated model vs signature-derived K3 oracle) with exact-extent arrays against "
          "PROT_NONE guard pages, strides 0,1,2,3,5,17,1000+, index arrays, and product operands directed at the reduction "
          "boundaries incl. the top non-canonical window [2^64-2^31, 2^64)."),
    technique="Lean 4 proof (ZMod p, ring), statements generated from C++ signatures and bodies translated from the source (clang AST) + CPU correspondence",
    design="DESIGN.C16.md", note=NOTE_BASE + " Distinct pointer / register-array arguments are modelled as disjoint (argument aliasing not covered). "
                                        "Operand designation conventions are written down in tools/extspec.py and validated against the implementation by the oracle run.")


def main():
    props = [json.loads(l) for l in open(os.path.join(ROOT, "properties.jsonl"))]
    checks, na = [], []
    for p in props:
        pid = p["id"]
        if pid in CHECKS:
            c = CHECKS[pid]
            checks.append({
                "property_id": pid,
                "quick_cmd": "./check %s --tier quick" % pid,
                "thorough_cmd": "./check %s --tier thorough" % pid,
                "evidence_file": "evidence/%s.json" % pid,
                "replay_cmd_template": "./check %s --replay {path}" % pid,
                "engine": "lean4-proof+correspondence",
                "level_claimed": {"category": "proof", "text": c["text"], "design_ref": c["design"]},
                "level_note": c["note"],
                "technique": c["technique"],
            })
        else:
            na.append({"property_id": pid, "reason": NOT_YET.get(pid, "check not built yet in this round (planned, see DESIGN.md §7); not claimed")})
    man = {
        "version": 1,
        "setup_cmd": "./check --setup",
        "hooks": {"guard": "GOLDILOCKS_VERIF", "enable": "no hook exists: the checks build /repo's sources unchanged (the guard name GOLDILOCKS_VERIF is reserved, never defined)",
                  "baseline_off_cmd": "cd /repo && make testcpu && ./testcpu", "source_commits": [], "add_only": True},
        "engines": [{"name": "lean4-proof+correspondence", "path": "check",
                     "serves_properties": [c["property_id"] for c in checks],
                     "kind_free_text": "Lean 4 theorems over models regenerated from the source (tools/gen.py) or hand-written "
                                       "models tied by a C++ harness / Lean driver line-protocol correspondence"}],
        "checks": checks,
        "not_applicable": na,
        "notes": "See DESIGN.md. All checks run under ./check; evidence is rewritten on every run.",
    }
    with open(os.path.join(ROOT, "MANIFEST.json"), "w") as f:
        json.dump(man, f, indent=1)
    try:
        import jsonschema
        jsonschema.validate(man, json.load(open("/root/.vp/MANIFEST.schema.json")))
        print("MANIFEST.json valid: %d checks, %d not claimed" % (len(checks), len(na)))
    except ImportError:
        print("jsonschema not available; written without validation")


if __name__ == "__main__":
    main()
