"""Which library functions go into which generated Lean module."""

SCALAR_ROOTS = [("Goldilocks", n) for n in
                ["add", "sub", "mul", "inc", "dec", "neg", "square", "mulScalar", "toU64", "fromU64",
                 "equal", "isZero", "isOne", "isNegone", "zero", "one", "negone", "w", "shift"]]

MODULES = [
    {"name": "Scalar", "ns": "Gen.Scalar",
     "imports": ["GoldilocksVerif.Isa.X86", "GoldilocksVerif.Model.Region"],
     "roots": SCALAR_ROOTS},
]


def _all_params(d, pred):
    ps = [c for c in d.get("inner", []) if c.get("kind") == "ParmVarDecl"]
    return all(pred(p["type"]["qualType"]) for p in ps)


def _kernel256(d):
    """lane-kernel overloads: every parameter is a __m256i reference (or a const Element pointer/array)"""
    return _all_params(d, lambda t: "__m256i" in t or ("Element" in t and "const" in t and ("*" in t or "[" in t)))


def _kernel512(d):
    return _all_params(d, lambda t: "__m512i" in t or ("Element" in t and ("*" in t or "[" in t)))


AVX2_KERNELS = ["shift_avx", "toCanonical_avx", "toCanonical_avx_s", "add_avx", "add_avx_a_sc", "add_avx_s_b_small",
                "add_avx_b_small", "sub_avx", "sub_avx_s_b_small", "mult_avx", "mult_avx_8", "mult_avx_128",
                "mult_avx_72", "reduce_avx_128_64", "reduce_avx_96_64", "square_avx", "square_avx_128"]
AVX2_MAT = ["spmv_avx_4x12", "spmv_avx_4x12_a", "spmv_avx_4x12_8", "mmult_avx_4x12", "mmult_avx_4x12_a",
            "mmult_avx_4x12_8", "mmult_avx", "mmult_avx_a", "mmult_avx_8", "dot_avx", "dot_avx_a"]
AVX512_KERNELS = ["toCanonical_avx512", "add_avx512", "add_avx512_b_c", "sub_avx512", "sub_avx512_b_c", "mult_avx512",
                  "mult_avx512_8", "mult_avx512_128", "mult_avx512_72", "reduce_avx512_128_64", "reduce_avx512_96_64",
                  "square_avx512", "square_avx512_128"]
AVX512_MAT = ["spmv_avx512_4x12", "spmv_avx512_4x12_8", "mmult_avx512_4x12", "mmult_avx512_4x12_8", "mmult_avx512",
              "mmult_avx512_8", "dot_avx512"]

VEC_IMPORTS = ["GoldilocksVerif.Isa.X86", "GoldilocksVerif.Isa.Avx2", "GoldilocksVerif.Isa.Avx512",
               "GoldilocksVerif.Model.Region", "GoldilocksVerif.Gen.VecConsts", "GoldilocksVerif.Gen.Scalar"]

MODULES += [
    {"name": "Avx2", "reg_alias": True, "ns": "Gen.Avx2", "imports": VEC_IMPORTS, "needs_globals": True,
     "roots": [("Goldilocks", n) for n in AVX2_KERNELS], "filter": _kernel256},
    {"name": "Avx512", "reg_alias": True, "ns": "Gen.Avx512", "imports": VEC_IMPORTS, "needs_globals": True,
     "roots": [("Goldilocks", n) for n in AVX512_KERNELS], "filter": _kernel512},
    {"name": "Avx2Mat", "reg_alias": True, "ns": "Gen.Avx2Mat", "imports": VEC_IMPORTS + ["GoldilocksVerif.Gen.Avx2"], "needs_globals": True,
     "roots": [("Goldilocks", n) for n in AVX2_MAT], "filter": _kernel256},
    {"name": "Avx512Mat", "reg_alias": True, "ns": "Gen.Avx512Mat", "imports": VEC_IMPORTS + ["GoldilocksVerif.Gen.Avx512"], "needs_globals": True,
     "roots": [("Goldilocks", n) for n in AVX512_MAT], "filter": _kernel512},
]


EXT_SCALAR = ["zero", "one", "isOne", "copy", "add", "sub", "neg", "mul", "square"]
# aliased call patterns whose model is generated as well (out==a, out==b, a==b, all three)
EXT_ALIASES = {
    "add": [[("result", "a")], [("result", "b")], [("a", "b")], [("result", "a"), ("result", "b")]],
    "sub": [[("result", "a")], [("result", "b")], [("a", "b")], [("result", "a"), ("result", "b")]],
    "mul": [[("result", "a")], [("result", "b")], [("a", "b")], [("result", "a"), ("result", "b")]],
    "neg": [[("result", "a")]],
    "square": [[("result", "a")]],
}

MODULES += [
    {"name": "Ext", "ns": "Gen.Ext", "imports": ["GoldilocksVerif.Isa.X86", "GoldilocksVerif.Model.Region", "GoldilocksVerif.Gen.Scalar"],
     "roots": [("Goldilocks3", n) for n in EXT_SCALAR], "aliases": EXT_ALIASES},
]

POS_IMPORTS = VEC_IMPORTS + ["GoldilocksVerif.Gen.Avx2", "GoldilocksVerif.Gen.Avx512", "GoldilocksVerif.Gen.Avx2Mat",
                             "GoldilocksVerif.Gen.Avx512Mat"]
MODULES += [
    {"name": "PosConsts", "ns": "Gen.PosConsts", "imports": ["GoldilocksVerif.Model.Region"], "roots": [], "dispatch": False,
     "consts": ["C", "S", "M", "P", "M_", "P_"], "consts_namespace": "PoseidonGoldilocksConstants"},
    {"name": "PosScalar", "ns": "Gen.PosScalar", "imports": POS_IMPORTS + ["GoldilocksVerif.Gen.PosConsts"], "needs_globals": True,
     "roots": [("PoseidonGoldilocks", n) for n in ["pow7", "pow7_", "add_", "pow7add_", "dot_", "prod_", "mvp_",
                                                   "hash_full_result_seq", "hash_seq"]]},
    {"name": "PosAvx2", "ns": "Gen.PosAvx2", "imports": POS_IMPORTS + ["GoldilocksVerif.Gen.PosConsts", "GoldilocksVerif.Gen.PosScalar"], "needs_globals": True,
     "roots": [("PoseidonGoldilocks", n) for n in ["pow7_avx", "add_avx", "add_avx_a", "add_avx_small", "hash_full_result", "hash"]]},
    {"name": "PosAvx512", "ns": "Gen.PosAvx512", "imports": POS_IMPORTS + ["GoldilocksVerif.Gen.PosConsts", "GoldilocksVerif.Gen.PosScalar"], "needs_globals": True,
     "roots": [("PoseidonGoldilocks", n) for n in ["pow7_avx512", "add_avx512", "add_avx512_small", "hash_full_result_avx512",
                                                   "hash_avx512"]]},
]


def _not(f):
    return lambda d: not f(d)


WRAP_BATCH = ["copy_batch", "add_batch", "sub_batch", "mul_batch"]
WRAP_AVX2 = ["set_avx", "load_avx", "load_avx_a", "store_avx", "store_avx_a", "copy_avx", "add_avx", "sub_avx", "mul_avx"]
WRAP_AVX512 = ["load_avx512", "load_avx512_a", "store_avx512", "store_avx512_a", "copy_avx512",
               "add_avx512", "sub_avx512", "mul_avx512"]
MODULES += [
    {"name": "WrapBatch", "sigs": True, "scalar_alias": True, "ns": "Gen.WrapBatch", "imports": VEC_IMPORTS, "needs_globals": True,
     "roots": [("Goldilocks", n) for n in WRAP_BATCH]},
    {"name": "WrapAvx2", "sigs": True, "scalar_alias": True, "reg_alias": True, "ns": "Gen.WrapAvx2", "imports": VEC_IMPORTS + ["GoldilocksVerif.Gen.Avx2", "GoldilocksVerif.Gen.Avx2Mat"], "needs_globals": True,
     "roots": [("Goldilocks", n) for n in WRAP_AVX2]},
    {"name": "WrapAvx512", "sigs": True, "scalar_alias": True, "reg_alias": True, "ns": "Gen.WrapAvx512", "imports": VEC_IMPORTS + ["GoldilocksVerif.Gen.Avx512", "GoldilocksVerif.Gen.Avx512Mat", "GoldilocksVerif.Gen.PosAvx512"], "needs_globals": True,
     "roots": [("Goldilocks", n) for n in WRAP_AVX512]},
]



def _ext_wrap_roots(ast):
    names = set()
    for (cls, name), defs in ast.methods_by_name.items():
        if cls == "Goldilocks3" and re.search(r"_(batch|avx|avx512)$", name):
            names.add(name)
    return [("Goldilocks3", n) for n in sorted(names)]


import re
MODULES += [
    {"name": "ExtWrap", "ns": "Gen.ExtWrap", "sigs": True,
     "imports": VEC_IMPORTS + ["GoldilocksVerif.Model.VRegion", "GoldilocksVerif.Gen.Avx2", "GoldilocksVerif.Gen.Avx2Mat", "GoldilocksVerif.Gen.Avx512", "GoldilocksVerif.Gen.Avx512Mat",
                               "GoldilocksVerif.Gen.PosAvx2", "GoldilocksVerif.Gen.PosAvx512", "GoldilocksVerif.Gen.Ext", "GoldilocksVerif.Gen.WrapBatch",
                               "GoldilocksVerif.Gen.WrapAvx2", "GoldilocksVerif.Gen.WrapAvx512"],
     "needs_globals": True, "roots": _ext_wrap_roots,
     "vregion_regs": 3},      # every vector-region parameter of this module is a planar cubic-extension operand (3 registers)
]


# ---------------------------------------------------------------- extended-translator modules ("ext": True)
# Functions outside the basic subset (while loops, early exits, process-ending calls, OpenMP loops, run-time sized
# arrays): translated by the extended mode of tr_cxx.py.  Partial functions take `fuel` and return Option; their
# dispatch entries go to Driver/GenDispatchP.lean.  Bridge theorems: Lemmas/Bridge*.lean.
TRRT = "GoldilocksVerif.Model.TrRt"
MODULES += [
    {"name": "InvGen", "ns": "Gen.InvGen", "ext": True,
     "imports": ["GoldilocksVerif.Isa.X86", "GoldilocksVerif.Model.Region", TRRT, "GoldilocksVerif.Gen.Scalar"],
     "roots": [("Goldilocks", n) for n in ["inv", "div", "exp"]]},
    {"name": "ExtInvGen", "ns": "Gen.ExtInvGen", "ext": True,
     "imports": ["GoldilocksVerif.Isa.X86", "GoldilocksVerif.Model.Region", TRRT, "GoldilocksVerif.Gen.Scalar",
                 "GoldilocksVerif.Gen.Ext", "GoldilocksVerif.Gen.InvGen"],
     "roots": [("Goldilocks3", n) for n in ["inv", "div", "batchInverse"]]},
    {"name": "LinearHashGen", "ns": "Gen.LinearHashGen", "ext": True, "needs_globals": True,
     "imports": POS_IMPORTS + ["GoldilocksVerif.Gen.PosConsts", "GoldilocksVerif.Gen.PosScalar", "GoldilocksVerif.Gen.PosAvx2",
                               "GoldilocksVerif.Gen.PosAvx512", TRRT],
     "roots": [("PoseidonGoldilocks", n) for n in ["linear_hash_seq", "linear_hash", "linear_hash_avx512"]]},
    {"name": "MerkleGen", "ns": "Gen.MerkleGen", "ext": True, "needs_globals": True,
     "imports": POS_IMPORTS + ["GoldilocksVerif.Gen.PosConsts", "GoldilocksVerif.Gen.PosScalar", "GoldilocksVerif.Gen.PosAvx2",
                               "GoldilocksVerif.Gen.PosAvx512", TRRT, "GoldilocksVerif.Gen.LinearHashGen"],
     "roots": [("PoseidonGoldilocks", n) for n in ["merkletree_seq", "merkletree_avx", "merkletree_avx512", "merkletree_batch_seq",
                                                   "merkletree_batch_avx", "merkletree_batch_avx512", "merkletree",
                                                   "merkletree_batch"]]},
]


# ---------------------------------------------------------------- heap-mode modules ("heap": class name; tools/tr_heap.py)
# ntt_goldilocks.cpp / .hpp: pointers are values over one heap (Model/TrHeap.lean), data members are the fields of a generated
# structure.  Executed against the compiled code through the hand-written driver entry `nttseqg` (lean/Driver/NttG.lean);
# bridge theorems to the hand model Model/Ntt.lean: Lemmas/BridgeNtt*.lean (DESIGN.NTTGEN.md).
MODULES += [
    {"name": "NttGen", "ns": "Gen.NttGen", "ext": True, "heap": "NTT_Goldilocks", "dispatch": False,
     "imports": ["GoldilocksVerif.Isa.X86", "GoldilocksVerif.Model.Region", TRRT, "GoldilocksVerif.Model.TrHeap",
                 "GoldilocksVerif.Gen.Scalar"],
     "roots": [("NTT_Goldilocks", n) for n in ["log2", "intt_idx", "root"]] + [(None, "BR")] +
              [("NTT_Goldilocks", n) for n in ["NTT_Goldilocks", "~NTT_Goldilocks", "computeR", "reversePermutation", "NTT_iters",
                                               "NTT", "INTT", "extendPol"]]},
]


# ---------------------------------------------------------------- mpz-mode module ("mpz": True; DESIGN.CONV.md)
# goldilocks_base_field_tools.hpp: the conversions.  `mpz_class` values are Lean `Int`s, `std::string` is `String`,
# `int64_t` / `int32_t` are two's complement bit vectors (Model/TrMpz.lean; GMP's numeral parsing and printing are externs =
# the hand model's `parseInt` / `toDigitsR`).  `fromU64` / `toU64` are the functions of Gen/Scalar.lean (reused, not re-emitted).
# Bridge theorems to the hand model Model/Conv.lean: Lemmas/BridgeConv.lean, `C15_generated_*` in Props/C15.lean.
def _conv_filter(d):
    """not the array-printing overload of toString (string concatenation, std::to_string)"""
    return not any("*" in c["type"]["qualType"] for c in d.get("inner", []) if c.get("kind") == "ParmVarDecl")


MODULES += [
    {"name": "ConvGen", "ns": "Gen.ConvGen", "ext": True, "mpz": True, "filter": _conv_filter,
     "dispatch_prefix": "g_",      # `toS32` is also the name of a hand-written operation (harness/hand_dispatch.inc)
     "imports": ["GoldilocksVerif.Isa.X86", "GoldilocksVerif.Model.Region", TRRT, "GoldilocksVerif.Model.TrMpz",
                 "GoldilocksVerif.Gen.Scalar"],
     "roots": [("Goldilocks", n) for n in ["fromU64", "fromS64", "fromS32", "fromString", "fromScalar",
                                           "toU64", "toS64", "toS32", "toString"]]},
]

# Goldilocks3::mulScalar(result, a, std::string): calls fromString three times (translated in mpz mode)
MODULES += [
    {"name": "ExtScalarGen", "ns": "Gen.ExtScalarGen", "ext": True, "mpz": True, "dispatch": False,
     "imports": ["GoldilocksVerif.Isa.X86", "GoldilocksVerif.Model.Region", TRRT, "GoldilocksVerif.Model.TrMpz",
                 "GoldilocksVerif.Gen.Scalar", "GoldilocksVerif.Gen.Ext", "GoldilocksVerif.Gen.ConvGen"],
     "roots": [("Goldilocks3", "mulScalar")]},
]

# MerklehashGoldilocks::getTreeNumElements (merklehash_goldilocks.hpp): the size of the tree buffer.  Own module so that every
# other generated file stays as it is; bridge theorem `C08_generated_getTreeNumElements` (Props/C08.lean).
MODULES += [
    {"name": "MerkleSizeGen", "ns": "Gen.MerkleSizeGen", "dispatch": False,
     "imports": ["GoldilocksVerif.Isa.X86", "GoldilocksVerif.Model.Region"],
     "roots": [("MerklehashGoldilocks", "getTreeNumElements")]},
]

# Goldilocks::parSetZero (goldilocks_base_field.cpp): translated in heap mode like its sibling `parcpy` (which NttGen contains as
# a callee of NTT_iters), so that the chunked `memset` loop of the CURRENT source is bridged to the hand model Model/ParCopy.lean
# (Lemmas/BridgeParcpyZero.lean; `C17_generated_parSetZero`, `C12_generated_parSetZero_any_order`).  Own module: Gen/NttGen.lean
# stays as it is.  The heap mode wants a class for `this`; parSetZero is static and uses none of its members.
MODULES += [
    {"name": "ParZeroGen", "ns": "Gen.ParZeroGen", "ext": True, "heap": "NTT_Goldilocks", "dispatch": False,
     "imports": ["GoldilocksVerif.Isa.X86", "GoldilocksVerif.Model.Region", TRRT, "GoldilocksVerif.Model.TrHeap",
                 "GoldilocksVerif.Gen.Scalar"],
     "roots": [("Goldilocks", "parSetZero")]},
]
