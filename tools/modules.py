"""Which library functions go into which generated Lean module."""

SCALAR_ROOTS = [("Goldilocks", n) for n in
                ["add", "sub", "mul", "inc", "dec", "neg", "square", "mulScalar", "toU64", "fromU64",
                 "equal", "isZero", "isOne", "isNegone", "zero", "one", "negone"]]

MODULES = [
    {"name": "Scalar", "ns": "Gen.Scalar",
     "imports": ["GoldilocksVerif.Isa.X86", "GoldilocksVerif.Model.Region"],
     "roots": SCALAR_ROOTS},
]
