"""C16: derive, from the NAME and the parameter TYPES / NAMES of a batched / AVX2 / AVX512 cubic-extension routine
(never from its body), the *designation* of its operands and of its output, and from it
  - a Python oracle (arithmetic in K3 = F_p[x]/(x^3 - x - 1)) used by the correspondence campaign, and
  - the Lean statement `<fn>_spec` (generated into Props/C16Gen.lean), proved by one uniform tactic.

Conventions read off the API (tools/extspec.py is the single place where they are written down):
  name    = <op><shape>_<family>      op in add/sub/mul (or copy), family in batch (4 elements), avx (4), avx512 (8)
  shape   = dimension of a then b: 13 = base x ext, 31 = ext x base, none = 33; a digit followed by `c` = that operand is
            ONE constant broadcast to every element (13c, 33c, 31c, 1c3c)
  output  = `result` / `dst` (Element*, interleaved: coefficient i of element k at [3k+i])
          | `c`, `stride_c` (Element*, coefficient i of element k at [k*stride_c+i]; index array: [stride_c[k]+i])
          | `c_` (Element_avx: three planar registers, register i lane k = coefficient i of element k)
          | `c0_, c1_, c2_` (three register references, planar)
  operand = `a` / `b`: Element* (array; ext: [k*stride+i], default stride 3; base: [k*stride], default stride 1;
            constant: [i] resp. [0]), Element by value (constant base), Goldilocks3::Element& (constant ext);
            `a_` / `b_`: one register (base, lane k) or Element_avx (ext, planar); `a0_,a1_,a2_` / `b0_,b1_,b2_` (ext, planar)
  strides = stride_a / offset_a / stride0 -> a ; stride_b / offset_b / stride1 -> b ; stride -> the only array operand ;
            stride_c -> output ; scalar (uint64_t, uint32_t: zero-extended) or index array
  challenge products: an extra operand after b holding the precomputed sums (b0+b1, b0+b2, b1+b2):
            `b_` (Element[3]: ONE triple of sums, so b is the one challenge element, broadcast) or `aux0_,aux1_,aux2_`
            (registers, per lane).  Those overloads are specified UNDER the hypothesis that the sums are what they are
            documented to be (in the field: any representation).
All index arithmetic is 64-bit (wrap-around), as in the C++.
"""
import re

P = 0xFFFFFFFF00000001
M64 = (1 << 64) - 1


class NoSpec(Exception):
    pass


def pkind(ctype):
    t = ctype.strip()
    const = t.startswith("const ") or " const" in t
    b = t.replace("const ", "").replace(" const", "").strip()
    b = b.replace("Goldilocks::Element", "GElement")
    if re.match(r"^(Goldilocks3::)?Element_avx(512)?\s*&$", b) or b in ("__m256i *", "__m512i *"):
        return "vreg", (8 if "512" in b else 4), const
    if b in ("__m256i &", "__m512i &"):
        return ("reg" if const else "regref"), (8 if "512" in b else 4), const
    if b in ("__m256i", "__m512i"):
        return "reg", (8 if "512" in b else 4), const
    if b in ("Goldilocks3::Element &", "Element &"):
        return "e3", None, const
    if b == "GElement *":
        return "arr", None, const
    if b == "GElement":
        return "val", None, const
    if b in ("uint64_t", "uint32_t", "unsigned long", "unsigned int"):
        return "stride", (32 if b in ("uint32_t", "unsigned int") else 64), const
    if b in ("uint64_t *", "unsigned long *"):
        return "stridearr", None, const
    return "other:" + t, None, const


NAME_RE = re.compile(r"^(add|sub|mul)(?:([13])(c?)([13])(c?))?_(batch|avx512|avx)$")


def describe(lean_name, sig):
    """-> designation dict, or NoSpec(reason)"""
    cn = sig["c_name"]
    ps = []
    for p in sig["params"]:
        k, w, const = pkind(p["ctype"])
        if k.startswith("other"):
            raise NoSpec("unclassified parameter type '%s'" % p["ctype"])
        ps.append({"name": p["name"], "kind": k, "w": w, "const": const, "ctype": p["ctype"]})
    m = re.match(r"^copy_(batch|avx512|avx)$", cn)
    if m:
        op, fam = "copy", m.group(1)
        dims, consts = (3, None), (False, None)
    else:
        m = NAME_RE.match(cn)
        if not m:
            raise NoSpec("name does not follow <op><shape>_<family>")
        op, fam = m.group(1), m.group(6)
        if m.group(2):
            dims = (int(m.group(2)), int(m.group(4)))
            consts = (m.group(3) == "c", m.group(5) == "c")
        else:
            dims, consts = (3, 3), (False, False)
    W = 8 if fam == "avx512" else 4
    for p in ps:
        if p["kind"] in ("vreg", "reg", "regref") and p["w"] != W:
            raise NoSpec("register width of '%s' does not match the family" % p["name"])
        if p["kind"] in ("vreg", "reg", "regref") and fam == "batch":
            raise NoSpec("register parameter in a _batch routine")
    i = 0
    notes = []
    # ---- output
    out = None
    if ps and ps[0]["kind"] == "arr" and ps[0]["name"] in ("result", "dst"):
        out = {"kind": "arr", "name": ps[0]["name"], "stride": None}
        i = 1
    elif len(ps) >= 2 and ps[0]["kind"] == "arr" and ps[0]["name"] == "c" and ps[1]["name"] == "stride_c" \
            and ps[1]["kind"] in ("stride", "stridearr"):
        out = {"kind": "arr", "name": "c", "stride": (ps[1]["kind"], "stride_c", ps[1]["w"])}
        i = 2
    elif ps and ps[0]["kind"] == "vreg" and ps[0]["name"] == "c_":
        out = {"kind": "vreg", "name": "c_"}
        i = 1
    elif len(ps) >= 3 and [p["name"] for p in ps[:3]] == ["c0_", "c1_", "c2_"] and all(p["kind"] == "regref" for p in ps[:3]):
        out = {"kind": "regs3", "names": ["c0_", "c1_", "c2_"]}
        i = 3
    if out is None:
        raise NoSpec("cannot identify the output parameter(s)")

    # ---- operands
    def take(role, alt=None):
        nonlocal i
        if i >= len(ps):
            raise NoSpec("operand %s missing" % role)
        p = ps[i]
        names = (role, alt) if alt else (role,)
        if p["kind"] in ("arr", "val", "e3") and p["name"] in names:
            i += 1
            return {"role": role, "kind": p["kind"], "name": p["name"], "stride": None}
        if p["kind"] == "reg" and p["name"] == role + "_":
            i += 1
            return {"role": role, "kind": "reg", "name": p["name"]}
        if p["kind"] == "vreg" and p["name"] == role + "_":
            i += 1
            return {"role": role, "kind": "vreg", "name": p["name"]}
        trip = [role + "%d_" % j for j in range(3)]
        if [q["name"] for q in ps[i:i + 3]] == trip and all(q["kind"] == "reg" for q in ps[i:i + 3]):
            i += 3
            return {"role": role, "kind": "regs3", "names": trip}
        raise NoSpec("cannot identify operand %s at parameter '%s'" % (role, p["name"]))

    if op == "copy":
        operands = [take("a", alt="src")]
    else:
        operands = [take("a"), take("b")]
    # ---- challenge sums
    chal = None
    if op == "mul" and i < len(ps):
        if ps[i]["kind"] == "arr" and ps[i]["name"] == "b_" and operands[1]["kind"] == "arr":
            chal = {"kind": "arr", "name": "b_"}
            i += 1
            consts = (consts[0], True)     # one triple of sums: b is the one challenge element
            notes.append("challenge product: b is one element, b_ holds (b0+b1, b0+b2, b1+b2) [hypothesis]")
        elif [q["name"] for q in ps[i:i + 3]] == ["aux0_", "aux1_", "aux2_"] and all(q["kind"] == "reg" for q in ps[i:i + 3]) \
                and operands[1]["kind"] == "regs3":
            chal = {"kind": "regs3", "names": ["aux0_", "aux1_", "aux2_"]}
            i += 3
            notes.append("challenge product: aux lanes hold (b0+b1, b0+b2, b1+b2) of the same lane [hypothesis]")
    # ---- shape versus parameter kinds
    for o, d, c in zip(operands, dims, consts):
        o["dim"] = d
        o["const"] = bool(c)
        if d == 1 and o["kind"] not in ("arr", "val", "reg"):
            raise NoSpec("shape says operand %s is a base element but its type is %s" % (o["role"], o["kind"]))
        if d == 3 and o["kind"] not in ("arr", "e3", "vreg", "regs3"):
            raise NoSpec("shape says operand %s is an extension element but its type is %s" % (o["role"], o["kind"]))
        if o["kind"] in ("val", "e3") and not c:
            raise NoSpec("operand %s is a single value but the name has no 'c' for it" % o["role"])
        if c and o["kind"] in ("reg", "vreg", "regs3"):
            o["const"] = False     # a register operand is read lane by lane (a broadcast constant has equal lanes)
            notes.append("name marks %s constant but it is a register operand: read per lane" % o["role"])
    # ---- strides
    arrs = [o for o in operands if o["kind"] == "arr" and not o["const"]]
    while i < len(ps):
        p = ps[i]
        if p["kind"] not in ("stride", "stridearr"):
            raise NoSpec("unexpected parameter '%s'" % p["name"])
        nm = p["name"]
        tgt = None
        if nm in ("stride_a", "offset_a", "stride0"):
            tgt = operands[0]
        elif nm in ("stride_b", "offset_b", "stride1") and len(operands) > 1:
            tgt = operands[1]
        elif nm == "stride" and len(arrs) == 1:
            tgt = arrs[0]
        if tgt is None or tgt["kind"] != "arr" or tgt["const"] or tgt.get("stride") is not None:
            raise NoSpec("cannot attach stride parameter '%s'" % nm)
        tgt["stride"] = (p["kind"], nm, p["w"])
        i += 1
    return {"name": lean_name, "c_name": cn, "op": op, "fam": fam, "W": W, "out": out, "operands": operands, "chal": chal,
            "notes": notes, "params": ps}


# ---------------------------------------------------------------------------------------- positions
def opnd_pos(o, args, k, i):
    """index of coefficient i (0 for a base element) of element k in an array operand"""
    if o["const"]:
        return i
    st = o.get("stride")
    if st is None:
        return k * o["dim"] + i
    kind, nm, _ = st
    if kind == "stride":
        return (k * args[nm] + i) & M64
    return (args[nm][k] + i) & M64


def out_pos(out, args, k, i):
    st = out.get("stride")
    if st is None:
        return 3 * k + i
    kind, nm, _ = st
    if kind == "stride":
        return (k * args[nm] + i) & M64
    return (args[nm][k] + i) & M64


def opnd_extent(o, args, W):
    """number of words an array operand must have so that every designated position exists"""
    n = o["dim"]
    return 1 + max(opnd_pos(o, args, k, i) for k in range(W) for i in range(n))


def out_extent(out, args, W):
    return 1 + max(out_pos(out, args, k, i) for k in range(W) for i in range(3))


# ---------------------------------------------------------------------------------------- oracle (K3 over F_p)
def k3_of(o, args, k):
    if o["kind"] == "arr":
        a = args[o["name"]]
        v = [a[opnd_pos(o, args, k, i)] % P for i in range(o["dim"])]
    elif o["kind"] == "val":
        v = [args[o["name"]] % P]
    elif o["kind"] == "e3":
        v = [x % P for x in args[o["name"]][:3]]
    elif o["kind"] == "reg":
        v = [args[o["name"]][k] % P]
    elif o["kind"] == "vreg":
        v = [args[o["name"]][i][k] % P for i in range(3)]
    else:
        v = [args[n][k] % P for n in o["names"]]
    if len(v) == 1:
        v = [v[0], 0, 0]
    return v


def k3_add(a, b):
    return [(x + y) % P for x, y in zip(a, b)]


def k3_sub(a, b):
    return [(x - y) % P for x, y in zip(a, b)]


def k3_mul(a, b):
    a0, a1, a2 = a
    b0, b1, b2 = b
    t = a1 * b2 + a2 * b1
    return [(a0 * b0 + t) % P, (a0 * b1 + a1 * b0 + t + a2 * b2) % P, (a0 * b2 + a1 * b1 + a2 * b0 + a2 * b2) % P]


def oracle(desc, args):
    """per element k: the three coefficients (canonical residues) the scalar operation gives on the k-th operands.
    copy: the raw words (exact)."""
    W = desc["W"]
    res = []
    for k in range(W):
        if desc["op"] == "copy":
            o = desc["operands"][0]
            if o["kind"] == "arr":
                res.append([args[o["name"]][3 * k + i] for i in range(3)])
            else:
                res.append([args[n][k] for n in o["names"]])
            continue
        a = k3_of(desc["operands"][0], args, k)
        b = k3_of(desc["operands"][1], args, k)
        res.append({"add": k3_add, "sub": k3_sub, "mul": k3_mul}[desc["op"]](a, b))
    return res


def chal_sums(desc, args, k):
    """the sums the challenge operand must hold for element k (canonical residues)"""
    b = k3_of(desc["operands"][1], args, k)
    return [(b[0] + b[1]) % P, (b[0] + b[2]) % P, (b[1] + b[2]) % P]


# ---------------------------------------------------------------------------------------- Lean statements
LEAN_TY = {"ptr": "Region", "arr": "Region", "u64": "BitVec 64", "u32": "BitVec 32", "v4": "V4", "v8": "V8",
           "vr4": "VRegion4", "vr8": "VRegion8"}


def stride_term(st):
    kind, nm, w = st
    if kind == "stride":
        return "(posS %s)" % (nm if w != 32 else "(BitVec.setWidth 64 %s)" % nm)
    return "(posA %s)" % nm


def opnd_term(o, W):
    """the operand as a function  element number -> K3"""
    k = o["kind"]
    s = "4" if W == 4 else "8"
    if k == "arr":
        if o["const"]:
            pos = "posC"
        elif o.get("stride"):
            pos = stride_term(o["stride"])
        else:
            pos = "(posD %d)" % o["dim"]
        return "(%s %s %s)" % ("ext3" if o["dim"] == 3 else "base1", o["name"], pos)
    if k == "val":
        return "(val1 %s)" % o["name"]
    if k == "e3":
        return "(ext3 %s posC)" % o["name"]
    if k == "reg":
        return "(reg%s %s)" % (s, o["name"])
    if k == "vreg":
        return "(vreg%s %s)" % (s, o["name"])
    return "(regs%s %s)" % (s, " ".join(o["names"]))


def lean_statement(desc, sig, ns):
    """-> (binders, hypothesis or None, proposition, proof script)"""
    W = desc["W"]
    s = "4" if W == 4 else "8"
    binders, args = [], []
    for q in sig["lean_params"]:
        if q["mode"] in ("out", "merged"):
            continue
        ty = LEAN_TY.get(q["cat"])
        if ty is None:
            raise NoSpec("parameter category %s" % q["cat"])
        binders.append("(%s : %s)" % (q["name"], ty))
        args.append(q["name"])
    fn = "%s.%s" % (ns, desc["name"])
    call = "(%s %s)" % (fn, " ".join(args))
    out = desc["out"]
    hyp = None
    if desc["op"] == "copy":
        o = desc["operands"][0]
        if out["kind"] != "arr" or out.get("stride"):
            raise NoSpec("copy with a non-interleaved output")
        if o["kind"] == "arr":
            word = "(fun k i => %s (posD 3 k i))" % o["name"]
        elif o["kind"] == "regs3":
            word = "(word%s %s)" % (s, " ".join(o["names"]))
        else:
            raise NoSpec("copy source of kind %s" % o["kind"])
        return binders, None, "ScatterExact %d (posD 3) %s %s %s" % (W, word, out["name"], call), "ext_copy %s" % fn
    a, b = desc["operands"]
    val = "(fun k => K3.%s (%s k) (%s k))" % (desc["op"], opnd_term(a, W), opnd_term(b, W))
    ch = desc["chal"]
    if ch:
        if ch["kind"] == "arr":
            hyp = "(h : ChalSums (%s 0) (den (%s 0)) (den (%s 1)) (den (%s 2)))" % (opnd_term(b, W), ch["name"], ch["name"], ch["name"])
        else:
            hyp = "(h : ∀ k, k < %d → ChalSums (%s k) %s)" % (W, opnd_term(b, W), " ".join("(den (%s.getN k))" % n for n in ch["names"]))
    if out["kind"] == "arr":
        pos = stride_term(out["stride"]) if out.get("stride") else "(posD 3)"
        prop = "Scatter3 %d %s %s %s %s" % (W, pos, val, out["name"], call)
        script = ("ext_arr_chal %s h" % fn) if ch else ("ext_arr %s" % fn)
    elif out["kind"] == "vreg":
        prop = "PlanarV%s %s %s %s" % (s, val, out["name"], call)
        if ch:
            raise NoSpec("challenge product with an Element_avx output")
        script = "ext_vreg %s" % fn
    else:
        prop = "Planar%s %s %s.1 %s.2.1 %s.2.2" % (s, val, call, call, call)
        script = ("ext_regs_chal%s %s h" % (s, fn)) if ch else ("ext_regs %s" % fn)
    if ch and out["kind"] == "arr" and ch["kind"] != "arr":
        raise NoSpec("register challenge sums with an array output")
    return binders, hyp, prop, script


PART_SIZE = {"add": 14, "sub": 14, "mul": 7, "copy": 14}


def emit_lean(status):
    """-> ({file name: text}, index, skipped).  Props/C16Gen.lean imports the parts (built in parallel by lake)."""
    sigs = (status["modules"].get("ExtWrap") or {}).get("sigs") or {}
    groups, index, skipped = {}, [], []
    for name, sig in sigs.items():
        if sig.get("class") != "Goldilocks3" or not re.search(r"_(batch|avx|avx512)$", sig.get("c_name") or ""):
            continue
        try:
            d = describe(name, sig)
            binders, hyp, prop, script = lean_statement(d, sig, "Gen.ExtWrap")
        except NoSpec as e:
            skipped.append({"fn": name, "module": "ExtWrap", "why": str(e)})
            continue
        ctext = "%s(%s)" % (sig["c_name"], ", ".join("%s %s" % (p["ctype"], p["name"]) for p in sig["params"]))
        doc = "`%s`" % ctext
        if d["notes"]:
            doc += "\n    " + "; ".join(d["notes"])
        txt = "/-- %s -/\ntheorem %s_spec %s%s :\n    %s := by\n  %s\n" % (
            doc, name, " ".join(binders), ("\n    " + hyp) if hyp else "", prop, script)
        groups.setdefault((d["op"], d["fam"]), []).append((name, txt))
        index.append({"theorem": name + "_spec", "fn": name, "module": "ExtWrap", "c": ctext, "line": sig.get("line"),
                      "family": "%s_%s" % (d["op"], d["fam"]), "hyp": bool(hyp), "notes": d["notes"],
                      "out": d["out"]["kind"] + ("+stride" if d["out"].get("stride") else "")})
    files = {}
    parts = []
    for (op, fam), items in sorted(groups.items()):
        n = PART_SIZE[op]
        for ci in range(0, len(items), n):
            pname = "C16Gen_%s_%s_%d" % (op, fam, ci // n)
            parts.append(pname)
            body = ["-- GENERATED by tools/extspec.py from the C++ SIGNATURES (routine name, parameter types and names) of the current source.",
                    "-- Do not edit.  One theorem per batched / AVX2 / AVX512 cubic-extension overload: for element k the written",
                    "-- coefficients denote (in ZMod p) the K3 sum / difference / product of the k-th designated operands.",
                    "import GoldilocksVerif.Lemmas.ExtWrapTac", "set_option maxRecDepth 8192", "namespace GoldilocksVerif.C16Gen",
                    "open GoldilocksVerif", ""]
            for name, txt in items[ci:ci + n]:
                body.append(txt)
                for t in index:
                    if t["fn"] == name:
                        t["file"] = pname + ".lean"
            body += ["end GoldilocksVerif.C16Gen", ""]
            files[pname + ".lean"] = "\n".join(body)
    top = ["-- GENERATED by tools/extspec.py. Do not edit.  Per-overload theorems of C16, in parts (built in parallel)."]
    top += ["import GoldilocksVerif.Props." + p for p in parts]
    top += [""]
    files["C16Gen.lean"] = "\n".join(top)
    return files, index, skipped
