"""Load clang-14's JSON AST for the goldilocks library (filtered dump) and index it.

The dump is produced from the CURRENT /repo working tree on every run; nothing is cached
across runs except by content hash of the sources.
"""
import json, os, subprocess, hashlib, re, tempfile

REPO = os.environ.get("VERIF_REPO", "/repo")
SRC = os.path.join(REPO, "src")

TU_TEXT = """#include "goldilocks_base_field.hpp"
#include "goldilocks_cubic_extension.hpp"
#include "poseidon_goldilocks.hpp"
#include "ntt_goldilocks.hpp"
#include "goldilocks_base_field.cpp"
#include "goldilocks_cubic_extension.cpp"
#include "poseidon_goldilocks.cpp"
#include "ntt_goldilocks.cpp"
"""

# file-scope functions whose qualified name does not contain "Goldilocks" (one extra filtered dump each).  clang's node
# ids differ between two runs, so the references in the main dump are tied to the definition by NAME (unique, checked).
EXTRA_FUNCTIONS = ["BR"]

CLANG_FLAGS = ["-std=gnu++17", "-fsyntax-only", "-mavx2", "-mavx512f", "-D__AVX512__", "-fopenmp",
               "-I" + SRC, "-w"]


class AstError(Exception):
    pass


def _run_dump(tu_path, filt):
    cmd = ["clang++-14"] + CLANG_FLAGS + ["-Xclang", "-ast-dump=json", "-Xclang",
                                          "-ast-dump-filter=" + filt, tu_path]
    p = subprocess.run(cmd, stdout=subprocess.PIPE, stderr=subprocess.PIPE, timeout=300)
    if p.returncode != 0:
        raise AstError("clang failed: " + p.stderr.decode()[:2000])
    return p.stdout.decode()


def _split(s):
    dec = json.JSONDecoder()
    i, n, objs = 0, len(s), []
    while i < n:
        while i < n and s[i].isspace():
            i += 1
        if i >= n:
            break
        o, j = dec.raw_decode(s, i)
        objs.append(o)
        i = j
    return objs


def _annotate_files(objs):
    """clang prints "file" only when it changes (sticky); propagate it in document order."""
    cur = [None]

    def visit_loc(d):
        # a bare location dict or one with spellingLoc/expansionLoc
        if "spellingLoc" in d or "expansionLoc" in d:
            for k in ("spellingLoc", "expansionLoc"):
                if k in d:
                    visit_loc(d[k])
            return
        if "file" in d:
            cur[0] = d["file"]
        elif "offset" in d:
            d["file"] = cur[0]

    def walk(n):
        if isinstance(n, dict):
            for k, v in n.items():
                if k == "loc" and isinstance(v, dict):
                    visit_loc(v)
                elif k == "range" and isinstance(v, dict):
                    for kk in ("begin", "end"):
                        if kk in v:
                            visit_loc(v[kk])
                else:
                    walk(v)
        elif isinstance(n, list):
            for x in n:
                walk(x)

    for o in objs:
        walk(o)


class Ast:
    def __init__(self, workdir=None):
        if not workdir:
            # scratch under /verif/build (never /tmp); removed at exit, and leftovers of killed runs older than an hour are
            # swept at the next start
            import atexit, shutil, time
            base = os.path.join(os.path.dirname(os.path.dirname(os.path.abspath(__file__))), "build", "ast")
            os.makedirs(base, exist_ok=True)
            for d in os.listdir(base):
                q = os.path.join(base, d)
                try:
                    if time.time() - os.path.getmtime(q) > 3600:
                        shutil.rmtree(q, True)
                except OSError:
                    pass
            workdir = tempfile.mkdtemp(prefix="glverif_ast_", dir=base)
            atexit.register(shutil.rmtree, workdir, True)
        self.workdir = workdir
        tu = os.path.join(self.workdir, "tu.cpp")
        with open(tu, "w") as f:
            f.write(TU_TEXT)
        self.tu = tu
        txt = _run_dump(tu, "Goldilocks")
        self.objs = _split(txt)
        _annotate_files(self.objs)
        self.extra_defs = {}
        for fname in EXTRA_FUNCTIONS:
            xo = _split(_run_dump(tu, fname))
            _annotate_files(xo)
            defs = [o for o in xo if o.get("kind") == "FunctionDecl" and o.get("name") == fname and
                    any(c.get("kind") == "CompoundStmt" for c in o.get("inner", []))]
            if len(defs) == 1:
                self.objs.append(defs[0])
                # ids under which the main dump refers to this function
                ids = set(re.findall(r'"referencedDecl":\s*\{\s*"id":\s*"(0x[0-9a-f]+)",\s*"kind":\s*"FunctionDecl",\s*"name":\s*"%s"'
                                     % re.escape(fname), txt))
                self.extra_defs[fname] = (defs[0], ids)
        self.by_id = {}
        self.fn_defs = {}      # id -> decl (with body)
        self.fn_decl_to_def = {}
        self.var_defs = {}     # qualified static data members / globals by id
        self.methods_by_name = {}
        self._index()
        self._srccache = {}
        for fname, (d, ids) in self.extra_defs.items():
            for i in ids:
                if i not in self.fn_defs:
                    self.fn_defs[i] = d

    def _index(self):
        def reg_fn(d, cls):
            d["_class"] = cls
            self.by_id[d["id"]] = d
            has_body = any(c.get("kind") == "CompoundStmt" for c in d.get("inner", []))
            if has_body:
                self.fn_defs[d["id"]] = d
                if "previousDecl" in d:
                    self.fn_decl_to_def[d["previousDecl"]] = d["id"]
                self.methods_by_name.setdefault((cls, d["name"]), []).append(d)

        def reg_var(d, cls):
            d["_class"] = cls
            self.by_id[d["id"]] = d
            if any(c.get("kind") not in (None,) for c in d.get("inner", [])):
                self.var_defs[d["id"]] = d
                if "previousDecl" in d:
                    self.fn_decl_to_def[d["previousDecl"]] = d["id"]

        for o in self.objs:
            k = o.get("kind")
            if k == "CXXRecordDecl":
                cls = o.get("name")
                for m in o.get("inner", []):
                    if m.get("kind") in ("CXXMethodDecl", "CXXConstructorDecl", "CXXDestructorDecl"):
                        reg_fn(m, cls)
                    elif m.get("kind") in ("VarDecl", "FieldDecl"):
                        m["_class"] = cls
                        self.by_id[m["id"]] = m
            elif k in ("CXXMethodDecl", "FunctionDecl", "CXXConstructorDecl", "CXXDestructorDecl"):
                cls = None
                mn = o.get("mangledName", "")
                # parent class from the mangled name  _ZN<len><name>...
                m = re.match(r"_ZNK?(\d+)", mn)
                if m:
                    ln = int(m.group(1))
                    st = m.end()
                    cls = mn[st:st + ln]
                reg_fn(o, cls)
            elif k == "VarDecl":
                reg_var(o, None)
            elif k == "NamespaceDecl":
                for m in o.get("inner", []):
                    if m.get("kind") == "VarDecl":
                        m["_namespace"] = o.get("name")
                        reg_var(m, None)

    def resolve_fn(self, decl_id):
        """Map a referencedDecl id (possibly the in-class declaration) to the definition."""
        if decl_id in self.fn_defs:
            return self.fn_defs[decl_id]
        seen = set()
        cur = decl_id
        while cur in self.fn_decl_to_def and cur not in seen:
            seen.add(cur)
            cur = self.fn_decl_to_def[cur]
            if cur in self.fn_defs:
                return self.fn_defs[cur]
        return None

    def resolve_var(self, decl_id):
        if decl_id in self.var_defs:
            return self.var_defs[decl_id]
        cur = decl_id
        seen = set()
        while cur in self.fn_decl_to_def and cur not in seen:
            seen.add(cur)
            cur = self.fn_decl_to_def[cur]
            if cur in self.var_defs:
                return self.var_defs[cur]
        return None

    def source_text(self, rng):
        b, e = rng["begin"], rng["end"]
        if "expansionLoc" in b:
            b = b["expansionLoc"]
        if "expansionLoc" in e:
            e = e["expansionLoc"]
        f = b.get("file")
        if f is None:
            raise AstError("no file for range")
        if f not in self._srccache:
            with open(f, "rb") as fh:
                self._srccache[f] = fh.read()
        data = self._srccache[f]
        return data[b["offset"]: e["offset"] + e.get("tokLen", 1)].decode()

    def find_methods(self, cls, name):
        return self.methods_by_name.get((cls, name), [])


def sources_hash():
    h = hashlib.sha256()
    for fn in sorted(os.listdir(SRC)):
        p = os.path.join(SRC, fn)
        if os.path.isfile(p):
            h.update(fn.encode())
            with open(p, "rb") as f:
                h.update(f.read())
    return h.hexdigest()
