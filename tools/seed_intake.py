#!/usr/bin/env python3
"""Intake of a seeded change produced by a blind sub-agent:  tools/seed_intake.py <id> [check ids...]
 1. confirm in its scratch worktree /tmp/mut/<id>: patch applies to a clean checkout, baseline tests pass with it,
    demo fails with it and passes without it (demo built with the agent's recorded command)
 2. apply to /repo, run ./check for the given property ids (default: <id>), undo
 3. store /verif/seeded/<name>/{patch.diff,demo.cpp,meta.json}; remove the worktree
"""
import json, os, re, shutil, subprocess, sys

def sh(cmd, **kw):
    return subprocess.run(cmd, shell=True, stdout=subprocess.PIPE, stderr=subprocess.STDOUT, text=True, **kw)

def main():
    harmless = "--harmless" in sys.argv
    argv = [a for a in sys.argv if a != "--harmless"]
    id = argv[1]
    checks = argv[2:] or [id[:3]]
    W, D = "/tmp/mut/" + id, "/tmp/mut/%s_deliver" % id
    meta = json.load(open(D + "/meta.json"))
    sh("git checkout -q -- . && git clean -fdq", cwd=W)
    r = sh("git apply %s/patch.diff" % D, cwd=W)
    if r.returncode:
        print("patch does not apply", r.stdout); return 2
    r = sh("make -j8 testcpu >/dev/null 2>&1 && ./testcpu 2>&1 | tail -3", cwd=W)
    tests = "PASSED  ] 30 tests" in r.stdout
    build = meta.get("demo_build", "")
    flags = " ".join(f for f in build.split() if f in ("-mavx512f", "-D__AVX512__", "-O3", "-O0", "-O2") or f.startswith("-fsanitize") or f.startswith("-fno-sanitize"))
    opt = "" if any(o in flags for o in ("-O3", "-O0", "-O2")) else "-O1"
    cmd = "g++ -std=c++17 %s %s -mavx2 -fopenmp -I %s/src %s/demo.cpp %s/src/*.cpp -lgmp -lgmpxx -lpthread -o %s/demo_bin" % (opt, flags, W, D, W, D)
    b1 = sh(cmd); p = sh(D + "/demo_bin", timeout=900)
    sh("git checkout -q -- .", cwd=W)
    b2 = sh(cmd); c = sh(D + "/demo_bin", timeout=900)
    print("%s: tests_pass_with_patch=%s demo_patched_exit=%d demo_clean_exit=%d" % (id, tests, p.returncode, c.returncode))
    if b1.returncode or b2.returncode:
        print("demo build problem:", (b1.stdout + b2.stdout)[-800:])
    ok = tests and p.returncode != 0 and c.returncode == 0
    if harmless:      # behaviour-preserving refactoring: the demonstration must pass with and without it
        ok = tests and p.returncode == 0 and c.returncode == 0
    results = {}
    if ok:
        # run the checks against the scratch worktree WITH the patch applied (VERIF_REPO), /repo itself stays untouched
        sh("git apply %s/patch.diff" % D, cwd=W)
        for cid in checks:
            r = sh("VERIF_REPO=%s VERIF_EVIDENCE_DIR=/tmp/seed_evidence ./check %s --tier %s" % (W, cid, os.environ.get("TIER", "quick")), cwd="/verif", timeout=3000)
            tail = [l for l in r.stdout.splitlines() if re.match(r"(VIOLATION|OK|KNOWN)", l)]
            print("  check %s:" % cid, tail)
            results[cid] = {"exit": r.returncode, "lines": tail}
        sh("git checkout -q -- .", cwd=W)
        sh("python3 tools/gen.py", cwd="/verif")
    name = ("harmless-" + id) if harmless else id
    T = "/verif/seeded/" + name
    os.makedirs(T, exist_ok=True)
    for f in ("patch.diff", "demo.cpp"):
        shutil.copy(os.path.join(D, f), T)
    meta["property"] = meta.get("property") if harmless else id[:3]
    meta["demo_build_used"] = cmd.replace(W, "<worktree>").replace(D, "<dir>")
    meta["confirmed_by_me"] = {"how": "scratch worktree of /repo HEAD: git apply patch.diff; make testcpu && ./testcpu; demo built against the patched and the pristine tree",
                               "tests_pass_with_patch": tests, "demo_exit_patched": p.returncode, "demo_exit_clean": c.returncode, "kept": ok}
    meta["check_result"] = {"command": "git -C /repo apply /verif/seeded/%s/patch.diff; ./check <id> --tier quick; git -C /repo checkout -- .   (run here as VERIF_REPO=<scratch worktree with the patch> ./check <id>)" % name,
                            "results": results, "caught": any(v["exit"] == 1 for v in results.values())}
    if harmless:
        quiet = all(v["exit"] == 0 for v in results.values())
        with_input = any(any("VIOLATION" in l and "no-failing-input-found" not in l for l in v["lines"]) for v in results.values())
        meta["check_result"]["harmless_outcome"] = ("quiet (OK)" if quiet else ("FALSE ALARM WITH A CLAIMED FAILING INPUT" if with_input else
                                                   "tie/proof broken, reported as VIOLATION ... no-failing-input-found (allowed: the property is no longer SHOWN to hold for the new text)"))
        del meta["check_result"]["caught"]
    json.dump(meta, open(T + "/meta.json", "w"), indent=1)
    if ok:
        sh("git -C /repo worktree remove --force " + W); shutil.rmtree(D, ignore_errors=True)
    else:
        print("NOT KEPT (not confirmed); worktree left for inspection"); shutil.rmtree(T)
    return 0

sys.exit(main())
