#!/usr/bin/env python3
"""C20 robustness variants (round F): regenerates the *.diff files of this directory from the pristine src/gl64_t.cuh.
h* = behaviour-preserving edits of the PTX asm (./check C20 must print OK), w* = wrong edits (must print VIOLATION with an input).
usage: VERIF_REPO=<pristine repo> python3 robustness/C20/mkvar.py ; then  robustness/C20/run.sh  (scratch copy, ~30 s per variant)
each variant = list of (old, new) replacements, each `old` must occur exactly once"""
import os, subprocess, sys
SRC = os.path.join(os.environ.get('VERIF_REPO', '/repo'), 'src', 'gl64_t.cuh')
OUT = os.path.dirname(os.path.abspath(__file__))
base = open(SRC).read()
CH1 = '''        asm("mad.lo.cc.u32 %0, %3, %4, %0; madc.hi.cc.u32 %1, %3, %4, %1; addc.u32 %2, 0, 0;"
            : "+r"(temp[1]), "+r"(temp[2]), "=r"(carry)
            : "r"(a0), "r"(b1));'''
CH2 = '''        asm("mad.lo.cc.u32 %0, %3, %4, %0; madc.hi.cc.u32 %1, %3, %4, %1; addc.u32 %2, %2, %5;"
            : "+r"(temp[1]), "+r"(temp[2]), "+r"(temp[3])
            : "r"(a1), "r"(b0), "r"(carry));'''
SUB1 = '''        asm("sub.cc.u64 %0, %0, %2; subc.u32 %1, 0, 0;"
            : "+l"(val), "=r"(borrow)
            : "l"(b.val));
        asm("add.u64 %0, %1, %2;" : "=l"(tmp) : "l"(val), "l"(MOD));
        asm("setp.ne.u32 %top, %0, 0;" :: "r"(borrow));
        asm("@%top mov.b64 %0, %1;" : "+l"(val) : "l"(tmp));'''
RED_SUB = '''        asm("sub.cc.u32 %0, %0, %3; subc.cc.u32 %1, %1, %4; subc.u32 %2, 0, 0;"
            : "+r"(temp[0]), "+r"(temp[1]), "=r"(carry)
            : "r"(temp[2]), "r"(temp[3]));'''
RED_ADD = '''        asm("add.cc.u32 %0, %0, %2; addc.u32 %1, %1, %3;"
            : "+r"(temp[1]), "+r"(carry)
            : "r"(temp[2]), "r"(temp[3]));'''
FIN = '''        asm("add.cc.u64 %0, %2, %3; addc.u32 %1, 0, 0;"
            : "=l"(tmp), "=r"(carry)
            : "l"(val), "l"(0-MOD));
        asm("{ .reg.pred %top;");
        asm("setp.ne.u32 %top, %0, 0;" :: "r"(carry));'''
MULU_MAD = '''        asm("mad.lo.cc.u32 %0, %2, %3, %0; madc.hi.u32 %1, %2, %3, 0;"
            : "+r"(temp[1]), "=r"(temp[2])
            : "r"(a1), "r"(b));'''
MULU_ADD = '''        asm("add.cc.u32 %0, %0, %3; addc.cc.u32 %1, %1, %4; addc.u32 %2, 0, 0;"
            : "+r"(temp[0]), "+r"(temp[1]), "=r"(temp[2])
            : "r"(a0), "r"(a1));'''
CNEG_SUB = 'asm("sub.u64 %0, %1, %2;" : "=l"(tmp) : "l"(MOD), "l"(val));'
V = {
 # ---- harmless
 'hA_chain_swap': [(CH1, CH1.replace('"r"(a0), "r"(b1)', '"r"(a1), "r"(b0)')), (CH2, CH2.replace('"r"(a1), "r"(b0)', '"r"(a0), "r"(b1)'))],
 'hB_commute64': [(SUB1, SUB1.replace('add.u64 %0, %1, %2;', 'add.u64 %0, %2, %1;')),
                  (FIN, FIN.replace('add.cc.u64 %0, %2, %3;', 'add.cc.u64 %0, %3, %2;'))],
 'hC_mulu32_commute': [(MULU_MAD, MULU_MAD.replace('%2, %3, %0;', '%3, %2, %0;').replace('%2, %3, 0;', '%3, %2, 0;')),
                       (MULU_ADD, MULU_ADD.replace('add.cc.u32 %0, %0, %3; addc.cc.u32 %1, %1, %4;', 'add.cc.u32 %0, %3, %0; addc.cc.u32 %1, %4, %1;'))],
 'hD_reduce_commute': [(RED_ADD, RED_ADD.replace('add.cc.u32 %0, %0, %2; addc.u32 %1, %1, %3;', 'add.cc.u32 %0, %2, %0; addc.u32 %1, %3, %1;'))],
 'hE_sub_negated_pred': [(SUB1, SUB1.replace('setp.ne.u32', 'setp.eq.u32').replace('@%top mov', '@!%top mov'))],
 'hF_final_by_sub': [(FIN, FIN.replace('add.cc.u64 %0, %2, %3; addc.u32 %1, 0, 0;', 'sub.cc.u64 %0, %2, %3; subc.u32 %1, 0, 0;')
                            .replace('"l"(0-MOD)', '"l"(MOD)').replace('setp.ne.u32', 'setp.eq.u32'))],
 # ---- wrong
 'wA_drop_cc': [(RED_SUB, RED_SUB.replace('subc.cc.u32', 'subc.u32'))],
 'wB_wrong_index': [(CH2, CH2.replace('addc.u32 %2, %2, %5;', 'addc.u32 %2, %2, %4;'))],
 'wC_sub_swapped': [(SUB1, SUB1.replace('sub.cc.u64 %0, %0, %2;', 'sub.cc.u64 %0, %2, %0;'))],
 'wD_cneg_sub_swapped': [(CNEG_SUB, CNEG_SUB.replace('sub.u64 %0, %1, %2;', 'sub.u64 %0, %2, %1;'))],
 'wE_wrong_factor': [(CH1, CH1.replace('"r"(a0), "r"(b1)', '"r"(a0), "r"(b0)'))],
 'wF_final_setp_eq': [(FIN, FIN.replace('setp.ne.u32', 'setp.eq.u32'))],
 'wG_negated_pred_only': [(SUB1, SUB1.replace('@%top mov', '@!%top mov'))],
 'wH_drop_mad_cc': [(CH1, CH1.replace('madc.hi.cc.u32', 'madc.hi.u32'))],
 'wI_reduce_words_swapped': [(RED_SUB, RED_SUB.replace('"r"(temp[2]), "r"(temp[3])', '"r"(temp[3]), "r"(temp[2])'))],
}

ELSE1 = '''        asm("mad.lo.cc.u32 %0, %3, %4, %0; madc.hi.cc.u32 %1, %3, %4, %1; addc.u32 %2, %2, 0;"
            : "+r"(temp[1]), "+r"(temp[2]), "+r"(temp[3])
            : "r"(a0), "r"(b1));'''
ELSE2 = '''        asm("mad.lo.cc.u32 %0, %3, %4, %0; madc.hi.cc.u32 %1, %3, %4, %1; addc.u32 %2, %2, 0;"
            : "+r"(temp[1]), "+r"(temp[2]), "+r"(temp[3])
            : "r"(a1), "r"(b0));'''
IF1 = '''# if 1
        uint32_t carry; // isolate'''
IF0 = IF1.replace('# if 1', '# if 0')
V.update({
 'hG_mul_else_branch': [(IF1, IF0)],
 'hH_mul_else_branch_swapped_commuted': [(IF1, IF0), (ELSE1, ELSE1.replace('"r"(a0), "r"(b1)', '"r"(b0), "r"(a1)')), (ELSE2, ELSE2.replace('"r"(a1), "r"(b0)', '"r"(b1), "r"(a0)'))],
 'wJ_mul_else_branch_drop_carry': [(IF1, IF0), (ELSE2, ELSE2.replace('addc.u32 %2, %2, 0;', 'add.u32 %2, %2, 0;'))],
 'wK_chain_same_pair_twice': [(CH2, CH2.replace('"r"(a1), "r"(b0)', '"r"(a0), "r"(b1)'))],
})
os.makedirs(OUT, exist_ok=True)
for name, reps in V.items():
    s = base
    for old, new in reps:
        assert s.count(old) == 1, (name, s.count(old), old[:40])
        assert old != new, name
        s = s.replace(old, new)
    tmp = os.path.join(OUT, '_tmp.cuh')
    open(tmp, 'w').write(s)
    d = subprocess.run(['diff', '-u', '--label', 'a/src/gl64_t.cuh', '--label', 'b/src/gl64_t.cuh', SRC, tmp], stdout=subprocess.PIPE).stdout.decode()
    open(os.path.join(OUT, name + '.diff'), 'w').write(d)
    os.remove(tmp)
print(sorted(V))
