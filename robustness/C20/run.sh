#!/bin/bash
# run every variant of this directory (and the seeded H20 / C20 / C20b / C20c) against ./check C20 on a scratch copy of the repo.
# usage: [ONLY=<glob>] robustness/C20/run.sh [pristine-repo (default /repo)]   -- never writes to the pristine repo
HERE=$(cd "$(dirname "$0")" && pwd); ROOT=$(cd "$HERE/../.." && pwd); PRISTINE=${1:-/repo}
W=$(mktemp -d /tmp/c20var.XXXXXX); trap 'rm -rf "$W"' EXIT
export VERIF_REPO=$W/repo VERIF_EVIDENCE_DIR=$W/ev
cp -r "$PRISTINE" "$W/repo"
for v in "$ROOT"/seeded/harmless-H20/patch.diff "$ROOT"/seeded/C20/patch.diff "$ROOT"/seeded/C20b/patch.diff "$ROOT"/seeded/C20c/patch.diff "$HERE"/${ONLY:-*}.diff; do
  rm -rf "$W/repo/src"; cp -r "$PRISTINE/src" "$W/repo/src"
  (cd "$W/repo" && patch -p1 -s < "$v") || { echo "$v: PATCHFAIL"; continue; }
  echo -n "$(echo "$v" | sed 's#/patch.diff##; s#.*/##; s#.diff##'): "
  (cd "$ROOT" && timeout 600 ./check C20 2>&1 | tail -1)
done
rm -rf "$W/repo/src"; cp -r "$PRISTINE/src" "$W/repo/src"
(cd "$ROOT" && python3 tools/gen.py | tail -1)   # leave Gen/ regenerated from the pristine sources
