// Stand-in for the OpenMP runtime (libgomp), used by the C12 check only.  The library is compiled with -fopenmp as
// always (the `#pragma omp parallel for` loops are outlined by the compiler exactly as in production); only the
// runtime that runs the team is replaced, so that
//   mode "seq"     : the members of every team run SEQUENTIALLY in a pseudo-random ORDER (controlled schedules:
//                    every order of team members is a legal execution of an OpenMP static schedule), any team size;
//   a CAP on the team size models a runtime that grants fewer threads than requested (nested regions, thread limits);
//   mode "pthread" : every team is run on plain pthreads created and joined per region, so that ThreadSanitizer sees
//                    the real happens-before edges (libgomp's own synchronisation is invisible to it).
// gcc lowers `parallel for schedule(static[,c])` to GOMP_parallel(fn, data, num_threads, flags) and computes the
// iteration slice of a member inline from omp_get_thread_num()/omp_get_num_threads(); nothing else of libgomp is used
// by this library (no barrier, critical, atomic, dynamic schedule: checked by the C12 check on every run).
#include <pthread.h>
#include <stdint.h>
#include <stdlib.h>
#include <string.h>
#include <vector>

static thread_local int t_tid = 0;
static thread_local int t_n = 1;
static int g_mode = 0;            // 0 seq, 1 pthread
static int g_max = 4;             // omp_get_max_threads()
static int g_set = 0;             // omp_set_num_threads()
static uint64_t g_seed = 1;       // order stream (SplitMix64)
static int g_cap = 0;             // > 0: the runtime GRANTS at most this many members, whatever is requested (legal OpenMP)
static uint64_t g_regions = 0;    // number of parallel regions executed (reported to the harness)
static uint64_t g_members = 0;

static uint64_t sm64() {
    uint64_t z = (g_seed += 0x9E3779B97F4A7C15ULL);
    z = (z ^ (z >> 30)) * 0xBF58476D1CE4E5B9ULL;
    z = (z ^ (z >> 27)) * 0x94D049BB133111EBULL;
    return z ^ (z >> 31);
}

extern "C" {
void glv_omp_config(int mode, int maxthreads, uint64_t seed, int cap) { g_mode = mode; g_max = maxthreads > 0 ? maxthreads : 1; g_seed = seed; g_cap = cap; g_set = 0; g_regions = 0; g_members = 0; }
uint64_t glv_omp_regions() { return g_regions; }
uint64_t glv_omp_members() { return g_members; }

int omp_get_thread_num(void) { return t_tid; }
int omp_get_num_threads(void) { return t_n; }
int omp_get_max_threads(void) { return g_set > 0 ? g_set : g_max; }
void omp_set_num_threads(int n) { if (n > 0) g_set = n; }
void omp_set_dynamic(int) {}
int omp_get_dynamic(void) { return 0; }
int omp_in_parallel(void) { return t_n > 1; }
int omp_get_num_procs(void) { return g_max; }

struct Member { void (*fn)(void *); void *data; int tid; int n; };
static void *member_main(void *p) {
    Member *m = (Member *)p;
    t_tid = m->tid; t_n = m->n;
    m->fn(m->data);
    t_tid = 0; t_n = 1;
    return nullptr;
}

void GOMP_parallel(void (*fn)(void *), void *data, unsigned num_threads, unsigned /*flags*/) {
    int n = num_threads ? (int)num_threads : omp_get_max_threads();
    if (t_n > 1) n = 1;               // nested region: a team of one
    if (g_cap > 0 && n > g_cap) n = g_cap;   // fewer members than requested
    if (n < 1) n = 1;
    g_regions++; g_members += n;
    if (g_mode == 0) {
        std::vector<int> order(n);
        for (int i = 0; i < n; i++) order[i] = i;
        for (int i = n - 1; i > 0; i--) { int j = (int)(sm64() % (uint64_t)(i + 1)); int t = order[i]; order[i] = order[j]; order[j] = t; }
        int st = t_tid, sn = t_n;
        for (int k = 0; k < n; k++) { t_tid = order[k]; t_n = n; fn(data); }
        t_tid = st; t_n = sn;
        return;
    }
    std::vector<pthread_t> th(n);
    std::vector<Member> ms(n);
    for (int i = 0; i < n; i++) { ms[i].fn = fn; ms[i].data = data; ms[i].tid = i; ms[i].n = n; }
    for (int i = 1; i < n; i++) pthread_create(&th[i], nullptr, member_main, &ms[i]);
    int st = t_tid, sn = t_n;
    member_main(&ms[0]);
    t_tid = st; t_n = sn;
    for (int i = 1; i < n; i++) pthread_join(th[i], nullptr);
}
void GOMP_barrier(void) { abort(); }      // not used by the library; abort loudly if that ever changes
void GOMP_critical_start(void) { abort(); }
void GOMP_critical_end(void) { abort(); }
}
