// Correspondence harness: executes the REAL library functions of /repo (current working tree) on
// the operation lines read from stdin and prints canonical replies (see lean/Driver/Proto.lean).
//
//   request : [!][^]<fn> <tok>*   tok = hex word | '[' hex* ']'      '!' = run in a forked child, '^' = guard-page mode
//   reply   : ok <hex>*  |  err <reason>
//
// Built by tools/harness.py into a temporary directory together with /repo/src/*.cpp.
#define private public
#define protected public
#include "goldilocks_base_field.hpp"
#include "goldilocks_cubic_extension.hpp"
#include "poseidon_goldilocks.hpp"
#include "ntt_goldilocks.hpp"
#include "merklehash_goldilocks.hpp"
#undef private
#undef protected

#include <cstdio>
#include <cstdlib>
#include <cstring>
#include <string>
#include <vector>
#include <sstream>
#include <iostream>
#include <unistd.h>
#include <sys/wait.h>
#include <signal.h>
#include <fcntl.h>
#include <malloc.h>
#include <sys/mman.h>

static const uint64_t SENT = 0xA5A5A5A5A5A5A5A5ULL;
#ifdef HARNESS_EXACT
static const size_t RZ = 0;   // exact-size allocations: the sanitizer's redzones do the job
#else
static const size_t RZ = 16;
#endif

#ifdef HARNESS_OMP_STANDIN
extern "C" void glv_omp_config(int mode, int maxthreads, uint64_t seed, int cap);
extern "C" uint64_t glv_omp_regions();
extern "C" uint64_t glv_omp_members();
#endif

// guard mode ('^' request prefix): every region argument is mapped so that it ENDS at a PROT_NONE page; a read or
// write of even one element past the declared extent raises SIGSEGV (reported as "err signal 11" by the forked runner)
static bool g_guard = false;

struct Buf {
    uint64_t *base = nullptr;
    uint64_t *p = nullptr;
    size_t n = 0;
    bool ok = true;
    size_t maplen = 0;
    void release() {
        if (maplen) munmap(base, maplen); else free(base);
        base = nullptr;
    }
    void alloc(size_t n_) {
        n = n_;
        if (g_guard) {
            size_t bytes = n * 8, pg = 4096;
            size_t body = ((bytes + pg - 1) / pg) * pg;
            maplen = body + 2 * pg;
            char *m = (char *)mmap(nullptr, maplen, PROT_READ | PROT_WRITE, MAP_PRIVATE | MAP_ANONYMOUS, -1, 0);
            if (m == (char *)MAP_FAILED) { maplen = 0; base = p = nullptr; ok = false; return; }
            for (size_t i = 0; i < (pg + body) / 8; i++) ((uint64_t *)m)[i] = SENT;
            mprotect(m + pg + body, pg, PROT_NONE);
            base = (uint64_t *)m;
            p = (uint64_t *)(m + pg + body - bytes);
            return;
        }
        size_t tot = n + 2 * RZ;
        base = (uint64_t *)aligned_alloc(64, ((tot * 8 + 63) / 64) * 64 + 64);
#ifdef HARNESS_EXACT
        // place the region so that it ENDS at the end of an exact malloc block
        free(base);
        base = (uint64_t *)memalign(64, n ? n * 8 : 1);   // exact size, aligned for the _a kernels
        p = base;
#else
        for (size_t i = 0; i < tot; i++) base[i] = SENT;
        p = base + RZ;
#endif
    }
    bool check() {
        if (maplen) {   // guard mode: the slack below the region must still hold the sentinel
            for (uint64_t *q = base; q < p; q++) if (*q != SENT) ok = false;
            return ok;
        }
#ifndef HARNESS_EXACT
        for (size_t i = 0; i < RZ; i++)
            if (base[i] != SENT || base[RZ + n + i] != SENT) { ok = false; }
#endif
        return ok;
    }
};

struct Tok { bool isreg; uint64_t w; std::vector<uint64_t> r; bool isstr = false; std::string s; };

static std::vector<Buf> g_bufs;
static bool g_redzone_ok = true;

struct Args {
    std::vector<Tok> t;
    size_t i = 0;
    bool bad = false;
    uint64_t w() {
        if (i >= t.size() || t[i].isreg || t[i].isstr) { bad = true; return 0; }
        return t[i++].w;
    }
    Buf r() {
        Buf b;
        if (i >= t.size() || !t[i].isreg) { bad = true; b.alloc(0); g_bufs.push_back(b); return b; }
        b.alloc(t[i].r.size());
        for (size_t k = 0; k < b.n; k++) b.p[k] = t[i].r[k];
        i++;
        g_bufs.push_back(b);
        return b;
    }
    // n plain words gathered into one buffer (an array of vector registers passed lane by lane)
    Buf wbuf(size_t n) {
        Buf b;
        b.alloc(n);
        for (size_t k = 0; k < n; k++) b.p[k] = w();
        g_bufs.push_back(b);
        return b;
    }
    std::string s() {
        if (i >= t.size() || !t[i].isstr) { bad = true; return ""; }
        return t[i++].s;
    }
    size_t remaining() const { return t.size() - i; }
};

static std::vector<uint64_t> g_out;
static std::string g_err;
static std::string g_outs;   // string reply (ok s:<text>) when non-empty
static inline void outw(uint64_t v) { g_out.push_back(v); }

// ---- allocation log (C18): the library's malloc/free are linker-wrapped, operator new[]/delete[]/delete replaced.
// Only blocks allocated while logging is on are tracked; events: alloc = (1, family, bytes), release = (2, family, id)
// with family 0 = malloc/free, 1 = new[]/delete[], 2 = scalar delete.
#ifdef HARNESS_ALLOCLOG
#include <map>
#include <mutex>
#include <new>
extern "C" void *__real_malloc(size_t);
extern "C" void __real_free(void *);
static bool g_alog = false;
static std::vector<uint64_t> g_aev;
static std::map<void *, uint64_t> g_alive;
static uint64_t g_aid = 0;
static std::mutex g_amx;
static thread_local bool g_ain = false;
static void alog_alloc(void *p, int fam, size_t n) {
    if (!g_alog || g_ain || !p) return;
    g_ain = true;
    { std::lock_guard<std::mutex> l(g_amx); g_alive[p] = g_aid++; g_aev.push_back(1); g_aev.push_back(fam); g_aev.push_back(n); }
    g_ain = false;
}
static void alog_free(void *p, int fam) {
    if (!g_alog || g_ain || !p) return;
    g_ain = true;
    { std::lock_guard<std::mutex> l(g_amx);
      auto it = g_alive.find(p);
      if (it != g_alive.end()) { g_aev.push_back(2); g_aev.push_back(fam); g_aev.push_back(it->second); g_alive.erase(it); }
      else if (fam != 2 && false) { } }
    g_ain = false;
}
extern "C" void *__wrap_malloc(size_t n) { void *p = __real_malloc(n); alog_alloc(p, 0, n); return p; }
extern "C" void __wrap_free(void *p) { alog_free(p, 0); __real_free(p); }
void *operator new[](size_t n) { void *p = __real_malloc(n ? n : 1); if (!p) throw std::bad_alloc(); alog_alloc(p, 1, n); return p; }
void operator delete[](void *p) noexcept { alog_free(p, 1); __real_free(p); }
void operator delete[](void *p, size_t) noexcept { alog_free(p, 1); __real_free(p); }
void operator delete(void *p) noexcept { alog_free(p, 2); __real_free(p); }
void operator delete(void *p, size_t) noexcept { alog_free(p, 2); __real_free(p); }
static void alog_begin() { std::lock_guard<std::mutex> l(g_amx); g_aev.clear(); g_alive.clear(); g_aid = 0; g_alog = true; }
static void alog_end() { g_alog = false; }
#else
static std::vector<uint64_t> g_aev;
static void alog_begin() {}
static void alog_end() {}
#endif

#include "gen_dispatch.inc"
#include "hand_dispatch.inc"

static bool parse_line(const std::string &line, bool &forked, std::string &fn, Args &A) {
    std::istringstream is(line);
    std::string tok;
    if (!(is >> fn)) return false;
    if (fn[0] == '@') {   // "@<mode>:<maxthreads>:<seed>[:<cap>]"  OpenMP stand-in configuration for this request (C12)
#ifdef HARNESS_OMP_STANDIN
        int mode = 0, mx = 4, cap = 0; unsigned long long sd = 1;
        sscanf(fn.c_str() + 1, "%d:%d:%llx:%d", &mode, &mx, &sd, &cap);
        glv_omp_config(mode, mx, sd, cap);
#endif
        if (!(is >> fn)) return false;
    }
    forked = false;
    if (fn[0] == '!') { forked = true; fn = fn.substr(1); }
    g_guard = false;
    if (!fn.empty() && fn[0] == '^') { g_guard = true; fn = fn.substr(1); }
    bool inreg = false;
    Tok cur;
    while (is >> tok) {
        if (tok == "[") { inreg = true; cur = Tok(); cur.isreg = true; continue; }
        if (tok == "]") { inreg = false; A.t.push_back(cur); continue; }
        if (tok.rfind("s:", 0) == 0) { Tok t; t.isreg = false; t.isstr = true; t.w = 0; t.s = tok.substr(2); A.t.push_back(t); continue; }
        char *end = nullptr;
        unsigned long long v = strtoull(tok.c_str(), &end, 16);
        if (*end) return false;
        if (inreg) cur.r.push_back(v);
        else { Tok t; t.isreg = false; t.w = v; A.t.push_back(t); }
    }
    return !inreg;
}

static std::string run_op(const std::string &fn, Args &A) {
    g_out.clear();
    g_err.clear();
    g_outs.clear();
    g_bufs.clear();
    bool done = gen_dispatch(fn, A);
    if (!done) done = hand_dispatch(fn, A);
    std::string res;
    if (!done) res = "err unknown-op";
    else if (A.bad) res = "err parse";
    else if (!g_err.empty()) res = "err " + g_err;
    else {
        bool rz = true;
        for (auto &b : g_bufs) if (!b.check()) rz = false;
        if (!rz) res = "err redzone";
        else {
            std::ostringstream os;
            os << "ok";
            if (!g_outs.empty()) os << " s:" << g_outs;
            char tmp[32];
            for (uint64_t v : g_out) { snprintf(tmp, sizeof tmp, " %llx", (unsigned long long)v); os << tmp; }
            res = os.str();
        }
    }
    for (auto &b : g_bufs) b.release();
    g_bufs.clear();
    return res;
}

int main() {
    std::string line;
    std::ios::sync_with_stdio(false);
    while (std::getline(std::cin, line)) {
        bool forked;
        std::string fn;
        Args A;
        if (!parse_line(line, forked, fn, A)) { std::cout << "err parse\n"; continue; }
        if (!forked) {
            std::cout << run_op(fn, A) << "\n";
            continue;
        }
        std::cout.flush();
        int pfd[2];
        if (pipe(pfd) != 0) { std::cout << "err pipe\n"; continue; }
        pid_t pid = fork();
        if (pid == 0) {
            close(pfd[0]);
            // silence the library's diagnostics and the sanitizer's report in the child
            int dn = open("/dev/null", 1);
            if (dn >= 0) dup2(dn, 2);
            alarm(120);
            std::string r = run_op(fn, A);
            r += "\n";
            ssize_t wr = write(pfd[1], r.c_str(), r.size());
            (void)wr;
            _exit(0);
        }
        close(pfd[1]);
        std::string got;
        char buf[65536];
        ssize_t k;
        while ((k = read(pfd[0], buf, sizeof buf)) > 0) got.append(buf, k);
        close(pfd[0]);
        int status = 0;
        waitpid(pid, &status, 0);
        if (WIFEXITED(status) && WEXITSTATUS(status) == 0 && !got.empty()) std::cout << got;
        else if (WIFSIGNALED(status)) std::cout << "err signal " << WTERMSIG(status) << "\n";
        else std::cout << "err exit " << (WIFEXITED(status) ? WEXITSTATUS(status) : -1) << "\n";
    }
    std::cout.flush();
    return 0;
}
